package props

import (
	"os"
	"fmt"
	"go/ast"
	"go/constant"
	"go/token"
	"go/types"
	"regexp"
	"sort"
	"strings"

	"golibcheck/internal/core"
	"golibcheck/internal/paths"
)

// Structural rules of the Java-ported hash collections (util/hmap), instantiated uniformly over the
// sibling types: insertion helpers (per PUT_MODE), update-in-place, bound/eviction, growth trigger,
// removal, rehash, whole-table walks, enumerator discriminators, sort.

type hmapType struct {
	p      *core.Program
	r      *core.Report
	pre    string // rule prefix: C09 or C12
	t      *types.Named
	name   string
	linked bool
	hasMax bool
	modes  map[string]constant.Value // PUT_* constants
}

func hmapModes(p *core.Program) map[string]constant.Value {
	out := map[string]constant.Value{}
	pk := p.Pkg("util/hmap")
	if pk == nil {
		return out
	}
	for _, n := range []string{"PUT_FORCE_FIRST", "PUT_FORCE_LAST", "PUT_FIRST", "PUT_LAST"} {
		if c, ok := pk.Types.Scope().Lookup(n).(*types.Const); ok {
			out[n] = c.Val()
		}
	}
	return out
}

func structHasField(t *types.Named, f string) bool {
	st, ok := t.Underlying().(*types.Struct)
	if !ok {
		return false
	}
	for i := 0; i < st.NumFields(); i++ {
		if st.Field(i).Name() == f {
			return true
		}
	}
	return false
}

func stripSpaces(s string) string {
	s = strings.ReplaceAll(s, " ", "")
	if linkCanon != nil {
		s = linkCanon.Replace(s)
	}
	if headerInline != nil {
		s = headerInline.ReplaceAllString(s, "$1")
	}
	return s
}

// headerInline: while a collection whose ring header is stored inline (a struct-valued field instead
// of a pointer to a separately allocated entry) is judged, `&x.header` reads as `x.header`: the same
// entry either way. Set by setLinkCanon, nil otherwise.
var headerInline *regexp.Regexp

// linkCanon: while one collection type is judged, an order ring kept in a small struct of the entry
// (e.link.next / e.link.prev) reads as the flat field pair (e.link_next / e.link_prev) the rules are
// written over. Set by setLinkCanon, nil otherwise.
var linkCanon *strings.Replacer

// setLinkCanon looks at the entry type behind the collection's bucket table: a struct-typed field of
// the entry whose struct holds a "next" and a "prev" pointer to the entry type is the order ring.
func setLinkCanon(t *types.Named) {
	linkCanon = nil
	headerInline = nil
	if t == nil {
		return
	}
	st, ok := t.Underlying().(*types.Struct)
	if !ok {
		return
	}
	for i := 0; i < st.NumFields(); i++ {
		if _, isStruct := st.Field(i).Type().Underlying().(*types.Struct); isStruct && st.Field(i).Name() == "header" {
			if _, isNamed := st.Field(i).Type().(*types.Named); isNamed {
				headerInline = regexp.MustCompile(`&((?:[A-Za-z_]\w*\.)*header)\b`)
			}
		}
	}
	var entry *types.Named
	for i := 0; i < st.NumFields(); i++ {
		if sl, ok := st.Field(i).Type().Underlying().(*types.Slice); ok {
			if pt, ok := sl.Elem().(*types.Pointer); ok {
				if n, ok := pt.Elem().(*types.Named); ok {
					entry = n
				}
			}
		}
	}
	if entry == nil {
		return
	}
	est, ok := entry.Underlying().(*types.Struct)
	if !ok {
		return
	}
	var pairs []string
	// the ring kept as a two-slot array of the entry (e.link[ringNext] / e.link[ringPrev]) indexed by
	// named constants: which slot is which is told by the constants' names
	for i := 0; i < est.NumFields(); i++ {
		f := est.Field(i)
		at, ok := f.Type().Underlying().(*types.Array)
		if !ok || at.Len() != 2 {
			continue
		}
		if pt, ok := at.Elem().(*types.Pointer); !ok || namedOf(pt) == nil || namedOf(pt).Obj() != entry.Obj() {
			continue
		}
		sc := entry.Obj().Pkg().Scope()
		for _, nm := range sc.Names() {
			c, ok := sc.Lookup(nm).(*types.Const)
			if !ok {
				continue
			}
			if b, ok := c.Type().Underlying().(*types.Basic); !ok || b.Info()&types.IsInteger == 0 {
				continue
			}
			if v := c.Val().ExactString(); v != "0" && v != "1" {
				continue
			}
			ln := strings.ToLower(nm)
			switch {
			case strings.Contains(ln, "next") || strings.Contains(ln, "succ") || strings.Contains(ln, "after"):
				pairs = append(pairs, "."+f.Name()+"["+nm+"]", ".link_next")
			case strings.Contains(ln, "prev") || strings.Contains(ln, "pred") || strings.Contains(ln, "before"):
				pairs = append(pairs, "."+f.Name()+"["+nm+"]", ".link_prev")
			}
		}
	}
	for i := 0; i < est.NumFields(); i++ {
		f := est.Field(i)
		ft := f.Type()
		if pt, ok := ft.(*types.Pointer); ok {
			ft = pt.Elem()
		}
		rn, ok := ft.(*types.Named)
		if !ok || rn.Obj() == entry.Obj() {
			continue
		}
		rst, ok := rn.Underlying().(*types.Struct)
		if !ok {
			continue
		}
		nextF, prevF := "", ""
		for k := 0; k < rst.NumFields(); k++ {
			g := rst.Field(k)
			gp, ok := g.Type().(*types.Pointer)
			if !ok {
				continue
			}
			if gn, ok := gp.Elem().(*types.Named); !ok || gn.Obj() != entry.Obj() {
				continue
			}
			switch ln := strings.ToLower(g.Name()); {
			case strings.Contains(ln, "next") || strings.Contains(ln, "succ") || strings.Contains(ln, "after"):
				nextF = g.Name()
			case strings.Contains(ln, "prev") || strings.Contains(ln, "pred") || strings.Contains(ln, "before"):
				prevF = g.Name()
			}
		}
		if nextF != "" && prevF != "" {
			pairs = append(pairs, "."+f.Name()+"."+nextF, ".link_next", "."+f.Name()+"."+prevF, ".link_prev")
		}
	}
	if len(pairs) > 0 {
		linkCanon = strings.NewReplacer(pairs...)
	}
}

// hmapClassifier abstracts statements of one method into events.
type hmapClassifier struct {
	ptrAlias    map[types.Object]ast.Expr         // locals abbreviating a pointer field of the receiver
	depth       int                               // hashExprKind: how many caller hops were followed
	resolveCall func(call *ast.CallExpr) ast.Expr // value of a same-receiver selector helper under the mode being specialised
	fi          *core.FuncInfo
	info        *types.Info
	recv        string
	fresh       map[types.Object]ast.Expr // local var -> fresh entry expression
	defPos      map[types.Object]token.Pos
	bodies      []*ast.BlockStmt // the method body and the bodies of helpers inlined while enumerating it
	p           *core.Program    // for resolving the hash helper (optional)
}

// hmapProg: the program under analysis (set by the rule entry points; one run analyses one program).
var hmapProg *core.Program

func newHmapClassifier(fi *core.FuncInfo) *hmapClassifier {
	c := &hmapClassifier{p: hmapProg, fi: fi, info: fi.Pkg.TypesInfo, recv: recvName(fi), fresh: map[types.Object]ast.Expr{}, defPos: map[types.Object]token.Pos{}}
	ast.Inspect(fi.Decl.Body, func(n ast.Node) bool {
		if as, ok := n.(*ast.AssignStmt); ok && len(as.Lhs) == 1 && len(as.Rhs) == 1 {
			if id, ok := as.Lhs[0].(*ast.Ident); ok {
				obj := c.info.ObjectOf(id)
				if obj != nil {
					if isFreshEntry(c.info, as.Rhs[0]) {
						c.fresh[obj] = as.Rhs[0]
					}
					if _, had := c.defPos[obj]; !had || as.Tok == token.DEFINE {
						c.defPos[obj] = as.Pos()
					}
				}
			}
		}
		return true
	})
	return c
}

// isFreshEntry: &T{...} or NewT(...) of an entry type.
func isFreshEntry(info *types.Info, e ast.Expr) bool {
	e = ast.Unparen(e)
	if u, ok := e.(*ast.UnaryExpr); ok && u.Op == token.AND {
		_, isLit := u.X.(*ast.CompositeLit)
		return isLit
	}
	if call, ok := e.(*ast.CallExpr); ok {
		if id, ok := call.Fun.(*ast.Ident); ok && strings.HasPrefix(id.Name, "New") && (strings.Contains(id.Name, "Entry") || strings.Contains(id.Name, "Setry") || strings.Contains(id.Name, "ENTRY")) {
			return true
		}
	}
	return false
}

func (c *hmapClassifier) norm(e ast.Expr) string {
	// a local that only abbreviates a pointer field of the receiver (head := this.header) reads as the field
	if c.ptrAlias == nil {
		c.ptrAlias = map[types.Object]ast.Expr{}
		count := map[types.Object]int{}
		for _, body := range append([]*ast.BlockStmt{c.fi.Decl.Body}, c.bodies...) {
			ast.Inspect(body, func(n ast.Node) bool {
				switch as := n.(type) {
				case *ast.AssignStmt:
					for i, l := range as.Lhs {
						id, ok := l.(*ast.Ident)
						if !ok {
							continue
						}
						obj := c.info.ObjectOf(id)
						count[obj]++
						if len(as.Lhs) == len(as.Rhs) {
							if sel, ok := ast.Unparen(as.Rhs[i]).(*ast.SelectorExpr); ok {
								if rid, ok := ast.Unparen(sel.X).(*ast.Ident); ok && rid.Name == c.recv {
									if _, isPtr := c.info.TypeOf(sel).(*types.Pointer); isPtr {
										c.ptrAlias[obj] = sel
									}
								}
							}
						}
					}
				case *ast.IncDecStmt:
					if id, ok := as.X.(*ast.Ident); ok {
						count[c.info.ObjectOf(id)] += 2
					}
				}
				return true
			})
		}
		for o := range c.ptrAlias {
			if count[o] != 1 {
				delete(c.ptrAlias, o)
			}
		}
	}
	if len(c.ptrAlias) > 0 {
		repl := map[types.Object]ast.Expr{}
		for o, x := range c.ptrAlias {
			repl[o] = x
		}
		if ne, ok := paths.Subst(c.info, e, repl).(ast.Expr); ok {
			e = ne
		}
	}
	s := stripSpaces(types.ExprString(e))
	s = strings.ReplaceAll(s, c.recv+".", "")
	return s
}

// nextInit returns the expression initialising the bucket-chain link of a fresh entry.
func nextInit(e ast.Expr) ast.Expr {
	e = ast.Unparen(e)
	if u, ok := e.(*ast.UnaryExpr); ok {
		if cl, ok := u.X.(*ast.CompositeLit); ok {
			for _, el := range cl.Elts {
				if kv, ok := el.(*ast.KeyValueExpr); ok {
					if id, ok := kv.Key.(*ast.Ident); ok && (id.Name == "next" || id.Name == "hash_next" || id.Name == "Next") {
						return kv.Value
					}
				}
			}
		}
		return nil
	}
	if call, ok := e.(*ast.CallExpr); ok && len(call.Args) > 0 {
		return call.Args[len(call.Args)-1]
	}
	return nil
}

func (c *hmapClassifier) classify(n ast.Node) []paths.Event {
	var out []paths.Event
	switch v := n.(type) {
	case *ast.IncDecStmt:
		if strings.HasSuffix(c.norm(v.X), "count") {
			k := "INC"
			if v.Tok == token.DEC {
				k = "DEC"
			}
			out = append(out, paths.Event{Kind: k, Pos: v.Pos()})
		}
		return out
	case *ast.AssignStmt:
		// chain-walk bookkeeping (any arity: `prev = e; e = e.next` or `prev, e = e, e.next`):
		// PREVSET(p=x): a local entry pointer takes the value of another; ADVANCE(x): x = x.next
		if len(v.Lhs) == len(v.Rhs) && (v.Tok == token.ASSIGN || v.Tok == token.DEFINE) {
			var adv []paths.Event
			for i := range v.Lhs {
				lid, ok := ast.Unparen(v.Lhs[i]).(*ast.Ident)
				if !ok {
					continue
				}
				if _, isPtr := c.info.TypeOf(v.Lhs[i]).(*types.Pointer); !isPtr {
					continue
				}
				switch r := ast.Unparen(v.Rhs[i]).(type) {
				case *ast.Ident:
					if r.Name != "nil" && r.Name != lid.Name {
						out = append(out, paths.Event{Kind: "PREVSET", Arg: lid.Name + "=" + r.Name, Pos: v.Pos()})
					}
				case *ast.SelectorExpr:
					if rid, ok := ast.Unparen(r.X).(*ast.Ident); ok && rid.Name == lid.Name && isNextField(r.Sel.Name) {
						adv = append(adv, paths.Event{Kind: "ADVANCE", Arg: lid.Name, Pos: v.Pos()})
					}
				}
			}
			out = append(out, adv...)
		}
		if len(v.Lhs) == 1 && len(v.Rhs) == 1 {
			l, rr := v.Lhs[0], v.Rhs[0]
			ls := c.norm(l)
			if ls == "count" {
				switch v.Tok {
				case token.ADD_ASSIGN:
					out = append(out, paths.Event{Kind: "INC", Pos: v.Pos()})
				case token.SUB_ASSIGN:
					out = append(out, paths.Event{Kind: "DEC", Pos: v.Pos()})
				case token.ASSIGN:
					rs := c.norm(rr)
					switch rs {
					case "count+1":
						out = append(out, paths.Event{Kind: "INC", Pos: v.Pos()})
					case "count-1":
						out = append(out, paths.Event{Kind: "DEC", Pos: v.Pos()})
					case "0":
						out = append(out, paths.Event{Kind: "ZEROCOUNT", Pos: v.Pos()})
					default:
						out = append(out, paths.Event{Kind: "SETCOUNT", Arg: rs, Pos: v.Pos()})
					}
				}
			}
			if ix, ok := ast.Unparen(l).(*ast.IndexExpr); ok {
				// bucket store
				var fresh ast.Expr
				if id, ok := ast.Unparen(rr).(*ast.Ident); ok {
					fresh = c.fresh[c.info.ObjectOf(id)]
				} else if isFreshEntry(c.info, rr) {
					fresh = rr
				}
				if fresh != nil {
					arg := "next=?"
					if ni := nextInit(fresh); ni != nil {
						if c.norm(ni) == c.norm(ix) {
							arg = "next=bucket"
						} else if id, ok := ast.Unparen(ni).(*ast.Ident); ok {
							arg = fmt.Sprintf("next=var:%d", c.defPos[c.info.ObjectOf(id)])
						} else {
							arg = "next=" + c.norm(ni)
						}
					}
					out = append(out, paths.Event{Kind: "BUCKET_INSERT", Arg: arg, Pos: v.Pos(), Node: v})
				} else if sel, ok := ast.Unparen(rr).(*ast.SelectorExpr); ok && isNextField(sel.Sel.Name) {
					out = append(out, paths.Event{Kind: "BUCKET_UNLINK", Arg: "head", Pos: v.Pos()})
				} else if id, ok := ast.Unparen(rr).(*ast.Ident); ok && id.Name == "nil" {
					out = append(out, paths.Event{Kind: "BUCKET_CLEAR", Pos: v.Pos()})
				}
			}
			if lsel, ok := ast.Unparen(l).(*ast.SelectorExpr); ok && isNextField(lsel.Sel.Name) {
				if rsel, ok := ast.Unparen(rr).(*ast.SelectorExpr); ok && isNextField(rsel.Sel.Name) {
					out = append(out, paths.Event{Kind: "BUCKET_UNLINK", Arg: "mid", Pos: v.Pos()})
					if pid, ok := ast.Unparen(lsel.X).(*ast.Ident); ok {
						if eid, ok := ast.Unparen(rsel.X).(*ast.Ident); ok {
							out = append(out, paths.Event{Kind: "PREDVAR", Arg: pid.Name + "=" + eid.Name, Pos: v.Pos()})
						}
					}
				}
			}
			// slot-pointer unlink: with ref pointing at the slot that holds the entry (the bucket head
			// or the predecessor's next field), `*ref = e.next` removes e = *ref from its chain
			if st, ok := ast.Unparen(l).(*ast.StarExpr); ok {
				if rid, ok := ast.Unparen(st.X).(*ast.Ident); ok {
					if pt, ok := c.info.TypeOf(rid).(*types.Pointer); ok {
						if _, ok := pt.Elem().(*types.Pointer); ok {
							if rsel, ok := ast.Unparen(rr).(*ast.SelectorExpr); ok && isNextField(rsel.Sel.Name) {
								arg := "slot?"
								x := ast.Unparen(rsel.X)
								if id, ok := x.(*ast.Ident); ok {
									// e := *ref
									if d := c.localDef(id); d != nil {
										x = ast.Unparen(d)
									}
								}
								if sx, ok := x.(*ast.StarExpr); ok {
									if sid, ok := ast.Unparen(sx.X).(*ast.Ident); ok && c.info.ObjectOf(sid) == c.info.ObjectOf(rid) {
										arg = "slot"
									}
								}
								out = append(out, paths.Event{Kind: "BUCKET_UNLINK", Arg: arg, Pos: v.Pos()})
							}
						}
					}
				}
			}
			if strings.HasSuffix(ls, ".value") || strings.HasSuffix(ls, ".Value") {
				out = append(out, paths.Event{Kind: "SETVAL", Arg: v.Tok.String(), Pos: v.Pos()})
			}
			if _, isLocal := ast.Unparen(l).(*ast.Ident); isLocal && c.norm(rr) == "table" {
				out = append(out, paths.Event{Kind: "RELOAD", Pos: v.Pos()})
			}
			if _, isLocal := ast.Unparen(l).(*ast.Ident); isLocal {
				rx := rr
				// index = bucketIndex(hash, len(tab)): a value helper reads as what it returns
				if call, ok := ast.Unparen(stripConvs(c.info, rr)).(*ast.CallExpr); ok && c.p != nil {
					if res := helperResults(c.p, c.info, call); len(res) == 1 {
						rx = res[0]
					}
				}
				if strings.Contains(c.norm(rx), "%") && strings.Contains(c.norm(rx), "len(") {
					out = append(out, paths.Event{Kind: "REINDEX", Arg: c.norm(rx), Pos: v.Pos()})
				}
			}
		}
	}
	ast.Inspect(n, func(m ast.Node) bool {
		call, ok := m.(*ast.CallExpr)
		if !ok {
			return true
		}
		// order-list surgery done by a package-level function (the helpers do not use their receiver)
		if fid, isId := call.Fun.(*ast.Ident); isId {
			switch c.linkKind(fid) {
			case "chain":
				end := "?"
				if len(call.Args) == 3 {
					a, b := c.norm(call.Args[0]), c.norm(call.Args[1])
					switch {
					case a == "header" && b == "header.link_next":
						end = "first"
					case a == "header.link_prev" && b == "header":
						end = "last"
					}
				}
				out = append(out, paths.Event{Kind: "LINK", Arg: end, Pos: call.Pos()})
			case "unchain":
				out = append(out, paths.Event{Kind: "UNLINK", Pos: call.Pos()})
			}
			return true
		}
		sel, ok := call.Fun.(*ast.SelectorExpr)
		if !ok {
			return true
		}
		// a value setter of the entry type called on a local entry: what it does with the value
		if id, ok := ast.Unparen(sel.X).(*ast.Ident); ok && id.Name != c.recv && hmapProg != nil && len(call.Args) == 1 {
			if fn, _ := c.info.Uses[sel.Sel].(*types.Func); fn != nil && fn.Pkg() == c.fi.Obj.Pkg() {
				if efi := hmapProg.FuncOf(fn); efi != nil && efi.Decl.Body != nil && efi.Decl.Type.Params != nil && len(efi.Decl.Type.Params.List) == 1 && len(efi.Decl.Type.Params.List[0].Names) == 1 {
					pobj := efi.Pkg.TypesInfo.Defs[efi.Decl.Type.Params.List[0].Names[0]]
					stores, guarded := false, false
					ast.Inspect(efi.Decl.Body, func(k ast.Node) bool {
						switch v := k.(type) {
						case *ast.AssignStmt:
							for i, l := range v.Lhs {
								if ls, ok := ast.Unparen(l).(*ast.SelectorExpr); ok && strings.EqualFold(ls.Sel.Name, "value") && i < len(v.Rhs) {
									if rid, ok := ast.Unparen(v.Rhs[i]).(*ast.Ident); ok && efi.Pkg.TypesInfo.ObjectOf(rid) == pobj {
										stores = true
									}
								}
							}
						case *ast.CallExpr:
							if fid, ok := v.Fun.(*ast.Ident); ok && (fid.Name == "recover" || fid.Name == "panic") {
								guarded = true
							}
						}
						return true
					})
					if stores {
						arg := "="
						if guarded {
							arg = "guarded"
						}
						out = append(out, paths.Event{Kind: "SETVAL", Arg: arg, Pos: call.Pos()})
					}
				}
			}
		}
		// order-list surgery written as methods of the entry (e.linkBetween(prev, next), e.unlink())
		if id, ok := ast.Unparen(sel.X).(*ast.Ident); ok && id.Name != c.recv {
			if lr := c.linkRoles(sel.Sel); lr != nil {
				switch lr.kind {
				case "chain":
					end := "?"
					if lr.prev >= 0 && lr.next >= 0 && lr.prev < len(call.Args) && lr.next < len(call.Args) {
						a, b := c.norm(call.Args[lr.prev]), c.norm(call.Args[lr.next])
						switch {
						case a == "header" && b == "header.link_next":
							end = "first"
						case a == "header.link_prev" && b == "header":
							end = "last"
						}
					}
					out = append(out, paths.Event{Kind: "LINK", Arg: end, Pos: call.Pos()})
				case "unchain":
					out = append(out, paths.Event{Kind: "UNLINK", Pos: call.Pos()})
				}
				return true
			}
		}
		if id, ok := ast.Unparen(sel.X).(*ast.Ident); !ok || id.Name != c.recv {
			if isSortCallName(c.norm(sel.X), sel.Sel.Name) {
				out = append(out, paths.Event{Kind: "SORT", Pos: call.Pos()})
			}
			return true
		}
		name := sel.Sel.Name
		if k := c.linkKind(sel.Sel); k != "" {
			name = k
		}
		switch name {
		case "chain":
			end := "?"
			if len(call.Args) == 3 {
				a, b := c.norm(call.Args[0]), c.norm(call.Args[1])
				switch {
				case a == "header" && b == "header.link_next":
					end = "first"
				case a == "header.link_prev" && b == "header":
					end = "last"
				}
			}
			out = append(out, paths.Event{Kind: "LINK", Arg: end, Pos: call.Pos()})
		case "unchain":
			out = append(out, paths.Event{Kind: "UNLINK", Pos: call.Pos()})
		case "remove":
			end := "?"
			if len(call.Args) >= 1 {
				a := c.keySource(call.Args[0])
				switch {
				case strings.HasPrefix(a, "header.link_next."):
					end = "first"
				case strings.HasPrefix(a, "header.link_prev."):
					end = "last"
				}
			}
			out = append(out, paths.Event{Kind: "EVICT", Arg: end, Pos: call.Pos()})
		case "rehash":
			out = append(out, paths.Event{Kind: "REHASH", Pos: call.Pos()})
		case "clear":
			out = append(out, paths.Event{Kind: "CLEAR", Pos: call.Pos()})
		case "put", "add", "_add":
			mode := ""
			if len(call.Args) > 0 {
				mode = c.norm(call.Args[len(call.Args)-1])
			}
			out = append(out, paths.Event{Kind: "REINSERT", Arg: mode, Pos: call.Pos()})
		case "overflowed":
		}
		return true
	})
	return out
}

func isNextField(n string) bool { return n == "next" || n == "hash_next" || n == "Next" }

// keySource: the expression a removal key derives from (following one local definition).
func (c *hmapClassifier) keySource(e ast.Expr) string {
	e = ast.Unparen(e)
	// this.endEntry(front).key: the entry a helper selects once the mode is known
	if sel, ok := e.(*ast.SelectorExpr); ok && c.resolveCall != nil {
		if call, ok := ast.Unparen(sel.X).(*ast.CallExpr); ok {
			if r := c.resolveCall(call); r != nil {
				return c.norm(r) + "." + sel.Sel.Name
			}
		}
	}
	if id, ok := e.(*ast.Ident); ok {
		obj := c.info.ObjectOf(id)
		var def ast.Expr
		n := 0
		for _, body := range append([]*ast.BlockStmt{c.fi.Decl.Body}, c.bodies...) {
			ast.Inspect(body, func(m ast.Node) bool {
				if as, ok := m.(*ast.AssignStmt); ok && len(as.Lhs) == 1 && len(as.Rhs) == 1 {
					if lid, ok := as.Lhs[0].(*ast.Ident); ok && c.info.ObjectOf(lid) == obj {
						def = as.Rhs[0]
						n++
					}
				}
				return true
			})
		}
		if def != nil {
			// several definitions (one per eviction loop): the caller looks at the nearest; all must agree per branch
			return c.norm(def)
		}
	}
	return c.norm(e)
}

// normCmp brings an ordering/equality comparison into a canonical spelling so that rules do not
// depend on how the guard is written: constants on the right, variable pairs in lexical order, and
// only the operators >, >=, == (x <= c is recorded as x > c with the opposite outcome, etc.).
func (c *hmapClassifier) normCmp(cond ast.Expr, val bool) (string, bool, bool) {
	be, ok := ast.Unparen(cond).(*ast.BinaryExpr)
	if !ok {
		return "", val, false
	}
	op := be.Op
	switch op {
	case token.LSS, token.LEQ, token.GTR, token.GEQ, token.EQL, token.NEQ:
	default:
		return "", val, false
	}
	x, y := be.X, be.Y
	isConst := func(e ast.Expr) bool {
		if id, ok := ast.Unparen(e).(*ast.Ident); ok && id.Name == "nil" {
			return true
		}
		tv, ok := c.info.Types[e]
		return ok && tv.Value != nil
	}
	xs, ys := c.norm(x), c.norm(y)
	if (isConst(x) && !isConst(y)) || (!isConst(x) && !isConst(y) && xs > ys) {
		xs, ys = ys, xs
		op = flipOp(op)
	}
	switch op {
	case token.LSS:
		op, val = token.GEQ, !val
	case token.LEQ:
		op, val = token.GTR, !val
	case token.NEQ:
		op, val = token.EQL, !val
	}
	return xs + op.String() + ys, val, true
}

// cc spells a comparison outcome the way condEvent records it (same canonical form as normCmp).
func cc(l, op, r string, val bool) string {
	isConst := func(s string) bool { return s == "nil" || (len(s) > 0 && (s[0] >= '0' && s[0] <= '9' || s[0] == '-')) }
	if (isConst(l) && !isConst(r)) || (!isConst(l) && !isConst(r) && l > r) {
		l, r = r, l
		op = map[string]string{"<": ">", "<=": ">=", ">": "<", ">=": "<=", "==": "==", "!=": "!="}[op]
	}
	switch op {
	case "<":
		op, val = ">=", !val
	case "<=":
		op, val = ">", !val
	case "!=":
		op, val = "==", !val
	}
	return fmt.Sprintf("%s%s%s=%v", l, op, r, val)
}

// ccBoth: both canonical spellings of a comparison (operands in either order); condKey decides the
// order with type information (constants go right), cc only by spelling, so a named constant can end
// up on either side.
func ccBoth(l, op, r string, val bool) []string {
	norm := func(l, op, r string, val bool) string {
		switch op {
		case "<":
			op, val = ">=", !val
		case "<=":
			op, val = ">", !val
		case "!=":
			op, val = "==", !val
		}
		return fmt.Sprintf("%s%s%s=%v", l, op, r, val)
	}
	flip := map[string]string{"<": ">", "<=": ">=", ">": "<", ">=": "<=", "==": "==", "!=": "!="}[op]
	return []string{norm(l, op, r, val), norm(r, flip, l, val)}
}

func hasCmp(pa paths.Path, l, op, r string, val bool) bool {
	for _, k := range ccBoth(l, op, r, val) {
		if pa.HasArg("COND", k) {
			return true
		}
	}
	return false
}

func (c *hmapClassifier) condEvent(cond ast.Expr, val bool) *paths.Event {
	origVal := val
	// this.endEntry(front) == e reads as header.link_next == e once the mode fixes `front`
	if be, ok := ast.Unparen(cond).(*ast.BinaryExpr); ok && c.resolveCall != nil {
		x, y := be.X, be.Y
		if call, ok := ast.Unparen(x).(*ast.CallExpr); ok {
			if r := c.resolveCall(call); r != nil {
				x = r
			}
		}
		if call, ok := ast.Unparen(y).(*ast.CallExpr); ok {
			if r := c.resolveCall(call); r != nil {
				y = r
			}
		}
		if x != be.X || y != be.Y {
			nb := &ast.BinaryExpr{X: x, OpPos: be.OpPos, Op: be.Op, Y: y}
			if tv, ok := c.info.Types[be]; ok {
				c.info.Types[nb] = tv
			}
			cond = nb
		}
	}
	s := c.norm(cond)
	if ns, nv, ok := c.normCmp(cond, val); ok {
		s, val = ns, nv
	}
	// a growth point computed on demand (this.growAt() returning len(table) scaled by the load factor)
	// is the threshold under another spelling
	ast.Inspect(cond, func(n ast.Node) bool {
		if call, ok := n.(*ast.CallExpr); ok && c.isDerivedThreshold(call) {
			s = strings.ReplaceAll(s, c.norm(call), "threshold")
		}
		return true
	})
	kind := "COND"
	// found: e.key == key (or its negation e.key != key)
	if be, ok := ast.Unparen(cond).(*ast.BinaryExpr); ok && (be.Op == token.EQL || be.Op == token.NEQ) {
		l := c.norm(be.X)
		if (strings.HasSuffix(l, ".key") || strings.HasSuffix(l, ".Key")) && c.isParam(be.Y) {
			s = "found" // val was already normalised to the == outcome by normCmp
		}
	}
	if call, ok := ast.Unparen(cond).(*ast.CallExpr); ok && len(call.Args) == 1 {
		if sel, ok := call.Fun.(*ast.SelectorExpr); ok && sel.Sel.Name == "Equals" {
			if strings.HasSuffix(c.norm(sel.X), ".key") && c.norm(call.Args[0]) == "key" {
				s = "found"
			}
		}
	}
	if call, ok := ast.Unparen(cond).(*ast.CallExpr); ok && len(call.Args) == 2 {
		// compare helper on keys
		a, b := c.norm(call.Args[0]), c.norm(call.Args[1])
		if strings.HasSuffix(a, ".key") && b == "key" {
			s = "found"
		}
	}
	// e == nil with e := *slot, slot := finder(table, key): the finder (a helper that walks the chain
	// through the address of each link until it holds key or is the terminating nil) makes the nil
	// test the membership test
	if be, ok := ast.Unparen(cond).(*ast.BinaryExpr); ok && (be.Op == token.EQL || be.Op == token.NEQ) && s != "found" {
		for _, pr := range [][2]ast.Expr{{be.X, be.Y}, {be.Y, be.X}} {
			if nid, ok := ast.Unparen(pr[1]).(*ast.Ident); !ok || nid.Name != "nil" {
				continue
			}
			if c.derefOfFoundSlot(pr[0]) {
				// raw outcome of the cond; found is "not nil"
				rawEq := origVal
				if be.Op == token.NEQ {
					rawEq = !origVal
				}
				s, val = "found", !rawEq
			}
		}
	}
	// e == nil after `for e != nil && e.key != key { e = e.next }`: the loop stops at the entry that
	// holds the key or at the terminating nil, so behind the loop the nil test is the membership test
	if be, ok := ast.Unparen(cond).(*ast.BinaryExpr); ok && (be.Op == token.EQL || be.Op == token.NEQ) && s != "found" {
		for _, pr := range [][2]ast.Expr{{be.X, be.Y}, {be.Y, be.X}} {
			if nid, ok := ast.Unparen(pr[1]).(*ast.Ident); !ok || nid.Name != "nil" {
				continue
			}
			if id, ok := ast.Unparen(pr[0]).(*ast.Ident); ok && c.behindSearchLoop(id, cond.Pos()) {
				rawEq := origVal
				if be.Op == token.NEQ {
					rawEq = !origVal
				}
				s, val = "found", !rawEq
				return &paths.Event{Kind: kind, Arg: fmt.Sprintf("%s=%v", s, val), Pos: cond.Pos(), Node: searchLoopVerdict}
			}
		}
	}
	return &paths.Event{Kind: kind, Arg: fmt.Sprintf("%s=%v", s, val), Pos: cond.Pos()}
}

// isDerivedThreshold: call is a no-argument method on the receiver whose one result is computed from
// len(<receiver>.table) and the load factor.
func (c *hmapClassifier) isDerivedThreshold(call *ast.CallExpr) bool {
	if len(call.Args) != 0 || c.p == nil {
		return false
	}
	sel, ok := ast.Unparen(call.Fun).(*ast.SelectorExpr)
	if !ok {
		return false
	}
	if id, ok := ast.Unparen(sel.X).(*ast.Ident); !ok || id.Name != c.recv {
		return false
	}
	res := helperResults(c.p, c.info, call)
	if len(res) != 1 {
		return false
	}
	txt := stripSpaces(types.ExprString(res[0]))
	return strings.Contains(txt, "len(") && strings.Contains(txt, ".table)") && strings.Contains(txt, "loadFactor")
}

// searchLoopVerdict marks the membership test behind a search loop; searchLoopFeasible drops the
// paths on which it contradicts the way the loop was left (left on a match: found; left on nil: not).
var searchLoopVerdict ast.Node = &ast.BadExpr{}

func searchLoopFeasible(pa paths.Path) bool {
	for i, e := range pa {
		if e.Node != searchLoopVerdict {
			continue
		}
		for k := i - 1; k >= 0; k-- {
			if pa[k].Kind == "ENDLOOP" {
				continue
			}
			if pa[k].Kind == "COND" {
				if pa[k].Arg == "found=true" && e.Arg == "found=false" {
					return false
				}
				if strings.HasSuffix(pa[k].Arg, "==nil=true") && e.Arg == "found=true" {
					return false
				}
			}
			break
		}
	}
	return true
}

// behindSearchLoop: id is a local that a loop `for id != nil && id.key != <key parameter> { id = id.next }`
// (conjuncts in either order, nothing else in the body) has walked before position at, and nothing
// between the loop and at assigns it.
func (c *hmapClassifier) behindSearchLoop(id *ast.Ident, at token.Pos) bool {
	obj := c.info.ObjectOf(id)
	if obj == nil {
		return false
	}
	found := false
	for _, body := range append([]*ast.BlockStmt{c.fi.Decl.Body}, c.bodies...) {
		if at < body.Pos() || at > body.End() {
			continue
		}
		var loop *ast.ForStmt
		ast.Inspect(body, func(n ast.Node) bool {
			fs, ok := n.(*ast.ForStmt)
			if !ok || fs.Init != nil || fs.Post != nil || fs.Cond == nil || fs.End() > at || len(fs.Body.List) != 1 {
				return true
			}
			cj := flattenLand(fs.Cond)
			if len(cj) != 2 {
				return true
			}
			nilTest, keyTest := false, false
			for _, x := range cj {
				b, ok := ast.Unparen(x).(*ast.BinaryExpr)
				if !ok || b.Op != token.NEQ {
					continue
				}
				if xi, ok := ast.Unparen(b.X).(*ast.Ident); ok && c.info.ObjectOf(xi) == obj {
					if ni, ok := ast.Unparen(b.Y).(*ast.Ident); ok && ni.Name == "nil" {
						nilTest = true
					}
				}
				if sel, ok := ast.Unparen(b.X).(*ast.SelectorExpr); ok && (sel.Sel.Name == "key" || sel.Sel.Name == "Key") {
					if xi, ok := ast.Unparen(sel.X).(*ast.Ident); ok && c.info.ObjectOf(xi) == obj && c.isParam(b.Y) {
						keyTest = true
					}
				}
			}
			if !nilTest || !keyTest {
				return true
			}
			as, ok := fs.Body.List[0].(*ast.AssignStmt)
			if !ok || as.Tok != token.ASSIGN || len(as.Lhs) != 1 || len(as.Rhs) != 1 {
				return true
			}
			li, ok := as.Lhs[0].(*ast.Ident)
			if !ok || c.info.ObjectOf(li) != obj {
				return true
			}
			rs, ok := ast.Unparen(as.Rhs[0]).(*ast.SelectorExpr)
			if !ok {
				return true
			}
			if ri, ok := ast.Unparen(rs.X).(*ast.Ident); !ok || c.info.ObjectOf(ri) != obj {
				return true
			}
			loop = fs
			return true
		})
		if loop == nil {
			continue
		}
		// no assignment to the local between the loop and the test
		clean := true
		ast.Inspect(body, func(n ast.Node) bool {
			if as, ok := n.(*ast.AssignStmt); ok && as.Pos() > loop.End() && as.End() < at {
				for _, l := range as.Lhs {
					if li, ok := l.(*ast.Ident); ok && c.info.ObjectOf(li) == obj {
						clean = false
					}
				}
			}
			return true
		})
		if clean {
			found = true
		}
	}
	return found
}

func flattenLand(e ast.Expr) []ast.Expr {
	if be, ok := ast.Unparen(e).(*ast.BinaryExpr); ok && be.Op == token.LAND {
		return append(flattenLand(be.X), flattenLand(be.Y)...)
	}
	return []ast.Expr{e}
}

// derefOfFoundSlot: e is `*slot` (directly, or through one local) where slot was returned by a slot
// finder called with the method's key.
func (c *hmapClassifier) derefOfFoundSlot(e ast.Expr) bool {
	e = ast.Unparen(e)
	if id, ok := e.(*ast.Ident); ok {
		d := c.localDef(id)
		if d == nil {
			return false
		}
		e = ast.Unparen(d)
	}
	st, ok := e.(*ast.StarExpr)
	if !ok {
		return false
	}
	var call *ast.CallExpr
	switch x := ast.Unparen(st.X).(type) {
	case *ast.Ident:
		d := c.localDef(x)
		if d == nil {
			return false
		}
		call, _ = ast.Unparen(d).(*ast.CallExpr)
	case *ast.CallExpr:
		call = x
	}
	if call == nil || c.p == nil {
		return false
	}
	fn := calleeFunc(c.info, call)
	if fn == nil {
		return false
	}
	hf := c.p.FuncOf(fn)
	if hf == nil || hf.Decl.Body == nil || !isSlotFinder(hf) {
		return false
	}
	for _, a := range call.Args {
		if c.isParam(a) {
			return true
		}
	}
	return false
}

// isSlotFinder: the function returns **Entry, and every loop in it goes on while the link is non-nil
// and its key differs from a parameter, advancing to the address of the next link.
func isSlotFinder(hf *core.FuncInfo) bool {
	sig := hf.Obj.Type().(*types.Signature)
	if sig.Results().Len() != 1 {
		return false
	}
	pt, ok := sig.Results().At(0).Type().(*types.Pointer)
	if !ok {
		return false
	}
	if _, ok := pt.Elem().(*types.Pointer); !ok {
		return false
	}
	info := hf.Pkg.TypesInfo
	params := map[types.Object]bool{}
	for _, f := range hf.Decl.Type.Params.List {
		for _, n := range f.Names {
			params[info.Defs[n]] = true
		}
	}
	loops, good := 0, 0
	ast.Inspect(hf.Decl.Body, func(n ast.Node) bool {
		fs, ok := n.(*ast.ForStmt)
		if !ok {
			return true
		}
		loops++
		if fs.Cond == nil {
			return true
		}
		nilTest, keyTest := false, false
		for _, cj := range flattenAndExpr(fs.Cond) {
			be, ok := ast.Unparen(cj).(*ast.BinaryExpr)
			if !ok {
				continue
			}
			if be.Op == token.NEQ {
				if id, ok := ast.Unparen(be.Y).(*ast.Ident); ok && id.Name == "nil" {
					if _, isStar := ast.Unparen(be.X).(*ast.StarExpr); isStar {
						nilTest = true
					}
				}
				if sel, ok := ast.Unparen(be.X).(*ast.SelectorExpr); ok && (sel.Sel.Name == "key" || sel.Sel.Name == "Key") {
					if id, ok := ast.Unparen(be.Y).(*ast.Ident); ok && params[info.ObjectOf(id)] {
						keyTest = true
					}
				}
			}
		}
		adv := false
		ast.Inspect(fs.Body, func(m ast.Node) bool {
			if as, ok := m.(*ast.AssignStmt); ok && len(as.Lhs) == 1 && len(as.Rhs) == 1 {
				if u, ok := ast.Unparen(as.Rhs[0]).(*ast.UnaryExpr); ok && u.Op == token.AND {
					if sel, ok := ast.Unparen(u.X).(*ast.SelectorExpr); ok && isNextField(sel.Sel.Name) {
						adv = true
					}
				}
			}
			return true
		})
		if nilTest && keyTest && adv {
			good++
		}
		return true
	})
	return loops > 0 && loops == good
}

func flattenAndExpr(e ast.Expr) []ast.Expr {
	if be, ok := ast.Unparen(e).(*ast.BinaryExpr); ok && be.Op == token.LAND {
		return append(flattenAndExpr(be.X), flattenAndExpr(be.Y)...)
	}
	return []ast.Expr{e}
}

func (c *hmapClassifier) isParam(e ast.Expr) bool {
	id, ok := ast.Unparen(e).(*ast.Ident)
	if !ok {
		return false
	}
	obj := c.info.ObjectOf(id)
	for _, f := range c.fi.Decl.Type.Params.List {
		for _, n := range f.Names {
			if c.info.Defs[n] == obj {
				return true
			}
		}
	}
	return false
}

// modeParam returns the PUT_MODE-typed parameter of a helper (nil if none).
func modeParam(fi *core.FuncInfo) types.Object {
	for _, f := range fi.Decl.Type.Params.List {
		if types.ExprString(f.Type) == "PUT_MODE" && len(f.Names) == 1 {
			return fi.Pkg.TypesInfo.Defs[f.Names[0]]
		}
	}
	return nil
}

func (h *hmapType) enumerate(fi *core.FuncInfo, cl *hmapClassifier, mode string) ([]paths.Path, bool) {
	return h.enumerateWith(fi, cl, mode, nil)
}

// enumerateWith is enumerate with some (boolean) parameters of fi fixed to constants: a helper that
// takes the end as a flag (moveToEnd(e, front)) is judged once per value of the flag.
func (h *hmapType) enumerateWith(fi *core.FuncInfo, cl *hmapClassifier, mode string, preset map[types.Object]constant.Value) ([]paths.Path, bool) {
	mp := modeParam(fi)
	info := fi.Pkg.TypesInfo
	modeObjs := map[types.Object]bool{}
	if mp != nil {
		modeObjs[mp] = true
	}
	isMode := func(e ast.Expr) bool {
		id, ok := ast.Unparen(e).(*ast.Ident)
		return ok && modeObjs[info.ObjectOf(id)]
	}
	// same-receiver helpers that are not themselves primitive operations of the rule table
	// (chain/unchain/remove/rehash/clear/put/add/hash...) are followed: an extracted
	// `evictFor(m)` / `growIfNeeded()` is judged as if it were written in place
	primitive := map[string]bool{"chain": true, "unchain": true, "remove": true, "rehash": true, "clear": true, "put": true, "add": true, "_add": true,
		"overflowed": true, "hash": true, "Size": true, "IsEmpty": true, "IsFull": true}
	// order-list methods written on the header entry (this.header.linkFirst(e), this.header.moveLast(e)):
	// followed with the header substituted for their receiver
	onField := newInliner(h.p, fi, func(fn *types.Func) bool { return primitive[fn.Name()] })
	var inlineBody func(call *ast.CallExpr) *ast.BlockStmt
	inlineBody = func(call *ast.CallExpr) *ast.BlockStmt {
		sel, ok := call.Fun.(*ast.SelectorExpr)
		if !ok || primitive[sel.Sel.Name] {
			return nil
		}
		if fsel, ok := ast.Unparen(sel.X).(*ast.SelectorExpr); ok {
			if rid, ok := ast.Unparen(fsel.X).(*ast.Ident); ok && rid.Name == cl.recv && cl.linkRoles(sel.Sel) == nil && cl.linkKind(sel.Sel) == "" {
				if b := onField.Body(call); b != nil {
					return b
				}
			}
			return nil
		}
		if id, ok := ast.Unparen(sel.X).(*ast.Ident); !ok || id.Name != cl.recv {
			return nil
		}
		fn, _ := info.Uses[sel.Sel].(*types.Func)
		if fn == nil || fn.Exported() {
			return nil
		}
		cfi := h.p.FuncOf(fn)
		if cfi == nil || cfi.Decl.Body == nil || cfi.Pkg != fi.Pkg || recvName(cfi) != cl.recv || cfi == fi {
			return nil
		}
		// parameters that receive the caller's mode are mode variables too
		i := 0
		for _, f := range cfi.Decl.Type.Params.List {
			for _, n := range f.Names {
				if i < len(call.Args) && isMode(call.Args[i]) {
					modeObjs[info.Defs[n]] = true
				}
				i++
			}
		}
		seen := false
		for _, b := range cl.bodies {
			if b == cfi.Decl.Body {
				seen = true
			}
		}
		if !seen {
			cl.bodies = append(cl.bodies, cfi.Decl.Body)
			cl.ptrAlias = nil // the helper's own abbreviations (head := this.header) are collected too
		}
		return cfi.Decl.Body
	}
	exp := newInliner(h.p, fi, func(fn *types.Func) bool { return true }) // only boolean-local expansion is used here
	// values that are constants once the mode is fixed: the mode itself, fields of a policy record
	// looked up by the mode (plan := putPlans[m]; plan.front), the comma-ok of that look-up, and helper
	// parameters bound to such values at the call being followed
	constVals := map[types.Object]constant.Value{}
	for k, v := range preset {
		constVals[k] = v
	}
	var modeConst func(e ast.Expr, depth int) constant.Value
	findDef := func(obj types.Object) (*ast.AssignStmt, int) {
		var found *ast.AssignStmt
		idx := -1
		for _, b := range append([]*ast.BlockStmt{fi.Decl.Body}, cl.bodies...) {
			ast.Inspect(b, func(n ast.Node) bool {
				as, ok := n.(*ast.AssignStmt)
				if !ok || as.Tok != token.DEFINE {
					return true
				}
				for i, l := range as.Lhs {
					if id, ok := l.(*ast.Ident); ok && info.ObjectOf(id) == obj {
						found, idx = as, i
					}
				}
				return true
			})
		}
		return found, idx
	}
	tableEntry := func(ix *ast.IndexExpr, depth int) (ast.Expr, *types.Info, bool, bool) {
		// (entry, its info, found, decided)
		tid, ok := ast.Unparen(ix.X).(*ast.Ident)
		if !ok {
			return nil, nil, false, false
		}
		tv, _ := info.ObjectOf(tid).(*types.Var)
		if tv == nil || tv.Pkg() == nil || tv.Parent() != tv.Pkg().Scope() {
			return nil, nil, false, false
		}
		key := modeConst(ix.Index, depth+1)
		if key == nil {
			return nil, nil, false, false
		}
		lit, linfo := (&strEval{p: h.p, info: info}).pkgVarInit(tv)
		if lit == nil {
			return nil, nil, false, false
		}
		for pos, el := range lit.Elts {
			var k constant.Value = constant.MakeInt64(int64(pos))
			val := el
			if kv, ok := el.(*ast.KeyValueExpr); ok {
				ktv, ok := linfo.Types[kv.Key]
				if !ok || ktv.Value == nil {
					return nil, nil, false, false
				}
				k, val = ktv.Value, kv.Value
			}
			if k.Kind() == key.Kind() && constant.Compare(k, token.EQL, key) {
				return val, linfo, true, true
			}
		}
		return nil, linfo, false, true
	}
	modeConst = func(e ast.Expr, depth int) constant.Value {
		if (mode == "" && len(preset) == 0) || depth > 4 {
			return nil
		}
		e = ast.Unparen(e)
		if tv, ok := info.Types[e]; ok && tv.Value != nil {
			return tv.Value
		}
		switch v := e.(type) {
		case *ast.Ident:
			obj := info.ObjectOf(v)
			if modeObjs[obj] {
				if mode == "" {
					return nil
				}
				return h.modes[mode]
			}
			if c, ok := constVals[obj]; ok {
				return c
			}
			// first, forced := m.atFirst(), m.forced(): a local defined once from a mode-dependent value
			if as, i := findDef(obj); as != nil && len(as.Rhs) == len(as.Lhs) && i < len(as.Rhs) {
				if _, isIx := ast.Unparen(as.Rhs[i]).(*ast.IndexExpr); !isIx {
					if c := modeConst(as.Rhs[i], depth+1); c != nil {
						return c
					}
				}
			}
			if as, i := findDef(obj); as != nil && len(as.Rhs) == 1 {
				if ix, ok := ast.Unparen(as.Rhs[0]).(*ast.IndexExpr); ok {
					entry, linfo, found, decided := tableEntry(ix, depth)
					if !decided {
						return nil
					}
					if len(as.Lhs) == 2 && i == 1 {
						return constant.MakeBool(found)
					}
					if i == 0 && found {
						if tv, ok := linfo.Types[entry]; ok && tv.Value != nil {
							return tv.Value
						}
					}
				}
			}
		case *ast.UnaryExpr:
			if v.Op == token.NOT {
				if c := modeConst(v.X, depth+1); c != nil && c.Kind() == constant.Bool {
					return constant.MakeBool(!constant.BoolVal(c))
				}
			}
		case *ast.CallExpr:
			// a predicate of the mode (func (m PUT_MODE) atFirst() bool { return m&1 == 1 }): its single
			// return expression with receiver and parameters at their constant values
			if tv, ok := info.Types[v.Fun]; ok && tv.IsType() && len(v.Args) == 1 {
				return modeConst(v.Args[0], depth+1)
			}
			var fid *ast.Ident
			var recvE ast.Expr
			switch f := ast.Unparen(v.Fun).(type) {
			case *ast.Ident:
				fid = f
			case *ast.SelectorExpr:
				fid, recvE = f.Sel, f.X
			}
			if fid == nil {
				return nil
			}
			fn, _ := info.Uses[fid].(*types.Func)
			if fn == nil {
				return nil
			}
			hf := h.p.FuncOf(fn)
			if hf == nil || hf.Decl.Body == nil || len(hf.Decl.Body.List) != 1 || hf.Pkg != fi.Pkg {
				return nil
			}
			rs, ok := hf.Decl.Body.List[0].(*ast.ReturnStmt)
			if !ok || len(rs.Results) != 1 {
				return nil
			}
			saved := map[types.Object]constant.Value{}
			var bound []types.Object
			bind := func(o types.Object, e ast.Expr) bool {
				c := modeConst(e, depth+1)
				if c == nil || o == nil {
					return false
				}
				if old, had := constVals[o]; had {
					saved[o] = old
				}
				constVals[o] = c
				bound = append(bound, o)
				return true
			}
			okAll := true
			if recvE != nil && hf.Decl.Recv != nil && len(hf.Decl.Recv.List) == 1 && len(hf.Decl.Recv.List[0].Names) == 1 {
				if _, isPkg := info.Uses[identOf(recvE)].(*types.PkgName); !isPkg {
					okAll = bind(info.Defs[hf.Decl.Recv.List[0].Names[0]], recvE)
				}
			}
			k := 0
			for _, f := range hf.Decl.Type.Params.List {
				for _, nm := range f.Names {
					if okAll && k < len(v.Args) {
						okAll = bind(info.Defs[nm], v.Args[k])
					}
					k++
				}
			}
			var res constant.Value
			if okAll {
				res = modeConst(rs.Results[0], depth+1)
			}
			for _, o := range bound {
				if old, had := saved[o]; had {
					constVals[o] = old
				} else {
					delete(constVals, o)
				}
			}
			return res
		case *ast.BinaryExpr:
			switch v.Op {
			case token.LAND, token.LOR:
				a, b := modeConst(v.X, depth+1), modeConst(v.Y, depth+1)
				if a != nil && a.Kind() == constant.Bool {
					if constant.BoolVal(a) == (v.Op == token.LOR) {
						return a
					}
					if b != nil && b.Kind() == constant.Bool {
						return b
					}
				}
				return nil
			case token.LSS, token.LEQ, token.GTR, token.GEQ:
				a, b := modeConst(v.X, depth+1), modeConst(v.Y, depth+1)
				if a != nil && b != nil && a.Kind() == constant.Int && b.Kind() == constant.Int {
					return constant.MakeBool(constant.Compare(a, v.Op, b))
				}
				return nil
			case token.AND, token.OR, token.XOR, token.ADD, token.SUB, token.MUL, token.REM, token.AND_NOT:
				a, b := modeConst(v.X, depth+1), modeConst(v.Y, depth+1)
				if a != nil && b != nil && a.Kind() == constant.Int && b.Kind() == constant.Int {
					if v.Op == token.REM && constant.Sign(b) == 0 {
						return nil
					}
					return constant.BinaryOp(a, v.Op, b)
				}
				return nil
			}
			if v.Op == token.EQL || v.Op == token.NEQ {
				a, b := modeConst(v.X, depth+1), modeConst(v.Y, depth+1)
				if a != nil && b != nil && a.Kind() == b.Kind() {
					var eq bool
					if a.Kind() == constant.Bool {
						eq = constant.BoolVal(a) == constant.BoolVal(b)
					} else {
						eq = constant.Compare(a, token.EQL, b)
					}
					return constant.MakeBool(eq == (v.Op == token.EQL))
				}
			}
		case *ast.SelectorExpr:
			// plan.front with plan := table[mode]
			id, ok := ast.Unparen(v.X).(*ast.Ident)
			if !ok {
				return nil
			}
			as, i := findDef(info.ObjectOf(id))
			if as == nil || i != 0 || len(as.Rhs) != 1 {
				return nil
			}
			ix, ok := ast.Unparen(as.Rhs[0]).(*ast.IndexExpr)
			if !ok {
				return nil
			}
			entry, linfo, found, decided := tableEntry(ix, depth)
			if !decided {
				return nil
			}
			st, _ := info.TypeOf(v.X).Underlying().(*types.Struct)
			if st == nil {
				return nil
			}
			if !found {
				// the zero record
				for k := 0; k < st.NumFields(); k++ {
					if st.Field(k).Name() == v.Sel.Name {
						if b, ok := st.Field(k).Type().Underlying().(*types.Basic); ok {
							switch {
							case b.Info()&types.IsBoolean != 0:
								return constant.MakeBool(false)
							case b.Info()&types.IsInteger != 0:
								return constant.MakeInt64(0)
							}
						}
					}
				}
				return nil
			}
			cl2, ok := ast.Unparen(entry).(*ast.CompositeLit)
			if !ok {
				return nil
			}
			for k, fe := range cl2.Elts {
				name, val := "", fe
				if kv, ok := fe.(*ast.KeyValueExpr); ok {
					if kid, ok := kv.Key.(*ast.Ident); ok {
						name, val = kid.Name, kv.Value
					}
				} else if k < st.NumFields() {
					name = st.Field(k).Name()
				}
				if name == v.Sel.Name {
					if tv, ok := linfo.Types[val]; ok && tv.Value != nil {
						return tv.Value
					}
				}
			}
			// field not mentioned in the literal: zero
			for k := 0; k < st.NumFields(); k++ {
				if st.Field(k).Name() == v.Sel.Name {
					if b, ok := st.Field(k).Type().Underlying().(*types.Basic); ok && b.Info()&types.IsBoolean != 0 {
						return constant.MakeBool(false)
					}
				}
			}
		}
		return nil
	}
	cl.resolveCall = func(call *ast.CallExpr) ast.Expr {
		if mode == "" && len(preset) == 0 {
			return nil
		}
		sel, ok := call.Fun.(*ast.SelectorExpr)
		if !ok {
			return nil
		}
		if id, ok := ast.Unparen(sel.X).(*ast.Ident); !ok || id.Name != cl.recv {
			return nil
		}
		fn, _ := info.Uses[sel.Sel].(*types.Func)
		if fn == nil || fn.Exported() {
			return nil
		}
		cfi := h.p.FuncOf(fn)
		if cfi == nil || cfi.Decl.Body == nil || cfi.Pkg != fi.Pkg || recvName(cfi) != cl.recv {
			return nil
		}
		saved := map[types.Object]constant.Value{}
		i := 0
		for _, f := range cfi.Decl.Type.Params.List {
			for _, n := range f.Names {
				obj := info.Defs[n]
				if old, ok := constVals[obj]; ok {
					saved[obj] = old
				}
				if i < len(call.Args) {
					if c := modeConst(call.Args[i], 0); c != nil {
						constVals[obj] = c
					} else {
						delete(constVals, obj)
					}
				}
				i++
			}
		}
		defer func() {
			i := 0
			for _, f := range cfi.Decl.Type.Params.List {
				for _, n := range f.Names {
					obj := info.Defs[n]
					if old, ok := saved[obj]; ok {
						constVals[obj] = old
					} else {
						delete(constVals, obj)
					}
					i++
				}
			}
		}()
		var walk func(list []ast.Stmt) (ast.Expr, bool)
		walk = func(list []ast.Stmt) (ast.Expr, bool) {
			for _, st := range list {
				switch v := st.(type) {
				case *ast.ReturnStmt:
					if len(v.Results) == 1 {
						return v.Results[0], true
					}
					return nil, true
				case *ast.IfStmt:
					c := modeConst(v.Cond, 0)
					if c == nil || c.Kind() != constant.Bool || v.Init != nil {
						return nil, true
					}
					if constant.BoolVal(c) {
						if r, done := walk(v.Body.List); done {
							return r, true
						}
					} else if v.Else != nil {
						var body []ast.Stmt
						switch el := v.Else.(type) {
						case *ast.BlockStmt:
							body = el.List
						default:
							body = []ast.Stmt{el}
						}
						if r, done := walk(body); done {
							return r, true
						}
					}
				default:
					return nil, true
				}
			}
			return nil, false
		}
		r, _ := walk(cfi.Decl.Body.List)
		return r
	}
	inlineBody0 := inlineBody
	inlineBody = func(call *ast.CallExpr) *ast.BlockStmt {
		body := inlineBody0(call)
		if body == nil || (mode == "" && len(preset) == 0) {
			return body
		}
		if sel, ok := call.Fun.(*ast.SelectorExpr); ok {
			if fn, _ := info.Uses[sel.Sel].(*types.Func); fn != nil {
				if cfi := h.p.FuncOf(fn); cfi != nil {
					i := 0
					for _, f := range cfi.Decl.Type.Params.List {
						for _, n := range f.Names {
							if i < len(call.Args) && !isMode(call.Args[i]) {
								if c := modeConst(call.Args[i], 0); c != nil {
									constVals[info.Defs[n]] = c
								} else {
									delete(constVals, info.Defs[n])
								}
							}
							i++
						}
					}
				}
			}
		}
		return body
	}
	cfg := paths.Config{
		Info:      info,
		Inline:    func(call *ast.CallExpr) *ast.BlockStmt { return inlineBody(call) },
		Expand:    exp.Expand,
		MaxInline: 3,
		Classify:  cl.classify,
		Cond:      cl.condEvent,
		Invariant: func(cj ast.Expr, loop *ast.ForStmt) bool { return h.fieldsInvariant(fi, cj, loop) },
		Fold: func(c ast.Expr) (bool, bool) {
			if mode != "" || len(preset) > 0 {
				if cv := modeConst(c, 0); cv != nil && cv.Kind() == constant.Bool {
					return true, constant.BoolVal(cv)
				}
			}
			be, ok := ast.Unparen(c).(*ast.BinaryExpr)
			if !ok || mode == "" || (be.Op != token.EQL && be.Op != token.NEQ) {
				return false, false
			}
			var other ast.Expr
			if isMode(be.X) {
				other = be.Y
			} else if isMode(be.Y) {
				other = be.X
			} else {
				return false, false
			}
			tv, ok := info.Types[other]
			if !ok || tv.Value == nil {
				return false, false
			}
			eq := constant.Compare(tv.Value, token.EQL, h.modes[mode])
			if be.Op == token.NEQ {
				eq = !eq
			}
			return true, eq
		},
		SwitchCase: func(sw *ast.SwitchStmt) int {
			if sw.Tag == nil || !isMode(sw.Tag) || mode == "" {
				return -2
			}
			for i, c := range sw.Body.List {
				for _, e := range c.(*ast.CaseClause).List {
					if tv, ok := info.Types[e]; ok && tv.Value != nil && constant.Compare(tv.Value, token.EQL, h.modes[mode]) {
						return i
					}
				}
			}
			return -1
		},
	}
	all, over := paths.Enumerate(fi.Decl.Body, cfg)
	var out []paths.Path
	for _, pa := range all {
		if pa.FlagConsistent() && searchLoopFeasible(pa) {
			out = append(out, pa)
		}
	}
	return out, over
}

func modeEnd(mode string) string {
	if strings.HasSuffix(mode, "FIRST") {
		return "first"
	}
	return "last"
}

func opposite(end string) string {
	if end == "first" {
		return "last"
	}
	return "first"
}

func isFound(pa paths.Path) bool { return pa.HasArg("COND", "found=true") }

// checkInsertHelpers: rules insert / update / bound / growth / stale-head for every insertion helper.
func (h *hmapType) checkInsertHelpers() {
	for _, fi := range h.p.MethodsOf(h.t) {
		if fi.Decl.Body == nil {
			continue
		}
		cl := newHmapClassifier(fi)
		// an insertion helper contains a bucket store of a fresh entry
		has := false
		ast.Inspect(fi.Decl.Body, func(n ast.Node) bool {
			if as, ok := n.(*ast.AssignStmt); ok {
				for _, e := range cl.classify(as) {
					if e.Kind == "BUCKET_INSERT" {
						has = true
					}
				}
			}
			return true
		})
		if !has || fi.Obj.Name() == "rehash" {
			continue
		}
		h.r.Stats["insertion_helpers"]++
		mp := modeParam(fi)
		modes := []string{""}
		if mp != nil {
			modes = []string{"PUT_FORCE_FIRST", "PUT_FIRST", "PUT_FORCE_LAST", "PUT_LAST"}
		}
		noOver := strings.Contains(strings.ToLower(fi.Obj.Name()), "noover")
		for _, mode := range modes {
			ps, over := h.enumerate(fi, cl, mode)
			c := h.name + "." + fi.Obj.Name()
			if mode != "" {
				c += "[" + mode + "]"
			}
			pos := h.p.Pos(fi.Decl.Pos())
			if over {
				h.r.Undec(h.pre+".insert", c, pos, "too many paths")
				continue
			}
			h.r.Stats["paths"] += len(ps)
			var ins, upd, bnd, grow []string
			nNew, nUpd := 0, 0
			for _, pa := range ps {
				if pa.Has("PANIC") {
					continue
				}
				if isFound(pa) {
					nUpd++
					if pa.Has("INC") || pa.Has("BUCKET_INSERT") || pa.Has("EVICT") || pa.Has("REHASH") {
						upd = append(upd, "an update of an existing key changes size/buckets or evicts: "+pa.String())
					}
					// a map's update stores the new value: directly, or through an entry method that does so
					// unconditionally (one that can refuse — panic/recover inside — leaves the old value)
					// an add-operation accumulates into the stored value, a put-operation replaces it
					// (siblings: eleven add helpers use `+=`); the helper's name says which it is
					lname := strings.ToLower(strings.TrimLeft(fi.Obj.Name(), "_"))
					if strings.HasPrefix(lname, "add") && pa.HasArg("SETVAL", "=") && !pa.HasArg("SETVAL", "+=") {
						upd = append(upd, "an add on an existing key overwrites the stored value instead of adding to it (`=` where the sibling maps have `+=`): Add(k, 1); Add(k, 2) leaves 2")
					}
					if strings.HasPrefix(lname, "put") && pa.HasArg("SETVAL", "+=") {
						upd = append(upd, "a put on an existing key adds to the stored value instead of replacing it")
					}
					if pa.HasArg("SETVAL", "guarded") && !pa.HasArg("SETVAL", "=") && !pa.HasArg("SETVAL", "+=") {
						upd = append(upd, "the update of an existing key goes through an entry method that can refuse the value (it panics and recovers inside): the old value stays and the caller is told otherwise")
					}
					if h.linked && mp != nil {
						wantMove := strings.Contains(mode, "FORCE")
						end := modeEnd(mode)
						guardL := "header.link_next"
						if end == "last" {
							guardL = "header.link_prev"
						}
						moved := pa.Has("UNLINK") && pa.HasArg("LINK", end)
						already := guardOutcome(pa, guardL, false)
						switch {
						case !wantMove && (pa.Has("UNLINK") || pa.Has("LINK")):
							upd = append(upd, "a plain put/add moves an existing entry in the order list")
						case wantMove && !moved && !already:
							upd = append(upd, "put-"+end+" does not move an existing entry to the "+end+" end: "+pa.String())
						case wantMove && moved && !guardOutcome(pa, guardL, true):
							upd = append(upd, "the move is not guarded by 'not already at that end'")
						case wantMove && pa.HasArg("LINK", opposite(end)):
							upd = append(upd, "existing entry moved to the wrong end")
						}
					}
					continue
				}
				// new-key path (or early exit of a no-over / empty-key helper)
				if !pa.Has("BUCKET_INSERT") {
					if noOver && pa.HasArg("COND", "count>=max=true") {
						continue
					}
					if pa.Count("COND") <= 2 && !pa.Has("LOOP") {
						continue // argument guard (empty key) before the table is touched
					}
					ins = append(ins, "a new-key path returns without inserting: "+pa.String())
					continue
				}
				nNew++
				if pa.Count("BUCKET_INSERT") != 1 || pa.Count("INC") != 1 {
					ins = append(ins, fmt.Sprintf("new key: %d bucket insertions and %d size increments on one path (want 1/1): %s", pa.Count("BUCKET_INSERT"), pa.Count("INC"), pa.String()))
				}
				bi := pa.Index("BUCKET_INSERT")
				if h.linked {
					end := "last"
					if mp != nil {
						end = modeEnd(mode)
					}
					if pa.Count("LINK") != 1 || !pa.HasArg("LINK", end) {
						ins = append(ins, "new entry is not linked exactly once at the "+end+" end of the order list: "+pa.String())
					}
				} else if pa.Has("LINK") {
					ins = append(ins, "plain map links entries")
				}
				// stale bucket head
				switch arg := pa[bi].Arg; {
				case arg == "next=bucket":
				case strings.HasPrefix(arg, "next=var:"):
					var dp token.Pos
					fmt.Sscanf(strings.TrimPrefix(arg, "next=var:"), "%d", &dp)
					for _, e := range pa[:bi] {
						if (e.Kind == "EVICT" || e.Kind == "REHASH") && e.Pos > dp {
							ins = append(ins, "the new entry's chain link is a bucket head read before an eviction/rehash on this path (stale): an evicted entry can stay reachable")
						}
					}
				default:
					ins = append(ins, "the new entry is not chained in front of the current bucket head ("+arg+")")
				}
				// bound
				if h.hasMax {
					if !pa.HasArg("COND", "max>0=true") && !pa.HasArg("COND", "max>0=false") {
						bnd = append(bnd, "insertion does not consult max")
					}
					for i, e := range pa {
						if e.Kind != "EVICT" {
							continue
						}
						if i > bi {
							bnd = append(bnd, "eviction after insertion")
						}
						g := false
						for j := i - 1; j >= 0; j-- {
							if pa[j].Kind == "COND" && pa[j].Arg == "count>=max=true" {
								g = true
								break
							}
						}
						if !g || !pa.HasArg("COND", "max>0=true") {
							bnd = append(bnd, "an entry is evicted although the structure is not at its maximum (guard is not max>0 && count>=max)")
						}
						if mp != nil && e.Arg != opposite(modeEnd(mode)) {
							bnd = append(bnd, "evicts from the "+e.Arg+" end while inserting at the "+modeEnd(mode)+" end")
						}
						if mp == nil && e.Arg != "first" {
							bnd = append(bnd, "evicts from the "+e.Arg+" end while inserting at the last end")
						}
					}
					if pa.HasArg("COND", "max>0=true") && !noOver {
						// the loop must be present: its condition evaluated at least once
						if !pa.HasArg("COND", "count>=max=true") && !pa.HasArg("COND", "count>=max=false") {
							bnd = append(bnd, "with a maximum set, the insertion is not preceded by the `count >= max` eviction loop: "+pa.String())
						}
						if pa.HasArg("COND", "count>=max=true") && !pa.Has("EVICT") {
							bnd = append(bnd, "structure is full but nothing is evicted before inserting")
						}
						// eviction goes on until there is room: the last thing the path learnt about
						// `count >= max` before it inserts is that it no longer holds (one removal is not
						// enough once the maximum was lowered on a fuller structure)
						last := ""
						for j := 0; j < len(pa) && (bi < 0 || j < bi); j++ {
							if pa[j].Kind == "COND" && strings.HasPrefix(pa[j].Arg, "count>=max=") {
								last = pa[j].Arg
							}
						}
						if last == "count>=max=true" && pa.Has("EVICT") && bi >= 0 {
							bnd = append(bnd, "after evicting, the insertion goes ahead without `count >= max` having been found false: a single removal does not bring an over-full structure back under its maximum")
						}
					}
				}
				// growth
				gi := pa.IndexArg("COND", "count>=threshold=true")
				gf := pa.IndexArg("COND", "count>=threshold=false")
				if gi < 0 && gf < 0 {
					grow = append(grow, "no `count >= threshold` test before inserting: the table never grows on this path")
				}
				if gi >= 0 {
					ri := pa.Index("REHASH")
					if ri < 0 || ri > bi {
						grow = append(grow, "threshold reached but no rehash before the insertion")
					} else {
						rl, rx := -1, -1
						for j := ri; j < bi; j++ {
							if pa[j].Kind == "RELOAD" {
								rl = j
							}
							if pa[j].Kind == "REINDEX" {
								rx = j
							}
						}
						if rl < 0 || rx < 0 {
							grow = append(grow, "after rehash() the local table/index are not recomputed before use (insert into the old table or wrong bucket)")
						}
					}
				}
				if gf >= 0 && pa.Has("REHASH") {
					grow = append(grow, "rehash without the threshold being reached")
				}
				for i, e := range pa {
					if e.Kind == "EVICT" && (gi >= 0 && i > gi || gf >= 0 && i > gf) {
						bnd = append(bnd, "eviction after the growth check")
					}
				}
			}
			file := func(rule string, probs []string, okmsg string) {
				if len(probs) > 0 {
					h.r.Viol(rule, c, pos, strings.Join(uniq(probs), "; "))
				} else {
					h.r.OK(rule, c, pos, okmsg)
				}
			}
			if nNew == 0 {
				h.r.Undec(h.pre+".insert", c, pos, "no new-key path found")
				continue
			}
			file(h.pre+".insert", ins, fmt.Sprintf("%d new-key paths: one bucket insertion, one link at the mode's end, one size increment", nNew))
			file(h.pre+".update", upd, fmt.Sprintf("%d existing-key paths: no size change, no eviction; move iff forced mode and not already there", nUpd))
			if h.hasMax {
				file(h.pre+".bound", bnd, "evicts from the opposite end while count>=max (max>0) before inserting")
			}
			file(h.pre+".growth", grow, "rehash iff count>=threshold, table and index recomputed before insertion")
		}
	}
}

// checkRemove: found path = one bucket unlink + one DEC (+ one unchain for linked types); else none.
func (h *hmapType) checkRemove() {
	for _, fi := range h.p.MethodsOf(h.t) {
		if fi.Decl.Body == nil || (fi.Obj.Name() != "remove" && !(fi.Obj.Name() == "Remove" && h.p.Method(core.RelPkg(h.t.Obj().Pkg().Path()), h.t.Obj().Name(), "remove") == nil)) {
			continue
		}
		cl := newHmapClassifier(fi)
		ps, over := h.enumerate(fi, cl, "")
		c := h.name + "." + fi.Obj.Name()
		pos := h.p.Pos(fi.Decl.Pos())
		if over {
			h.r.Undec(h.pre+".remove", c, pos, "too many paths")
			continue
		}
		var probs []string
		nf := 0
		// the predecessor variable P and the walked variable E of the bucket-chain walk (P.next = E.next)
		predP, predE := "prev", ""
		for _, pa := range ps {
			for _, e := range pa {
				if e.Kind == "PREDVAR" {
					if i := strings.Index(e.Arg, "="); i > 0 {
						predP, predE = e.Arg[:i], e.Arg[i+1:]
					}
				}
			}
		}
		for _, pa := range ps {
			// walk discipline: whenever E advances to E.next, P must have been set to E first (in that
			// iteration); otherwise P is not the predecessor and unlinking a non-head entry cuts the
			// chain in the wrong place
			if predE != "" {
				set := false
				for _, e := range pa {
					switch {
					case e.Kind == "PREVSET" && e.Arg == predP+"="+predE:
						set = true
					case e.Kind == "ADVANCE" && e.Arg == predE:
						if !set {
							probs = append(probs, "the chain walk advances "+predE+" without first recording it as the predecessor "+predP+": removing an entry that is not first in its bucket unlinks the wrong part of the chain")
						}
						set = false
					}
				}
			}
			if os.Getenv("HMAP_DEBUG") != "" && strings.Contains(c, os.Getenv("HMAP_DEBUG")) {
				fmt.Fprintln(os.Stderr, "HMAP_DEBUG", c, pa.String())
			}
			if isFound(pa) {
				nf++
				if pa.HasArg("BUCKET_UNLINK", "slot?") {
					probs = append(probs, "an entry is unlinked through a slot pointer that is not known to point at it")
				}
				if pa.Count("BUCKET_UNLINK") != 1 || pa.Count("DEC") != 1 {
					probs = append(probs, fmt.Sprintf("found path has %d bucket unlinks and %d size decrements (want 1/1): %s", pa.Count("BUCKET_UNLINK"), pa.Count("DEC"), pa.String()))
				}
				if h.linked && pa.Count("UNLINK") != 1 {
					probs = append(probs, "found entry is not removed from the order list exactly once")
				}
				// between the two halves of a removal (out of its bucket, still in the order list — or the
				// other way round) the table and the list disagree about the entry: no helper that walks a
				// chain runs in that window (a rebuild from the list would put the entry back)
				if h.linked {
					bu, ul := pa.Index("BUCKET_UNLINK"), pa.Index("UNLINK")
					if bu >= 0 && ul >= 0 {
						lo, hi := bu, ul
						if lo > hi {
							lo, hi = hi, lo
						}
						depth := 0
						for k := lo + 1; k < hi; k++ {
							switch pa[k].Kind {
							case "ENTER":
								depth++
							case "LEAVE":
								depth--
							case "LOOP":
								if depth > 0 {
									probs = append(probs, "a helper that walks a chain runs between the bucket unlink and the order-list unlink of the removed entry: while it runs the entry is in one structure and not in the other (a table rebuilt from the list gets the removed entry back)")
								}
							}
						}
					}
				}
				// head unlink iff no predecessor
				if pa.HasArg("COND", cc(predP, "!=", "nil", true)) && !pa.HasArg("BUCKET_UNLINK", "mid") && !pa.HasArg("BUCKET_UNLINK", "slot") {
					probs = append(probs, "entry with a predecessor is not unlinked through prev.next")
				}
				if pa.HasArg("COND", cc(predP, "!=", "nil", false)) && !pa.HasArg("BUCKET_UNLINK", "head") && !pa.HasArg("BUCKET_UNLINK", "slot") {
					probs = append(probs, "first entry of a bucket is not unlinked through the table slot")
				}
			} else if pa.Has("DEC") || pa.Has("BUCKET_UNLINK") || pa.Has("UNLINK") {
				probs = append(probs, "a not-found path changes the structure: "+pa.String())
			}
		}
		if nf == 0 {
			h.r.Undec(h.pre+".remove", c, pos, "no found path")
		} else if len(probs) > 0 {
			h.r.Viol(h.pre+".remove", c, pos, strings.Join(uniq(probs), "; "))
		} else {
			h.r.OK(h.pre+".remove", c, pos, fmt.Sprintf("%d found paths: bucket unlink, size-1, order unlink; not-found changes nothing", nf))
		}
	}
}

// hashExprKind classifies the left operand of a bucket index computation.
func hashExprKind(c *hmapClassifier, e ast.Expr) string {
	e = ast.Unparen(e)
	convs := ""
	for {
		call, ok := e.(*ast.CallExpr)
		if !ok {
			break
		}
		if tv, ok := c.info.Types[call.Fun]; ok && tv.IsType() && len(call.Args) == 1 {
			convs += types.ExprString(call.Fun) + "."
			e = ast.Unparen(call.Args[0])
			continue
		}
		if sel, ok := call.Fun.(*ast.SelectorExpr); ok {
			if id, ok := ast.Unparen(sel.X).(*ast.Ident); ok && id.Name == c.recv && sel.Sel.Name == "hash" {
				// the type's own hash(key) helper: what matters is what it computes, so that inlining the
				// helper at its call sites (or keeping it in some and not in others) reads the same
				if k := c.hashHelperKind(sel.Sel); k != "" {
					return k
				}
				return "hash()"
			}
		}
		// a hash function applied to the key
		if len(call.Args) == 1 {
			a := ast.Unparen(call.Args[0])
			isKey := c.isParam(a)
			if s, ok := a.(*ast.SelectorExpr); ok && strings.ToLower(s.Sel.Name) == "key" {
				isKey = true
			}
			if isKey {
				// a function of the module that is one expression of its parameter (intKeyHash(key)
				// returning uint(key & MaxInt32)) reads as that expression, so that sites which call it
				// and sites that write it out agree
				var fid *ast.Ident
				switch f := ast.Unparen(call.Fun).(type) {
				case *ast.Ident:
					fid = f
				case *ast.SelectorExpr:
					fid = f.Sel
				}
				if fid != nil {
					if k := c.hashHelperKind(fid); k != "" {
						return k
					}
					if fn, _ := c.info.Uses[fid].(*types.Func); fn != nil && c.p != nil {
						if hfi := c.p.FuncOf(fn); hfi != nil && hfi.Decl.Body != nil && len(hfi.Decl.Body.List) == 1 {
							if rs, ok := hfi.Decl.Body.List[0].(*ast.ReturnStmt); ok && len(rs.Results) == 1 {
								hc := newHmapClassifier(hfi)
								hc.p = c.p
								if k := hashExprKind(hc, rs.Results[0]); strings.HasPrefix(k, "fn:") || strings.HasPrefix(k, "inline:") {
									return k
								}
								return "hash()" // the collection's hash helper, written as a package function
							}
						}
					}
				}
				return "fn:" + c.norm(call.Fun)
			}
		}
		return "call:" + c.norm(call.Fun)
	}
	if sel, ok := e.(*ast.SelectorExpr); ok {
		n := strings.ToLower(sel.Sel.Name)
		if n == "keyhash" || n == "hash" {
			return "cached"
		}
		if n == "key" && convs != "" {
			return "inline:" + convs + "key"
		}
	}
	if c.isParam(e) && convs != "" {
		return "inline:" + convs + "key"
	}
	if id, ok := e.(*ast.Ident); ok {
		// local: follow its definition
		obj := c.info.ObjectOf(id)
		var def ast.Expr
		ast.Inspect(c.fi.Decl.Body, func(m ast.Node) bool {
			if as, ok := m.(*ast.AssignStmt); ok && len(as.Lhs) == 1 && len(as.Rhs) == 1 && as.Tok == token.DEFINE {
				if lid, ok := as.Lhs[0].(*ast.Ident); ok && c.info.ObjectOf(lid) == obj {
					def = as.Rhs[0]
				}
			}
			return true
		})
		if def != nil {
			return hashExprKind(c, def)
		}
		// a parameter of an unexported helper (locate(key, keyHash)): what its callers pass
		if pi := paramIndex(c.fi, obj); pi >= 0 && !c.fi.Obj.Exported() && hmapProg != nil && c.depth < 2 {
			kinds := map[string]bool{}
			for _, cfi := range hmapProg.Funcs {
				if cfi.Pkg != c.fi.Pkg || cfi.Decl.Body == nil || cfi == c.fi {
					continue
				}
				ast.Inspect(cfi.Decl.Body, func(m ast.Node) bool {
					call, ok := m.(*ast.CallExpr)
					if !ok || pi >= len(call.Args) {
						return true
					}
					if fn := calleeFunc(cfi.Pkg.TypesInfo, call); fn == c.fi.Obj {
						cc2 := newHmapClassifier(cfi)
						cc2.depth = c.depth + 1
						kinds[hashExprKind(cc2, call.Args[pi])] = true
					}
					return true
				})
			}
			if len(kinds) == 1 {
				for k := range kinds {
					return k
				}
			}
		}
	}
	return "other:" + c.norm(e)
}

func paramIndex(fi *core.FuncInfo, obj types.Object) int {
	if fi.Decl.Type.Params == nil || obj == nil {
		return -1
	}
	i := 0
	for _, f := range fi.Decl.Type.Params.List {
		for _, n := range f.Names {
			if fi.Pkg.TypesInfo.Defs[n] == obj {
				return i
			}
			i++
		}
	}
	return -1
}

// linkKind classifies a callee by what it does to the order list, whatever it is called and whether it
// is a method or a package function: "chain" (three entry pointers; the last one's link_prev/link_next
// are set from the first two) or "unchain" (one entry pointer; its neighbours are joined).
func (c *hmapClassifier) linkKind(id *ast.Ident) string {
	fn, _ := c.info.Uses[id].(*types.Func)
	if fn == nil || c.p == nil {
		return ""
	}
	lfi := c.p.FuncOf(fn)
	if lfi == nil || lfi.Decl.Body == nil || lfi.Pkg != c.fi.Pkg {
		return ""
	}
	var params []string
	for _, f := range lfi.Decl.Type.Params.List {
		for _, nm := range f.Names {
			if _, isPtr := lfi.Pkg.TypesInfo.TypeOf(f.Type).(*types.Pointer); isPtr {
				params = append(params, nm.Name)
			}
		}
	}
	setsOwn, joins := 0, 0
	ast.Inspect(lfi.Decl.Body, func(n ast.Node) bool {
		as, ok := n.(*ast.AssignStmt)
		if !ok || len(as.Lhs) != 1 || len(as.Rhs) != 1 {
			return true
		}
		l := stripSpaces(types.ExprString(as.Lhs[0]))
		rr := stripSpaces(types.ExprString(as.Rhs[0]))
		if len(params) == 3 {
			e := params[2]
			if (l == e+".link_prev" && rr == params[0]) || (l == e+".link_next" && rr == params[1]) {
				setsOwn++
			}
		}
		if len(params) == 1 {
			e := params[0]
			if (l == e+".link_prev.link_next" && rr == e+".link_next") || (l == e+".link_next.link_prev" && rr == e+".link_prev") {
				joins++
			}
		}
		return true
	})
	switch {
	case len(params) == 3 && setsOwn == 2:
		return "chain"
	case len(params) == 1 && joins == 2:
		return "unchain"
	}
	return ""
}

// linkRoles is linkKind for callees in which the entry being linked may be the receiver
// (func (e *Entry) linkBetween(prev, next *Entry), func (e *Entry) unlink()): it says which operand
// — -1 the receiver, i the i-th argument — is the predecessor and which the successor.
type linkRole struct {
	kind       string
	prev, next int
}

func (c *hmapClassifier) linkRoles(id *ast.Ident) *linkRole {
	fn, _ := c.info.Uses[id].(*types.Func)
	if fn == nil || c.p == nil {
		return nil
	}
	lfi := c.p.FuncOf(fn)
	if lfi == nil || lfi.Decl.Body == nil || lfi.Pkg != c.fi.Pkg {
		return nil
	}
	names := map[string]int{}
	if lfi.Decl.Recv != nil && len(lfi.Decl.Recv.List) == 1 && len(lfi.Decl.Recv.List[0].Names) == 1 {
		if _, isPtr := lfi.Pkg.TypesInfo.TypeOf(lfi.Decl.Recv.List[0].Type).(*types.Pointer); isPtr {
			names[lfi.Decl.Recv.List[0].Names[0].Name] = -1
		}
	}
	i := 0
	for _, f := range lfi.Decl.Type.Params.List {
		for _, nm := range f.Names {
			if _, isPtr := lfi.Pkg.TypesInfo.TypeOf(f.Type).(*types.Pointer); isPtr {
				names[nm.Name] = i
			}
			i++
		}
	}
	type own struct{ prev, next string }
	owns := map[string]*own{}
	joins := map[string]int{}
	ast.Inspect(lfi.Decl.Body, func(n ast.Node) bool {
		as, ok := n.(*ast.AssignStmt)
		if !ok || len(as.Lhs) != 1 || len(as.Rhs) != 1 {
			return true
		}
		l := stripSpaces(types.ExprString(as.Lhs[0]))
		rr := stripSpaces(types.ExprString(as.Rhs[0]))
		for e := range names {
			if owns[e] == nil {
				owns[e] = &own{}
			}
			if _, isRole := names[rr]; isRole && rr != e {
				if l == e+".link_prev" {
					owns[e].prev = rr
				}
				if l == e+".link_next" {
					owns[e].next = rr
				}
			}
			if (l == e+".link_prev.link_next" && rr == e+".link_next") || (l == e+".link_next.link_prev" && rr == e+".link_prev") {
				joins[e]++
			}
		}
		return true
	})
	for e, o := range owns {
		if o.prev != "" && o.next != "" && names[e] == -1 {
			return &linkRole{"chain", names[o.prev], names[o.next]}
		}
	}
	for e, k := range joins {
		if k == 2 && names[e] == -1 {
			return &linkRole{kind: "unchain"}
		}
	}
	return nil
}

// hashHelperKind: the kind of the expression returned by the type's hash(key) method.
func (c *hmapClassifier) hashHelperKind(sel *ast.Ident) string {
	fn, _ := c.info.Uses[sel].(*types.Func)
	if fn == nil || c.p == nil {
		return ""
	}
	hfi := c.p.FuncOf(fn)
	if hfi == nil || hfi.Decl.Body == nil || len(hfi.Decl.Body.List) != 1 {
		return ""
	}
	rs, ok := hfi.Decl.Body.List[0].(*ast.ReturnStmt)
	if !ok || len(rs.Results) != 1 {
		return ""
	}
	hc := newHmapClassifier(hfi)
	hc.p = c.p
	k := hashExprKind(hc, rs.Results[0])
	if strings.HasPrefix(k, "fn:") || strings.HasPrefix(k, "inline:") {
		return k
	}
	return ""
}

// checkMoves: wherever an entry is taken out of the order list and linked in again at an end (the
// forced puts, but also read-with-refresh methods like GetLRU), the move is guarded by "not already at
// that end" — testing the other end moves an entry that is already in place and, worse, skips the one
// that needs moving.
func (h *hmapType) checkMoves() {
	if !h.linked {
		return
	}
	for _, fi := range h.p.MethodsOf(h.t) {
		if fi.Decl.Body == nil {
			continue
		}
		switch fi.Obj.Name() {
		case "put", "add", "_add", "addNoOver", "Sort", "remove", "clear", "rehash":
			continue // insertion helpers are judged per mode by the update rule
		}
		cl := newHmapClassifier(fi)
		// boolean flags of an unexported helper (moveToEnd(e, front)) are fixed to each of their values
		var flags []types.Object
		if !fi.Obj.Exported() && fi.Decl.Type.Params != nil {
			for _, f := range fi.Decl.Type.Params.List {
				for _, n := range f.Names {
					if o := fi.Pkg.TypesInfo.Defs[n]; o != nil && isBoolType(o.Type()) {
						flags = append(flags, o)
					}
				}
			}
		}
		var ps []paths.Path
		over := false
		if len(flags) > 0 && len(flags) <= 2 {
			for mask := 0; mask < 1<<len(flags); mask++ {
				preset := map[types.Object]constant.Value{}
				for i, o := range flags {
					preset[o] = constant.MakeBool(mask&(1<<i) != 0)
				}
				p1, o1 := h.enumerateWith(fi, newHmapClassifier(fi), "", preset)
				ps = append(ps, p1...)
				over = over || o1
			}
		} else if modeParam(fi) != nil {
			// a helper that takes the put mode (reposition(e, m)) is judged once per mode
			for _, mode := range []string{"PUT_FORCE_FIRST", "PUT_FIRST", "PUT_FORCE_LAST", "PUT_LAST"} {
				p1, o1 := h.enumerate(fi, newHmapClassifier(fi), mode)
				ps = append(ps, p1...)
				over = over || o1
			}
		} else {
			ps, over = h.enumerate(fi, cl, "")
		}
		if over {
			continue
		}
		var probs []string
		moves := 0
		for _, pa := range ps {
			ui := pa.Index("UNLINK")
			if ui < 0 {
				continue
			}
			for _, e := range pa[ui:] {
				if e.Kind != "LINK" {
					continue
				}
				moves++
				guardL := "header.link_next"
				if e.Arg == "last" {
					guardL = "header.link_prev"
				}
				if e.Arg != "first" && e.Arg != "last" {
					probs = append(probs, "an entry is re-linked at an unrecognised position")
				} else if !guardOutcome(pa, guardL, true) {
					probs = append(probs, "an entry is moved to the "+e.Arg+" end without first testing that it is not already there (the guard tests the other end or is missing): the entry that is already in place is moved, the one that is not stays")
				}
			}
		}
		if moves == 0 {
			continue
		}
		c := h.name + "." + fi.Obj.Name() + " move"
		if len(probs) > 0 {
			h.r.Viol(h.pre+".update", c, h.p.Pos(fi.Decl.Pos()), strings.Join(uniq(probs), "; "))
		} else {
			h.r.OK(h.pre+".update", c, h.p.Pos(fi.Decl.Pos()), "moves guarded by not-already-at-that-end")
		}
	}
}

// checkRehash: structure of rehash() and agreement of the hash used for re-bucketing with lookups.
func (h *hmapType) checkRehash() {
	rel := core.RelPkg(h.t.Obj().Pkg().Path())
	fi := h.p.Method(rel, h.t.Obj().Name(), "rehash")
	c := h.name + ".rehash"
	if fi == nil || fi.Decl.Body == nil {
		h.r.Undec(h.pre+".rehash", c, "-", "no rehash method")
		return
	}
	cl := newHmapClassifier(fi)
	pos := h.p.Pos(fi.Decl.Pos())
	var probs []string
	var idxKinds []string
	modOK := true
	info := fi.Pkg.TypesInfo
	// the rehash body and the bodies of the unexported helpers it is split into (parameters replaced by
	// the arguments), so that grown(this.table) reads like code written in place
	in := newInliner(h.p, fi, nil)
	bodies := []*ast.BlockStmt{fi.Decl.Body}
	for k := 0; k < len(bodies) && k < 6; k++ {
		ast.Inspect(bodies[k], func(n ast.Node) bool {
			if call, ok := n.(*ast.CallExpr); ok {
				if b := in.Body(call); b != nil {
					dup := false
					for _, x := range bodies {
						if x == b {
							dup = true
						}
					}
					if !dup {
						bodies = append(bodies, b)
					}
				}
			}
			return true
		})
	}
	// n = the current number of buckets: len(table), also through a local holding the table
	var bodyOf func(n ast.Node) *ast.BlockStmt
	bodyOf = func(n ast.Node) *ast.BlockStmt {
		for _, b := range bodies {
			if b.Pos() <= n.Pos() && n.End() <= b.End() {
				return b
			}
		}
		return fi.Decl.Body
	}
	isTable := func(e ast.Expr, b *ast.BlockStmt) bool {
		for d := 0; d < 3; d++ {
			e = ast.Unparen(e)
			if cl.norm(e) == "table" {
				return true
			}
			id, ok := e.(*ast.Ident)
			if !ok {
				return false
			}
			def := localDefIn(info, b, id)
			if def == nil {
				return false
			}
			e = def
		}
		return false
	}
	newCapOf := func(e ast.Expr) bool {
		b := bodyOf(e)
		f, ok := linearize(info, b, e, func(x ast.Expr) (string, bool) {
			if call, ok := ast.Unparen(x).(*ast.CallExpr); ok && len(call.Args) == 1 {
				if id, ok := call.Fun.(*ast.Ident); ok && id.Name == "len" && isTable(call.Args[0], b) {
					return "n", true
				}
			}
			return "", false
		})
		return ok && f.is(map[string]int64{"n": 2, "": 1})
	}
	made := map[types.Object]bool{} // locals holding a table made with 2n+1 slots
	makes, makesOK := 0, true
	thrOK, reassign := false, false
	for _, b := range bodies {
		ast.Inspect(b, func(n ast.Node) bool {
			as, ok := n.(*ast.AssignStmt)
			if !ok || len(as.Lhs) != len(as.Rhs) {
				return true
			}
			for i, r := range as.Rhs {
				if call, ok := ast.Unparen(r).(*ast.CallExpr); ok && len(call.Args) >= 2 {
					if id, ok := call.Fun.(*ast.Ident); ok && id.Name == "make" {
						if _, isSlice := info.TypeOf(call).Underlying().(*types.Slice); isSlice {
							makes++
							if newCapOf(call.Args[1]) {
								if lid, ok := as.Lhs[i].(*ast.Ident); ok {
									made[info.ObjectOf(lid)] = true
								}
							} else {
								makesOK = false
							}
						}
					}
				}
			}
			return true
		})
	}
	// where the new table is installed (this.table = ...): after it, len(this.table) is the NEW capacity
	installEnd := token.NoPos
	ast.Inspect(fi.Decl.Body, func(n ast.Node) bool {
		if as, ok := n.(*ast.AssignStmt); ok && len(as.Lhs) == 1 && cl.norm(as.Lhs[0]) == "table" {
			installEnd = as.End()
		}
		return true
	})
	var isNewCap func(e ast.Expr) bool
	isNewCap = func(e ast.Expr) bool {
		e = ast.Unparen(stripConvs(info, e))
		if call, ok := e.(*ast.CallExpr); ok && len(call.Args) == 1 && installEnd.IsValid() && e.Pos() > installEnd && bodyOf(e) == fi.Decl.Body {
			if id, ok := call.Fun.(*ast.Ident); ok && id.Name == "len" && cl.norm(call.Args[0]) == "table" {
				return true
			}
		}
		if e.Pos() <= installEnd || !installEnd.IsValid() || bodyOf(e) != fi.Decl.Body {
			if newCapOf(e) {
				return true
			}
		}
		if id, ok := e.(*ast.Ident); ok {
			if d := localDefIn(info, bodyOf(e), id); d != nil {
				return isNewCap(d)
			}
		}
		if call, ok := e.(*ast.CallExpr); ok && len(call.Args) == 1 {
			if id, ok := call.Fun.(*ast.Ident); ok && id.Name == "len" {
				if aid, ok := ast.Unparen(call.Args[0]).(*ast.Ident); ok && made[info.ObjectOf(aid)] {
					return true
				}
			}
		}
		return false
	}
	mentionsNewCap := func(e ast.Expr) bool {
		found := false
		ast.Inspect(e, func(n ast.Node) bool {
			if x, ok := n.(ast.Expr); ok && !found && isNewCap(x) {
				found = true
			}
			return !found
		})
		return found
	}
	thr := ""
	for _, b := range bodies {
		ast.Inspect(b, func(n ast.Node) bool {
			switch v := n.(type) {
			case *ast.AssignStmt:
				if len(v.Lhs) == 1 && len(v.Rhs) == 1 {
					switch cl.norm(v.Lhs[0]) {
					case "threshold":
						rhs := v.Rhs[0]
						// thresholdOf(newCapacity, this.loadFactor): judged by what the helper returns
						if call, ok := ast.Unparen(rhs).(*ast.CallExpr); ok {
							if res := helperResults(h.p, info, call); len(res) == 1 {
								rhs = res[0]
							}
						}
						thr = cl.norm(rhs)
						if mentionsNewCap(rhs) && strings.Contains(thr, "loadFactor") {
							thrOK = true
						}
					case "table":
						reassign = true
					}
				}
			case *ast.BinaryExpr:
				if v.Op == token.REM {
					idxKinds = append(idxKinds, hashExprKind(cl, v.X))
					if !isNewCap(v.Y) {
						modOK = false
					}
				}
			}
			return true
		})
	}
	if makes == 0 || !makesOK {
		probs = append(probs, "the new table is not made with 2*len(table)+1 buckets")
	}
	if !thrOK && thr == "" && !structHasField(h.t, "threshold") {
		// no threshold is kept: the growth test derives it from the table each time (C12.growth sees it)
		thrOK = true
	}
	if !thrOK {
		probs = append(probs, "threshold is not recomputed from the new capacity and the load factor: "+thr)
	}
	if !reassign {
		probs = append(probs, "the new table is never installed")
	}
	if len(idxKinds) != 1 || !modOK {
		probs = append(probs, fmt.Sprintf("re-bucketing index is not a single `hash %% newCapacity` (%v)", idxKinds))
	}
	// lookups' hash expression
	lookKinds := map[string]bool{}
	for _, m := range h.p.MethodsOf(h.t) {
		if m.Decl.Body == nil || m.Obj.Name() == "rehash" {
			continue
		}
		mcl := newHmapClassifier(m)
		min := newInliner(h.p, m, nil)
		var scan func(root ast.Node, depth int)
		scan = func(root ast.Node, depth int) {
			ast.Inspect(root, func(n ast.Node) bool {
				switch v := n.(type) {
				case *ast.BinaryExpr:
					if v.Op == token.REM && strings.Contains(mcl.norm(v.Y), "len(") {
						lookKinds[hashExprKind(mcl, v.X)] = true
					}
				case *ast.CallExpr:
					// a bucket helper (func bucket(key, n) uint { return uint(key) % uint(n) }) reads as
					// its body with the arguments in place
					if depth < 2 {
						if ex := min.Expand(v); ex != ast.Expr(v) {
							scan(ex, depth+1)
						}
					}
				}
				return true
			})
		}
		scan(m.Decl.Body, 0)
	}
	var lk []string
	for k := range lookKinds {
		lk = append(lk, k)
	}
	sort.Strings(lk)
	if len(lk) != 1 || !(lk[0] == "hash()" || strings.HasPrefix(lk[0], "inline:") || strings.HasPrefix(lk[0], "fn:")) {
		probs = append(probs, fmt.Sprintf("lookups do not all derive the bucket from one hash of the key: %v", lk))
	}
	if len(idxKinds) == 1 {
		switch {
		case len(lk) == 1 && idxKinds[0] == lk[0]:
		case idxKinds[0] == "cached":
			// the cached hash must be stored at insertion from hash(key)
			if why := h.cachedHashStored(); why != "" {
				probs = append(probs, why)
			}
		default:
			probs = append(probs, "rehash re-buckets with `"+idxKinds[0]+"`, lookups use this.hash(key): after growth some keys land in a bucket lookups never probe")
		}
	}
	// coverage of the old table
	if why := walkCoverage(cl, fi.Decl.Body); why != "" {
		probs = append(probs, why)
	}
	// the chain walk reads an entry's successor before it redirects the entry's link
	for _, b := range bodies {
		if why := linkReadAfterWrite(info, b); why != "" {
			probs = append(probs, why)
		}
	}
	if len(probs) > 0 {
		h.r.Viol(h.pre+".rehash", c, pos, strings.Join(probs, "; "))
	} else {
		h.r.OK(h.pre+".rehash", c, pos, "2n+1 buckets, threshold from new capacity, every old bucket re-bucketed with the lookup hash")
	}
}

// cachedHashStored: every fresh entry created in an insertion helper stores the hash computed by
// this.hash(key) in its keyHash/hash field.
func (h *hmapType) cachedHashStored() string {
	for _, fi := range h.p.MethodsOf(h.t) {
		if fi.Decl.Body == nil || fi.Obj.Name() == "rehash" {
			continue
		}
		cl := newHmapClassifier(fi)
		for _, fresh := range cl.fresh {
			u, ok := ast.Unparen(fresh).(*ast.UnaryExpr)
			if !ok {
				return fmt.Sprintf("%s creates entries through %s: the cached hash that rehash() relies on is not visibly stored", fi.Obj.Name(), cl.norm(fresh))
			}
			lit := u.X.(*ast.CompositeLit)
			okHash := false
			for _, el := range lit.Elts {
				if kv, ok := el.(*ast.KeyValueExpr); ok {
					k := strings.ToLower(types.ExprString(kv.Key))
					if k == "keyhash" || k == "hash" {
						if k := hashExprKind(cl, kv.Value); k == "hash()" || strings.HasPrefix(k, "fn:") || strings.HasPrefix(k, "inline:") {
							okHash = true
						}
						// the field keeps the whole hash: look-ups take the index from hash(key) at its full
						// width, so a narrower copy gives other residues for the hashes it cuts
						if hm := h.hashMethodResult(); hm != nil {
							if ft := fi.Pkg.TypesInfo.TypeOf(kv.Value); ft != nil {
								sz := types.SizesFor("gc", "amd64")
								if fb, ok := ft.Underlying().(*types.Basic); ok && fb.Info()&types.IsInteger != 0 && sz.Sizeof(ft) < sz.Sizeof(hm) && sz.Sizeof(ft) < h.hashEffectiveWidth(sz) {
									return fmt.Sprintf("%s stores the hash in a field of type %s, narrower than what hash() returns (%s): rehash() re-buckets by the narrowed copy while look-ups use the full hash, so after a growth the entries whose hash does not fit are no longer found", fi.Obj.Name(), ft.String(), hm.String())
								}
							}
						}
					}
				}
			}
			if !okHash {
				return fmt.Sprintf("%s creates an entry without storing this.hash(key) in the cached hash field that rehash() uses", fi.Obj.Name())
			}
		}
	}
	return ""
}

// hashMethodResult: the result type of the type's own hash(key) helper, nil when there is none.
func (h *hmapType) hashMethodResult() types.Type {
	for _, fi := range h.p.MethodsOf(h.t) {
		if fi.Obj.Name() == "hash" {
			if sig, ok := fi.Obj.Type().(*types.Signature); ok && sig.Results().Len() == 1 {
				return sig.Results().At(0).Type()
			}
		}
	}
	return nil
}

// hashEffectiveWidth: how many bytes of hash()'s result can be non-zero. A result that is a plain
// widening of an unsigned narrower value (uint(crc32u)) only ever has that many significant bytes;
// a widened signed value is sign-extended and uses the full width.
func (h *hmapType) hashEffectiveWidth(sz types.Sizes) int64 {
	for _, fi := range h.p.MethodsOf(h.t) {
		if fi.Obj.Name() != "hash" || fi.Decl.Body == nil {
			continue
		}
		full := sz.Sizeof(fi.Obj.Type().(*types.Signature).Results().At(0).Type())
		if len(fi.Decl.Body.List) != 1 {
			return full
		}
		rs, ok := fi.Decl.Body.List[0].(*ast.ReturnStmt)
		if !ok || len(rs.Results) != 1 {
			return full
		}
		info := fi.Pkg.TypesInfo
		e := ast.Unparen(rs.Results[0])
		for {
			call, ok := e.(*ast.CallExpr)
			if !ok || len(call.Args) != 1 {
				break
			}
			if tv, ok := info.Types[call.Fun]; !ok || !tv.IsType() {
				break
			}
			e = ast.Unparen(call.Args[0])
		}
		if t := info.TypeOf(e); t != nil {
			if b, ok := t.Underlying().(*types.Basic); ok && b.Info()&types.IsUnsigned != 0 {
				return sz.Sizeof(t)
			}
		}
		return full
	}
	return 8
}

// walkCoverage checks every loop over a table-like slice driven by its length: the indices used
// must be exactly 0..len-1. Returns "" if all loops in body are fine.
func walkCoverage(cl *hmapClassifier, body ast.Node) string {
	var probs []string
	ast.Inspect(body, func(n ast.Node) bool {
		loop, ok := n.(*ast.ForStmt)
		if !ok || loop.Init == nil || loop.Cond == nil || loop.Post == nil {
			return true
		}
		init, ok := loop.Init.(*ast.AssignStmt)
		if !ok || len(init.Lhs) != 1 || len(init.Rhs) != 1 {
			return true
		}
		iv, ok := init.Lhs[0].(*ast.Ident)
		if !ok {
			return true
		}
		start := cl.norm(init.Rhs[0])
		// start forms: len(X)+c where X is the walked slice, possibly through locals (oldCapacity := len(table); oldCapacity-1)
		var lenOf string
		startOff := 0
		if start == "0" {
			return true // ascending loops: bound checked by the runtime; coverage `i < len` is the common idiom
		}
		// resolve a local that aliases a slice (oldMap := this.table) to what it aliases
		var fnBody *ast.BlockStmt
		if b, ok := body.(*ast.BlockStmt); ok {
			fnBody = b
		}
		baseOf := func(e ast.Expr) string {
			for d := 0; d < 3; d++ {
				id, ok := ast.Unparen(e).(*ast.Ident)
				if !ok || fnBody == nil {
					break
				}
				def := localDefIn(cl.info, fnBody, id)
				if def == nil {
					break
				}
				if _, isCall := ast.Unparen(def).(*ast.CallExpr); isCall {
					break
				}
				e = def
			}
			return cl.norm(e)
		}
		lenKey := ""
		f, ok := linearize(cl.info, fnBody, init.Rhs[0], func(x ast.Expr) (string, bool) {
			if call, ok := ast.Unparen(x).(*ast.CallExpr); ok && len(call.Args) == 1 {
				if id, ok := call.Fun.(*ast.Ident); ok && id.Name == "len" {
					lenKey = baseOf(call.Args[0])
					return "len", true
				}
			}
			return "", false
		})
		if !ok || f["len"] != 1 || len(f.clean()) > 2 || lenKey == "" {
			return true
		}
		lenOf, startOff = lenKey, int(f[""])
		post, ok := loop.Post.(*ast.IncDecStmt)
		if !ok || post.Tok != token.DEC {
			return true
		}
		cond, ok := loop.Cond.(*ast.BinaryExpr)
		if !ok || cl.norm(cond.X) != iv.Name {
			return true
		}
		low := 0
		switch {
		case cond.Op == token.GTR && cl.norm(cond.Y) == "0":
			low = 1
		case cond.Op == token.GEQ && cl.norm(cond.Y) == "0":
			low = 0
		default:
			return true
		}
		// index expressions on the walked slice inside the body
		ast.Inspect(loop.Body, func(m ast.Node) bool {
			ix, ok := m.(*ast.IndexExpr)
			if !ok {
				return true
			}
			base := baseOf(ix.X)
			if lenOf != base {
				return true
			}
			is := cl.norm(ix.Index)
			off := 0
			switch is {
			case iv.Name:
			case iv.Name + "-1":
				off = -1
			default:
				return true
			}
			hi := startOff + off // relative to len
			lo := low + off
			if hi != -1 || lo != 0 {
				what := ""
				if hi > -1 {
					what = fmt.Sprintf("indexes %s[len(%s)%+d]: out of range on the first iteration", base, base, hi+0)
				} else if hi < -1 {
					what = fmt.Sprintf("never visits the last bucket of %s", base)
				}
				if lo > 0 {
					if what != "" {
						what += " and "
					}
					what += fmt.Sprintf("never visits bucket 0 of %s", base)
				}
				if lo < 0 {
					what += " runs below index 0"
				}
				probs = append(probs, what)
			}
			return true
		})
		return true
	})
	return strings.Join(uniq(probs), "; ")
}

// checkWalks: every method's whole-table descending loops cover exactly [0, len-1].
func (h *hmapType) checkWalks() {
	for _, fi := range h.p.MethodsOf(h.t) {
		if fi.Decl.Body == nil || fi.Obj.Name() == "rehash" {
			continue
		}
		cl := newHmapClassifier(fi)
		hasLoop := false
		ast.Inspect(fi.Decl.Body, func(n ast.Node) bool {
			if loop, ok := n.(*ast.ForStmt); ok && loop.Init != nil {
				if as, ok := loop.Init.(*ast.AssignStmt); ok && len(as.Rhs) == 1 && strings.HasPrefix(cl.norm(as.Rhs[0]), "len(") {
					if post, ok := loop.Post.(*ast.IncDecStmt); ok && post.Tok == token.DEC {
						hasLoop = true
					}
				}
			}
			return true
		})
		if !hasLoop {
			continue
		}
		c := h.name + "." + fi.Obj.Name()
		why := walkCoverage(cl, fi.Decl.Body)
		if why != "" {
			h.r.Viol(h.pre+".walks", c, h.p.Pos(fi.Decl.Pos()), "whole-table walk "+why)
		} else {
			h.r.OK(h.pre+".walks", c, h.p.Pos(fi.Decl.Pos()), "descending walk covers buckets len-1..0 exactly")
		}
	}
}

// checkEnumer: Keys/Values/Entries build their enumerator so that the discriminator its NextElement
// actually tests selects keys / values / entries respectively.
func (h *hmapType) checkEnumer() {
	want := map[string]string{"Keys": "ELEMENT_TYPE_KEYS", "Values": "ELEMENT_TYPE_VALUES", "Entries": "ELEMENT_TYPE_ENTRIES"}
	pkScope := h.t.Obj().Pkg().Scope()
	for _, fi := range h.p.MethodsOf(h.t) {
		w, ok := want[fi.Obj.Name()]
		if !ok || fi.Decl.Body == nil {
			continue
		}
		info := fi.Pkg.TypesInfo
		c := h.name + "." + fi.Obj.Name()
		pos := h.p.Pos(fi.Decl.Pos())
		// the constructed enumerator type and the values given to its fields
		var et *types.Named
		given := map[string]ast.Expr{}
		ast.Inspect(fi.Decl.Body, func(n ast.Node) bool {
			switch v := n.(type) {
			case *ast.CompositeLit:
				if tv, ok := info.Types[v]; ok {
					if nn := namedOf(tv.Type); nn != nil && strings.Contains(nn.Obj().Name(), "Enumer") {
						et = nn
						for _, el := range v.Elts {
							if kv, ok := el.(*ast.KeyValueExpr); ok {
								given[types.ExprString(kv.Key)] = kv.Value
							}
						}
					}
				}
			case *ast.CallExpr:
				if id, ok := v.Fun.(*ast.Ident); ok && strings.HasPrefix(id.Name, "New") && strings.Contains(id.Name, "Enumer") {
					if cfi := h.p.Func(core.RelPkg(h.t.Obj().Pkg().Path()), id.Name); cfi != nil {
						if rt := cfi.Obj.Type().(*types.Signature).Results(); rt.Len() == 1 {
							et = namedOf(rt.At(0).Type())
						}
						// map constructor params to fields: `p.F = param`
						params := map[types.Object]int{}
						i := 0
						for _, f := range cfi.Decl.Type.Params.List {
							for _, nm := range f.Names {
								params[cfi.Pkg.TypesInfo.Defs[nm]] = i
								i++
							}
						}
						ast.Inspect(cfi.Decl.Body, func(m ast.Node) bool {
							if as, ok := m.(*ast.AssignStmt); ok && len(as.Lhs) == 1 && len(as.Rhs) == 1 {
								if sel, ok := as.Lhs[0].(*ast.SelectorExpr); ok {
									if rid, ok := as.Rhs[0].(*ast.Ident); ok {
										if pi, ok := params[cfi.Pkg.TypesInfo.ObjectOf(rid)]; ok && pi < len(v.Args) {
											given[sel.Sel.Name] = v.Args[pi]
										}
									}
								}
							}
							return true
						})
					}
				}
			}
			return true
		})
		if et == nil {
			continue
		}
		// which field does NextElement discriminate on?
		disc := ""
		for _, m := range h.p.MethodsOf(et) {
			if m.Obj.Name() != "NextElement" || m.Decl.Body == nil {
				continue
			}
			rn := recvName(m)
			ast.Inspect(m.Decl.Body, func(n ast.Node) bool {
				var e ast.Expr
				switch v := n.(type) {
				case *ast.SwitchStmt:
					e = v.Tag
				case *ast.IfStmt:
					e = v.Cond
				}
				if sel, ok := e.(*ast.SelectorExpr); ok {
					if id, ok := sel.X.(*ast.Ident); ok && id.Name == rn && (sel.Sel.Name == "Type" || sel.Sel.Name == "isEntry") && disc == "" {
						disc = sel.Sel.Name
					}
				}
				return true
			})
		}
		switch disc {
		case "":
			if bad := h.typedNextKind(fi, et, strings.ToLower(fi.Obj.Name())); bad != "" && !returnsInterfaceEnumeration(fi) {
				h.r.Viol(h.pre+".enumer", c, pos, bad)
			} else {
				h.r.OK(h.pre+".enumer", c, pos, et.Obj().Name()+".NextElement has no discriminator")
			}
		case "Type":
			wantVal := ""
			if cst, ok := pkScope.Lookup(w).(*types.Const); ok {
				wantVal = cst.Val().ExactString()
			}
			got := "0"
			if g, ok := given["Type"]; ok {
				if tv, ok := info.Types[g]; ok && tv.Value != nil {
					got = tv.Value.ExactString()
				} else {
					got = "?"
				}
			}
			// evaluate NextElement's switch on the given Type value: which kind of element is returned?
			kindOf := func(e ast.Expr) string {
				s := stripSpaces(types.ExprString(e))
				switch {
				case strings.HasSuffix(s, ".key") || strings.HasSuffix(s, ".Key") || strings.HasSuffix(s, "GetKey()"):
					return "keys"
				case strings.HasSuffix(s, ".value") || strings.HasSuffix(s, ".Value") || strings.HasSuffix(s, "GetValue()"):
					return "values"
				}
				return "entries"
			}
			yields := "?"
			for _, m := range h.p.MethodsOf(et) {
				if m.Obj.Name() != "NextElement" || m.Decl.Body == nil {
					continue
				}
				ast.Inspect(m.Decl.Body, func(n ast.Node) bool {
					sw, ok := n.(*ast.SwitchStmt)
					if !ok || sw.Tag == nil || !strings.HasSuffix(types.ExprString(sw.Tag), ".Type") {
						return true
					}
					def := "?"
					for _, cc := range sw.Body.List {
						cl := cc.(*ast.CaseClause)
						ret := ""
						for _, s := range cl.Body {
							if rs, ok := s.(*ast.ReturnStmt); ok && len(rs.Results) == 1 {
								ret = kindOf(rs.Results[0])
							}
						}
						if cl.List == nil {
							def = ret
							continue
						}
						for _, e := range cl.List {
							if tv, ok := m.Pkg.TypesInfo.Types[e]; ok && tv.Value != nil && tv.Value.ExactString() == got {
								yields = ret
							}
						}
					}
					if yields == "?" {
						yields = def
					}
					return false
				})
			}
			wantKind := strings.ToLower(fi.Obj.Name())
			_ = wantVal
			if yields == wantKind {
				if bad := h.typedNextKind(fi, et, wantKind); bad != "" && !returnsInterfaceEnumeration(fi) {
					h.r.Viol(h.pre+".enumer", c, pos, bad)
				} else {
					h.r.OK(h.pre+".enumer", c, pos, fmt.Sprintf("Type=%s yields %s", got, yields))
				}
			} else if fi.Obj.Name() == "Keys" && !returnsInterfaceEnumeration(fi) {
				if bad := h.typedNextKind(fi, et, "keys"); bad != "" {
					h.r.Viol(h.pre+".enumer", c, pos, bad)
				} else {
					h.r.OK(h.pre+".enumer", c, pos, "typed key enumerator: its Next<T>() yields the key for what the constructor sets")
				}
			} else {
				h.r.Viol(h.pre+".enumer", c, pos, fmt.Sprintf("%s builds %s with Type=%s, for which NextElement yields %s instead of %s", fi.Obj.Name(), et.Obj().Name(), got, yields, wantKind))
			}
		case "isEntry":
			got := "false"
			if g, ok := given["isEntry"]; ok {
				got = types.ExprString(g)
			}
			wantB := map[string]string{"Keys": "", "Values": "false", "Entries": "true"}[fi.Obj.Name()]
			if wantB == "" || got == wantB {
				h.r.OK(h.pre+".enumer", c, pos, "isEntry="+got)
			} else {
				h.r.Viol(h.pre+".enumer", c, pos, fmt.Sprintf("%s builds %s with isEntry=%s, want %s", fi.Obj.Name(), et.Obj().Name(), got, wantB))
			}
		}
	}
}

func returnsInterfaceEnumeration(fi *core.FuncInfo) bool {
	res := fi.Obj.Type().(*types.Signature).Results()
	return res.Len() == 1 && strings.HasSuffix(res.At(0).Type().String(), ".Enumeration")
}

// checkSort: collect -> sort.Sort -> clear() -> re-insert all with PUT_LAST.
func (h *hmapType) checkSort() {
	rel := core.RelPkg(h.t.Obj().Pkg().Path())
	fi := h.p.Method(rel, h.t.Obj().Name(), "Sort")
	if fi == nil || fi.Decl.Body == nil {
		return
	}
	cl := newHmapClassifier(fi)
	ps, over := h.enumerate(fi, cl, "")
	c := h.name + ".Sort"
	pos := h.p.Pos(fi.Decl.Pos())
	if over {
		h.r.Undec(h.pre+".sort", c, pos, "too many paths")
		return
	}
	var probs []string
	full := 0
	for _, pa := range ps {
		si, ci := pa.Index("SORT"), pa.Index("CLEAR")
		if si < 0 {
			continue
		}
		ri := pa.Index("REINSERT")
		if ri < 0 {
			continue // zero-element path
		}
		full++
		if ci < 0 || ci < si || ri < ci {
			probs = append(probs, "order is not sort -> clear -> re-insert: "+pa.String())
		}
		for _, e := range pa {
			if e.Kind == "REINSERT" && e.Arg != "PUT_LAST" {
				probs = append(probs, "entries are re-inserted with "+e.Arg+" instead of PUT_LAST: the sorted order is not the resulting order")
			}
		}
	}
	// Sort collects the entries, clears the structure and re-inserts key/value from the collected
	// entries: clear() must leave the entries' key and value untouched (it may drop links)
	if cfi := h.p.Method(rel, h.t.Obj().Name(), "clear"); cfi != nil && cfi.Decl.Body != nil {
		ast.Inspect(cfi.Decl.Body, func(n ast.Node) bool {
			as, ok := n.(*ast.AssignStmt)
			if !ok {
				return true
			}
			for _, l := range as.Lhs {
				if sel, ok := ast.Unparen(l).(*ast.SelectorExpr); ok {
					switch sel.Sel.Name {
					case "value", "Value", "key", "Key":
						if _, isRecv := ast.Unparen(sel.X).(*ast.Ident); isRecv {
							probs = append(probs, "clear() overwrites "+stripSpaces(types.ExprString(l))+" of the entries it drops, but Sort re-inserts from those entries after clear(): every key comes back with a wiped "+strings.ToLower(sel.Sel.Name))
						}
					}
				}
			}
			return true
		})
	}
	if full == 0 {
		h.r.Undec(h.pre+".sort", c, pos, "no path with sort + re-insert")
	} else if len(probs) > 0 {
		h.r.Viol(h.pre+".sort", c, pos, strings.Join(uniq(probs), "; "))
	} else {
		h.r.OK(h.pre+".sort", c, pos, "collect, sort.Sort, clear, re-insert in sorted order at the tail")
	}
}

// checkIndexSign: bucket indices are computed by an unsigned modulo, or from a value that is
// provably non-negative (masked with a non-negative constant).
func (h *hmapType) checkIndexSign() {
	for _, fi := range h.p.MethodsOf(h.t) {
		if fi.Decl.Body == nil {
			continue
		}
		info := fi.Pkg.TypesInfo
		cl := newHmapClassifier(fi)
		n := 0
		var probs []string
		ast.Inspect(fi.Decl.Body, func(m ast.Node) bool {
			be, ok := m.(*ast.BinaryExpr)
			if !ok || be.Op != token.REM {
				return true
			}
			ys := cl.norm(be.Y)
			if !strings.Contains(ys, "len(") && !strings.Contains(ys, "Capacity") {
				return true
			}
			n++
			t := info.TypeOf(be)
			if b, ok := t.Underlying().(*types.Basic); ok && b.Info()&types.IsUnsigned != 0 {
				return true // unsigned modulo is always within [0, len)
			}
			if !h.nonNeg(fi, be.X, 0) {
				probs = append(probs, "signed modulo `"+cl.norm(be)+"` of a value that can be negative: negative bucket index")
			}
			return true
		})
		if n == 0 {
			continue
		}
		c := h.name + "." + fi.Obj.Name()
		if len(probs) > 0 {
			h.r.Viol(h.pre+".index", c, h.p.Pos(fi.Decl.Pos()), strings.Join(uniq(probs), "; "))
		} else {
			h.r.OK(h.pre+".index", c, h.p.Pos(fi.Decl.Pos()), fmt.Sprintf("%d bucket index computation(s) on a non-negative hash", n))
		}
	}
}

// nonNeg: the expression is provably within [0, 2^63).
func (h *hmapType) nonNeg(fi *core.FuncInfo, e ast.Expr, depth int) bool {
	info := fi.Pkg.TypesInfo
	e = ast.Unparen(e)
	if depth > 4 {
		return false
	}
	if tv, ok := info.Types[e]; ok && tv.Value != nil {
		return constant.Sign(tv.Value) >= 0
	}
	switch v := e.(type) {
	case *ast.BinaryExpr:
		switch v.Op {
		case token.AND:
			for _, side := range []ast.Expr{v.X, v.Y} {
				if tv, ok := info.Types[side]; ok && tv.Value != nil && constant.Sign(tv.Value) >= 0 {
					if n, ok := constant.Uint64Val(tv.Value); ok && n < 1<<63 {
						return true
					}
				}
			}
			return h.nonNeg(fi, v.X, depth+1) || h.nonNeg(fi, v.Y, depth+1)
		case token.REM, token.SHR:
			return h.nonNeg(fi, v.X, depth+1)
		}
	case *ast.CallExpr:
		if tv, ok := info.Types[v.Fun]; ok && tv.IsType() && len(v.Args) == 1 {
			// conversion: preserves non-negativity when the source is non-negative and fits
			return h.nonNeg(fi, v.Args[0], depth+1)
		}
		// call of a same-type method: all its return expressions must be non-negative
		if sel, ok := v.Fun.(*ast.SelectorExpr); ok {
			if fn, ok := info.Uses[sel.Sel].(*types.Func); ok {
				if cfi := h.p.FuncOf(fn); cfi != nil && cfi.Decl.Body != nil {
					all, any := true, false
					ast.Inspect(cfi.Decl.Body, func(m ast.Node) bool {
						if rs, ok := m.(*ast.ReturnStmt); ok && len(rs.Results) == 1 {
							any = true
							if !h.nonNeg(cfi, rs.Results[0], depth+1) {
								all = false
							}
						}
						return true
					})
					return any && all
				}
			}
		}
	case *ast.SelectorExpr:
		// cached hash fields hold what hash() returned
		n := strings.ToLower(v.Sel.Name)
		if n == "keyhash" || n == "hash" {
			return true
		}
	case *ast.Ident:
		obj := info.ObjectOf(v)
		var defs []ast.Expr
		ast.Inspect(fi.Decl.Body, func(m ast.Node) bool {
			if as, ok := m.(*ast.AssignStmt); ok && len(as.Lhs) == 1 && len(as.Rhs) == 1 {
				if lid, ok := as.Lhs[0].(*ast.Ident); ok && info.ObjectOf(lid) == obj {
					defs = append(defs, as.Rhs[0])
				}
			}
			return true
		})
		if len(defs) == 0 {
			return false
		}
		for _, d := range defs {
			if !h.nonNeg(fi, d, depth+1) {
				return false
			}
		}
		return true
	}
	return false
}

var identRe = regexp.MustCompile(`^[A-Za-z_][A-Za-z0-9_]*$`)

// guardOutcome: the path tested `<end> != <entry variable>` with the given outcome, whatever the
// variable holding the found entry is called (e, present, hit ...).
func guardOutcome(pa paths.Path, end string, notEqual bool) bool {
	for _, e := range pa {
		if e.Kind != "COND" {
			continue
		}
		i := strings.LastIndexByte(e.Arg, '=')
		if i < 0 {
			continue
		}
		atom, val := e.Arg[:i], e.Arg[i+1:] == "true"
		parts := strings.SplitN(atom, "==", 2)
		if len(parts) != 2 {
			continue
		}
		var other string
		switch {
		case parts[0] == end:
			other = parts[1]
		case parts[1] == end:
			other = parts[0]
		default:
			continue
		}
		if !identRe.MatchString(other) || other == "nil" || other == "header" {
			continue
		}
		// the atom is an equality: `!=` true is `==` false
		if val == !notEqual {
			return true
		}
	}
	return false
}

// localDef: the single defining expression (x := <expr>) of a local in the function or the helper
// bodies followed so far; nil when there is none or more than one.
func (c *hmapClassifier) localDef(id *ast.Ident) ast.Expr {
	obj := c.info.ObjectOf(id)
	var def ast.Expr
	n := 0
	for _, body := range append([]*ast.BlockStmt{c.fi.Decl.Body}, c.bodies...) {
		ast.Inspect(body, func(m ast.Node) bool {
			if as, ok := m.(*ast.AssignStmt); ok && len(as.Lhs) == len(as.Rhs) {
				for i, l := range as.Lhs {
					if lid, ok := l.(*ast.Ident); ok && c.info.ObjectOf(lid) == obj {
						def = as.Rhs[i]
						n++
					}
				}
			}
			return true
		})
	}
	if n == 1 {
		return def
	}
	return nil
}

var keyLookupName = regexp.MustCompile(`^(Contains|ContainsKey|Has|HasKey|Get|get|Remove|remove|contains)$`)

// checkKeyDomain (siblings cross-check): the operations of one collection must agree on which keys
// exist at all. A lookup or removal that rejects a key value up front (`if key == "" { return ... }`)
// while the insertion path stores that value makes the element unreachable: Put("") then
// Contains("") is false, Size() counts it, enumeration yields it. One obligation per type that has a
// key guard anywhere.
func (h *hmapType) checkKeyDomain() {
	type guard struct {
		val string
		pos string
	}
	insertNames := map[string]bool{"put": true, "add": true, "_add": true, "unipoint": true, "Put": true, "Add": true, "Unipoint": true}
	lookups := map[string][]guard{}
	inserts := map[string][]guard{}
	hasInsert := map[string]bool{}
	for _, fi := range h.p.MethodsOf(h.t) {
		if fi.Decl.Body == nil || fi.Decl.Type.Params == nil || len(fi.Decl.Type.Params.List) == 0 || len(fi.Decl.Type.Params.List[0].Names) == 0 {
			continue
		}
		info := fi.Pkg.TypesInfo
		kobj := info.Defs[fi.Decl.Type.Params.List[0].Names[0]]
		name := fi.Obj.Name()
		// only the implementation level: an exported wrapper delegates to put/remove
		var gs []guard
		for _, st := range fi.Decl.Body.List {
			ifs, ok := st.(*ast.IfStmt)
			if !ok {
				// lock/defer/assignments before the guard are fine; stop at the first loop or call that works on the table
				if _, isFor := st.(*ast.ForStmt); isFor {
					break
				}
				continue
			}
			be, ok := ast.Unparen(ifs.Cond).(*ast.BinaryExpr)
			if !ok || be.Op != token.EQL {
				continue
			}
			id, ok := ast.Unparen(be.X).(*ast.Ident)
			if !ok || info.ObjectOf(id) != kobj {
				continue
			}
			endsInReturn := len(ifs.Body.List) > 0
			if endsInReturn {
				_, endsInReturn = ifs.Body.List[len(ifs.Body.List)-1].(*ast.ReturnStmt)
			}
			if !endsInReturn {
				continue
			}
			v := ""
			if tv, ok := info.Types[be.Y]; ok && tv.Value != nil {
				v = tv.Value.ExactString()
			} else if nid, ok := ast.Unparen(be.Y).(*ast.Ident); ok && nid.Name == "nil" {
				v = "nil"
			}
			if v != "" {
				gs = append(gs, guard{v, h.p.Pos(ifs.Pos())})
			}
		}
		if insertNames[name] {
			// the innermost insertion helper decides; exported wrappers that only delegate are skipped
			delegates := false
			ast.Inspect(fi.Decl.Body, func(n ast.Node) bool {
				if call, ok := n.(*ast.CallExpr); ok {
					if sel, ok := call.Fun.(*ast.SelectorExpr); ok && insertNames[sel.Sel.Name] && sel.Sel.Name != name {
						if id, ok := ast.Unparen(sel.X).(*ast.Ident); ok && id.Name == recvName(fi) {
							delegates = true
						}
					}
				}
				return true
			})
			if !delegates || len(gs) > 0 {
				hasInsert[name] = true
				inserts[name] = gs
			}
		} else if len(gs) > 0 && keyLookupName.MatchString(name) {
			lookups[name] = gs
		}
	}
	if len(lookups) == 0 && len(inserts) == 0 {
		return
	}
	anyGuard := false
	for _, gs := range inserts {
		if len(gs) > 0 {
			anyGuard = true
		}
	}
	if len(lookups) == 0 && !anyGuard {
		return
	}
	var probs []string
	var lnames []string
	for n := range lookups {
		lnames = append(lnames, n)
	}
	sort.Strings(lnames)
	for _, ln := range lnames {
		for _, g := range lookups[ln] {
			for in := range hasInsert {
				rejects := false
				for _, ig := range inserts[in] {
					if ig.val == g.val {
						rejects = true
					}
				}
				if !rejects {
					probs = append(probs, fmt.Sprintf("%s() rejects the key %s at %s but %s() stores it: the stored element can never be found or removed", ln, g.val, g.pos, in))
				}
			}
		}
	}
	sort.Strings(probs)
	c := h.name + " key domain"
	pos := h.p.Pos(h.t.Obj().Pos())
	if len(probs) > 0 {
		h.r.Viol(h.pre+".key-domain", c, pos, strings.Join(uniq(probs), "; "))
	} else {
		h.r.OK(h.pre+".key-domain", c, pos, "lookups reject only keys the insertion path rejects too")
	}
}

// linkReadAfterWrite: in every loop of body, once the chain link of an entry (a field that points to
// the entry's own type) has been assigned, the same entry's link is not read again in that iteration
// — neither later in the body nor in the loop's post statement. `for e := head; e != nil; e = e.next
// { ...; e.next = newTable[i]; ... }` advances through the link it has just redirected: the rest of
// the old chain is lost, or the walk never ends. Entries are told apart through their variables in
// statement order (e := old makes e and old one entry until either is re-assigned).
func linkReadAfterWrite(info *types.Info, body ast.Node) string {
	why := ""
	isLink := func(sel *ast.SelectorExpr) bool {
		ft, ok := info.TypeOf(sel).(*types.Pointer)
		if !ok {
			return false
		}
		xt := info.TypeOf(sel.X)
		if pp, ok := xt.(*types.Pointer); ok {
			xt = pp.Elem()
		}
		return types.Identical(ft.Elem(), xt)
	}
	ast.Inspect(body, func(n ast.Node) bool {
		loop, ok := n.(*ast.ForStmt)
		if !ok || why != "" {
			return true
		}
		next := 1
		ent := map[types.Object]int{}
		idOf := func(e ast.Expr) int {
			if id, ok := ast.Unparen(e).(*ast.Ident); ok {
				if o := info.ObjectOf(id); o != nil {
					if ent[o] == 0 {
						ent[o] = next
						next++
					}
					return ent[o]
				}
			}
			return 0
		}
		written := map[string]bool{} // entry id + field
		key := func(sel *ast.SelectorExpr) string {
			if k := idOf(sel.X); k != 0 {
				return fmt.Sprintf("%d.%s", k, sel.Sel.Name)
			}
			return ""
		}
		reads := func(e ast.Node) {
			ast.Inspect(e, func(m ast.Node) bool {
				if sel, ok := m.(*ast.SelectorExpr); ok && isLink(sel) {
					if k := key(sel); k != "" && written[k] && why == "" {
						why = fmt.Sprintf("the chain walk reads %s after that link was redirected in the same iteration: the rest of the old chain is lost (or the walk never ends)", types.ExprString(sel))
					}
				}
				return true
			})
		}
		var visit func(s ast.Stmt)
		visit = func(s ast.Stmt) {
			switch v := s.(type) {
			case *ast.AssignStmt:
				for _, rh := range v.Rhs {
					reads(rh)
				}
				for i, l := range v.Lhs {
					switch lv := ast.Unparen(l).(type) {
					case *ast.SelectorExpr:
						if isLink(lv) {
							if k := key(lv); k != "" {
								written[k] = true
							}
						}
					case *ast.Ident:
						o := info.ObjectOf(lv)
						if o == nil {
							continue
						}
						// alias (e := old) or a fresh entry (old = old.next)
						if i < len(v.Rhs) && len(v.Lhs) == len(v.Rhs) {
							if rid, ok := ast.Unparen(v.Rhs[i]).(*ast.Ident); ok && info.ObjectOf(rid) != nil {
								ent[o] = idOf(rid)
								continue
							}
						}
						ent[o] = next
						next++
					}
				}
			case *ast.BlockStmt:
				for _, x := range v.List {
					visit(x)
				}
			case *ast.IfStmt:
				if v.Init != nil {
					visit(v.Init)
				}
				reads(v.Cond)
				visit(v.Body)
				if v.Else != nil {
					visit(v.Else)
				}
			case *ast.ForStmt:
				// nested loops are judged on their own
			case *ast.ExprStmt:
				reads(v.X)
			case *ast.IncDecStmt, *ast.BranchStmt, *ast.DeclStmt:
			default:
				if s != nil {
					reads(s)
				}
			}
		}
		if loop.Init != nil {
			visit(loop.Init)
		}
		visit(loop.Body)
		if loop.Post != nil {
			visit(loop.Post)
		}
		return true
	})
	return why
}

// checkCtor: every package function that builds this collection (returns *T and makes its table) makes
// the table with a length that cannot be zero: a positive constant, or a parameter that the
// constructor has normalised first (`if n == 0 { n = 1 }`, or a rejecting guard `n <= 0` / `n < 1`).
// A zero-length table makes the first lookup divide by zero.
func (h *hmapType) checkCtor() {
	for _, fi := range h.p.Funcs {
		if fi.Decl.Body == nil || fi.Obj.Pkg() != h.t.Obj().Pkg() || core.RecvNamed(fi.Obj) != nil {
			continue
		}
		sig := fi.Obj.Type().(*types.Signature)
		if sig.Results().Len() != 1 {
			continue
		}
		pt, ok := sig.Results().At(0).Type().(*types.Pointer)
		if !ok {
			continue
		}
		if n, ok := pt.Elem().(*types.Named); !ok || n.Obj() != h.t.Obj() {
			continue
		}
		info := fi.Pkg.TypesInfo
		var makes []*ast.CallExpr
		ast.Inspect(fi.Decl.Body, func(n ast.Node) bool {
			as, ok := n.(*ast.AssignStmt)
			if !ok || len(as.Lhs) != 1 || len(as.Rhs) != 1 {
				return true
			}
			sel, ok := ast.Unparen(as.Lhs[0]).(*ast.SelectorExpr)
			if !ok || sel.Sel.Name != "table" {
				return true
			}
			if call, ok := ast.Unparen(as.Rhs[0]).(*ast.CallExpr); ok {
				if id, ok := call.Fun.(*ast.Ident); ok && id.Name == "make" && len(call.Args) >= 2 {
					makes = append(makes, call)
				}
			}
			return true
		})
		if len(makes) == 0 {
			// a constructor that builds the collection itself (it does not hand on what another
			// constructor of the type returns) and installs no bucket table leaves `len(table)` zero
			delegates := false
			ast.Inspect(fi.Decl.Body, func(n ast.Node) bool {
				if call, ok := n.(*ast.CallExpr); ok {
					if fn := calleeFunc(info, call); fn != nil && fn != fi.Obj {
						if rs := fn.Type().(*types.Signature).Results(); rs.Len() == 1 {
							if n := namedOf(rs.At(0).Type()); n != nil && n.Obj() == h.t.Obj() {
								delegates = true
							}
						}
					}
				}
				return true
			})
			builds := false
			ast.Inspect(fi.Decl.Body, func(n ast.Node) bool {
				switch v := n.(type) {
				case *ast.CompositeLit:
					if n := namedOf(info.TypeOf(v)); n != nil && n.Obj() == h.t.Obj() {
						builds = true
					}
				case *ast.CallExpr:
					if id, ok := v.Fun.(*ast.Ident); ok && id.Name == "new" && len(v.Args) == 1 {
						if n := namedOf(info.TypeOf(v.Args[0])); n != nil && n.Obj() == h.t.Obj() {
							builds = true
						}
					}
				}
				return true
			})
			if builds && !delegates {
				// allocating the table on demand is fine as long as every operation that divides by its
				// length has made sure of it first (a nil/empty test, or a same-receiver call before it)
				unguarded := ""
				for _, mf := range h.p.MethodsOf(h.t) {
					if mf.Decl.Body == nil || unguarded != "" {
						continue
					}
					ast.Inspect(mf.Decl.Body, func(n ast.Node) bool {
						be, ok := n.(*ast.BinaryExpr)
						if !ok || be.Op != token.REM || !strings.Contains(types.ExprString(be.Y), "len(") {
							return true
						}
						guarded := false
						ast.Inspect(mf.Decl.Body, func(m ast.Node) bool {
							if m == nil || m.Pos() >= be.Pos() {
								return m == nil || m.Pos() < be.Pos()
							}
							switch v := m.(type) {
							case *ast.IfStmt:
								c := stripSpaces(types.ExprString(v.Cond))
								if strings.Contains(c, "==nil") || strings.Contains(c, "count==0") || strings.Contains(c, "count<=0") || strings.Contains(c, "len(") {
									guarded = true
								}
							case *ast.CallExpr:
								if sel, ok := v.Fun.(*ast.SelectorExpr); ok {
									if id, ok := sel.X.(*ast.Ident); ok && id.Name == recvName(mf) && sel.Sel.Name != "hash" {
										if _, isM := mf.Pkg.TypesInfo.Uses[sel.Sel].(*types.Func); isM {
											guarded = true
										}
									}
								}
							}
							return true
						})
						if !guarded {
							unguarded = mf.Obj.Name() + " (" + h.p.Pos(be.Pos()) + ")"
						}
						return true
					})
				}
				if unguarded != "" {
					h.r.Viol(h.pre+".ctor", h.name+" constructor "+fi.Obj.Name(), h.p.Pos(fi.Decl.Pos()), "the constructor installs no bucket table and "+unguarded+" takes the hash modulo len(table) without having made sure of a table first: it divides by zero on a collection nothing was put into")
				} else {
					h.r.OK(h.pre+".ctor", h.name+" constructor "+fi.Obj.Name(), h.p.Pos(fi.Decl.Pos()), "table allocated on demand; every operation that divides by its length makes sure of it first")
				}
			}
		}
		for _, mk := range makes {
			c := h.name + " constructor " + fi.Obj.Name()
			pos := h.p.Pos(fi.Decl.Pos())
			ln := ast.Unparen(stripConvs(info, mk.Args[1]))
			if k, isC := constIntOf(info, ln); isC {
				h.r.Check(k > 0, h.pre+".ctor", c, pos, fmt.Sprintf("%d buckets", k), fmt.Sprintf("the table is made with %d buckets", k))
				continue
			}
			id, ok := ln.(*ast.Ident)
			if !ok {
				h.r.Undec(h.pre+".ctor", c, pos, "table length "+types.ExprString(ln)+" is neither a constant nor a variable")
				continue
			}
			obj := info.ObjectOf(id)
			// a local with one constant definition
			if d := localDefIn(info, fi.Decl.Body, id); d != nil {
				if k, isC := constIntOf(info, d); isC {
					h.r.Check(k > 0, h.pre+".ctor", c, pos, fmt.Sprintf("%d buckets", k), fmt.Sprintf("the table is made with %d buckets", k))
					continue
				}
			}
			// a parameter: normalised or rejected before the make
			okGuard := false
			ast.Inspect(fi.Decl.Body, func(n ast.Node) bool {
				ifs, ok := n.(*ast.IfStmt)
				if !ok || ifs.Pos() > mk.Pos() {
					return true
				}
				be, ok := ast.Unparen(ifs.Cond).(*ast.BinaryExpr)
				if !ok {
					return true
				}
				x, isX := ast.Unparen(be.X).(*ast.Ident)
				k, isC := constIntOf(info, be.Y)
				if !isX || !isC || info.ObjectOf(x) != obj {
					return true
				}
				coversZero := (be.Op == token.EQL && k == 0) || (be.Op == token.LEQ && k == 0) || (be.Op == token.LSS && k == 1)
				if !coversZero {
					return true
				}
				// the arm re-assigns the variable to a positive constant, or leaves the function
				ast.Inspect(ifs.Body, func(m ast.Node) bool {
					switch v := m.(type) {
					case *ast.AssignStmt:
						for i, l := range v.Lhs {
							if lid, ok := l.(*ast.Ident); ok && info.ObjectOf(lid) == obj && i < len(v.Rhs) {
								if kk, isC := constIntOf(info, v.Rhs[i]); isC && kk > 0 {
									okGuard = true
								}
							}
						}
					case *ast.ReturnStmt:
						okGuard = true
					case *ast.CallExpr:
						if pid, ok := v.Fun.(*ast.Ident); ok && pid.Name == "panic" {
							okGuard = true
						}
					}
					return true
				})
				return true
			})
			if !okGuard && !fi.Obj.Exported() {
				// an unexported constructor is reachable only from this package: every caller hands it a
				// positive constant capacity
				pi := -1
				k := 0
				for _, f := range fi.Decl.Type.Params.List {
					for _, nm := range f.Names {
						if info.Defs[nm] == obj {
							pi = k
						}
						k++
					}
				}
				calls, good := 0, 0
				if pi >= 0 {
					for _, g := range h.p.Funcs {
						if g.Decl.Body == nil || g.Obj.Pkg() != fi.Obj.Pkg() {
							continue
						}
						ginfo := g.Pkg.TypesInfo
						ast.Inspect(g.Decl.Body, func(n ast.Node) bool {
							if call, ok := n.(*ast.CallExpr); ok && calleeFunc(ginfo, call) == fi.Obj && pi < len(call.Args) {
								calls++
								if kk, isC := constIntOf(ginfo, call.Args[pi]); isC && kk > 0 {
									good++
								}
							}
							return true
						})
					}
				}
				if calls > 0 && calls == good {
					h.r.OK(h.pre+".ctor", c, pos, fmt.Sprintf("unexported; all %d callers pass a positive constant capacity", calls))
					continue
				}
			}
			h.r.Check(okGuard, h.pre+".ctor", c, pos, "a zero capacity is normalised before the table is made",
				"the table is made with the caller's capacity `"+id.Name+"` as it is: "+fi.Obj.Name()+"(0, ...) builds a collection without buckets and the first lookup divides by zero")
		}
	}
}

// checkEntryCache: an entry pointer the collection remembers outside its table and order list (a
// "last hit" of the previous lookup) is forgotten by every method that unlinks entries or installs
// another table: such a pointer goes on answering lookups for a key that has been removed, cleared
// or (after re-insertion) lives in another entry. Cache fields are the fields of the collection whose
// type is a pointer to the table's entry type, other than the order-list sentinel.
func (h *hmapType) checkEntryCache() {
	st, ok := h.t.Underlying().(*types.Struct)
	if !ok {
		return
	}
	var entryT types.Type
	for i := 0; i < st.NumFields(); i++ {
		if st.Field(i).Name() == "table" {
			if sl, ok := st.Field(i).Type().Underlying().(*types.Slice); ok {
				entryT = sl.Elem()
			}
		}
	}
	if entryT == nil {
		return
	}
	var caches []string
	for i := 0; i < st.NumFields(); i++ {
		f := st.Field(i)
		if f.Name() == "header" || f.Name() == "table" {
			continue
		}
		if types.Identical(f.Type(), entryT) {
			caches = append(caches, f.Name())
		}
	}
	c := h.name + " remembered entries"
	if len(caches) == 0 {
		h.r.OK(h.pre+".remove", c, "-", "no entry pointer is kept outside the table and the order list")
		return
	}
	for _, fi := range h.p.MethodsOf(h.t) {
		if fi.Decl.Body == nil {
			continue
		}
		info := fi.Pkg.TypesInfo
		rn := recvName(fi)
		invalidates := false
		newTable, rebuckets := false, false
		assigned := map[string]bool{}
		ast.Inspect(fi.Decl.Body, func(n ast.Node) bool {
			as, ok := n.(*ast.AssignStmt)
			if !ok {
				return true
			}
			// newTab[i] = e: an entry is put into a bucket (re-bucketing keeps every entry)
			for i, l := range as.Lhs {
				if ix, ok := ast.Unparen(l).(*ast.IndexExpr); ok && i < len(as.Rhs) && types.Identical(info.TypeOf(ix), entryT) {
					if rid, ok := ast.Unparen(as.Rhs[i]).(*ast.Ident); ok && rid.Name != "nil" {
						rebuckets = true
					}
				}
			}
			for i, l := range as.Lhs {
				ls := strings.ReplaceAll(stripSpaces(types.ExprString(l)), rn+".", "")
				switch lv := ast.Unparen(l).(type) {
				case *ast.SelectorExpr:
					if id, ok := ast.Unparen(lv.X).(*ast.Ident); ok && id.Name == rn {
						for _, cf := range caches {
							if lv.Sel.Name == cf {
								assigned[cf] = true
							}
						}
						if lv.Sel.Name == "table" {
							newTable = true
						}
					} else if types.Identical(info.TypeOf(lv), entryT) && i < len(as.Rhs) && !strings.HasPrefix(lv.Sel.Name, "link_") {
						// prev.next = e.next: an entry leaves its chain
						if rs, ok := ast.Unparen(as.Rhs[i]).(*ast.SelectorExpr); ok && types.Identical(info.TypeOf(rs), entryT) && rs.Sel.Name == lv.Sel.Name {
							invalidates = true
						}
					}
				case *ast.IndexExpr:
					// tab[i] = e.next (unlink at the head) / tab[i] = nil (clear)
					if types.Identical(info.TypeOf(lv), entryT) && i < len(as.Rhs) {
						switch rv := ast.Unparen(as.Rhs[i]).(type) {
						case *ast.SelectorExpr:
							if types.Identical(info.TypeOf(rv), entryT) {
								invalidates = true
							}
						case *ast.Ident:
							if rv.Name == "nil" {
								invalidates = true
							}
						}
					}
				}
				_ = ls
			}
			return true
		})
		if newTable && !rebuckets {
			invalidates = true // a fresh table without the old entries
		}
		if !invalidates {
			continue
		}
		var miss []string
		for _, cf := range caches {
			if !assigned[cf] {
				miss = append(miss, cf)
			}
		}
		h.r.Check(len(miss) == 0, h.pre+".remove", h.name+"."+fi.Obj.Name()+" forgets remembered entries", h.p.Pos(fi.Decl.Pos()), "remembered entry pointers are reset",
			fmt.Sprintf("%s unlinks entries or installs another table and leaves %v as it was: a later lookup is answered from an entry that is no longer in the collection", fi.Obj.Name(), miss))
	}
}

// checkTableInstall: a method that installs another bucket array either moves every entry over (it
// puts entries into buckets of the new array, as rehash does) or empties the collection (count = 0, as
// clear does). Installing a fresh array beside a non-zero count strands every stored entry: lookups
// miss them, puts duplicate them.
func (h *hmapType) checkTableInstall() {
	n := 0
	for _, fi := range h.p.MethodsOf(h.t) {
		if fi.Decl.Body == nil {
			continue
		}
		info := fi.Pkg.TypesInfo
		rn := recvName(fi)
		installs, rebuckets, zeroes := false, false, false
		// bucket stores are looked for in the method and in the same-package helpers it calls (a rehash
		// split into a table-building helper and an installer)
		seen := map[*core.FuncInfo]bool{}
		var scan func(f *core.FuncInfo, depth int)
		scan = func(f *core.FuncInfo, depth int) {
			if f == nil || f.Decl.Body == nil || seen[f] || depth > 3 {
				return
			}
			seen[f] = true
			finfo := f.Pkg.TypesInfo
			ast.Inspect(f.Decl.Body, func(m ast.Node) bool {
				switch v := m.(type) {
				case *ast.CallExpr:
					if depth < 3 {
						if fn := calleeFunc(finfo, v); fn != nil && fn.Pkg() == h.t.Obj().Pkg() {
							if callee := h.p.FuncOf(fn); callee != nil && callee != fi {
								scan(callee, depth+1)
							}
						}
					}
				case *ast.AssignStmt:
					for i, l := range v.Lhs {
						if lv, ok := ast.Unparen(l).(*ast.IndexExpr); ok && i < len(v.Rhs) {
							if _, isPtr := finfo.TypeOf(lv).(*types.Pointer); isPtr {
								if rid, ok := ast.Unparen(v.Rhs[i]).(*ast.Ident); ok && rid.Name != "nil" {
									rebuckets = true
								}
							}
						}
					}
				}
				return true
			})
		}
		scan(fi, 0)
		ast.Inspect(fi.Decl.Body, func(m ast.Node) bool {
			as, ok := m.(*ast.AssignStmt)
			if !ok {
				return true
			}
			for i, l := range as.Lhs {
				switch lv := ast.Unparen(l).(type) {
				case *ast.SelectorExpr:
					if id, ok := ast.Unparen(lv.X).(*ast.Ident); ok && id.Name == rn {
						if lv.Sel.Name == "table" {
							installs = true
						}
						if lv.Sel.Name == "count" && i < len(as.Rhs) {
							if k, isC := constIntOf(info, as.Rhs[i]); isC && k == 0 {
								zeroes = true
							}
						}
					}
				}
			}
			return true
		})
		if !installs {
			continue
		}
		n++
		h.r.Check(rebuckets || zeroes, h.pre+".rehash", h.name+"."+fi.Obj.Name()+" installs a table", h.p.Pos(fi.Decl.Pos()), "entries are moved over, or the collection is emptied",
			fi.Obj.Name()+" installs another bucket array without moving the stored entries into it and without resetting the count: every entry stored so far becomes unreachable by key")
	}
	_ = n
}

// fieldsInvariant: the conjunct compares receiver fields, locals and constants only (no calls), and
// none of the fields it reads is assigned in the loop or in a same-receiver method the loop calls
// (transitively): `max > 0` beside `count >= max` in an eviction loop.
func (h *hmapType) fieldsInvariant(fi *core.FuncInfo, cj ast.Expr, loop *ast.ForStmt) bool {
	info := fi.Pkg.TypesInfo
	rn := recvName(fi)
	fields := map[string]bool{}
	pure := true
	ast.Inspect(cj, func(n ast.Node) bool {
		switch v := n.(type) {
		case *ast.CallExpr:
			if tv, ok := info.Types[v.Fun]; !ok || !tv.IsType() {
				pure = false
			}
		case *ast.SelectorExpr:
			if id, ok := ast.Unparen(v.X).(*ast.Ident); ok && id.Name == rn {
				fields[v.Sel.Name] = true
				return false
			}
			pure = false
		case *ast.Ident:
			if lv, ok := info.ObjectOf(v).(*types.Var); ok && !lv.IsField() && v.Name != rn {
				// a local: must not be assigned in the loop
				assigned := false
				ast.Inspect(loop, func(m ast.Node) bool {
					if as, ok := m.(*ast.AssignStmt); ok && m != loop.Init {
						for _, l := range as.Lhs {
							if lid, ok := ast.Unparen(l).(*ast.Ident); ok && info.ObjectOf(lid) == lv {
								assigned = true
							}
						}
					}
					return true
				})
				if assigned {
					pure = false
				}
			}
		}
		return true
	})
	if !pure || len(fields) == 0 {
		return false
	}
	seen := map[*core.FuncInfo]bool{}
	writes := false
	var scan func(body ast.Node, f *core.FuncInfo, depth int)
	scan = func(body ast.Node, f *core.FuncInfo, depth int) {
		finfo := f.Pkg.TypesInfo
		frn := recvName(f)
		ast.Inspect(body, func(n ast.Node) bool {
			switch v := n.(type) {
			case *ast.AssignStmt:
				for _, l := range v.Lhs {
					if sel, ok := ast.Unparen(l).(*ast.SelectorExpr); ok && fields[sel.Sel.Name] {
						if id, ok := ast.Unparen(sel.X).(*ast.Ident); ok && id.Name == frn {
							writes = true
						}
					}
				}
			case *ast.IncDecStmt:
				if sel, ok := ast.Unparen(v.X).(*ast.SelectorExpr); ok && fields[sel.Sel.Name] {
					if id, ok := ast.Unparen(sel.X).(*ast.Ident); ok && id.Name == frn {
						writes = true
					}
				}
			case *ast.UnaryExpr:
				if v.Op == token.AND {
					if sel, ok := ast.Unparen(v.X).(*ast.SelectorExpr); ok && fields[sel.Sel.Name] {
						writes = true
					}
				}
			case *ast.CallExpr:
				if depth < 4 {
					if fn := calleeFunc(finfo, v); fn != nil {
						if cf := h.p.FuncOf(fn); cf != nil && cf.Decl.Body != nil && !seen[cf] {
							if rt := core.RecvNamed(cf.Obj); rt != nil && rt.Obj() == h.t.Obj() {
								seen[cf] = true
								scan(cf.Decl.Body, cf, depth+1)
							}
						}
					}
				}
			}
			return true
		})
	}
	scan(loop.Body, fi, 0)
	if loop.Post != nil {
		scan(loop.Post, fi, 0)
	}
	return !writes
}

// typedNextKind: the typed Next<T>() methods of the enumerator (NextInt, NextLong, NextString, ...) may
// consult a discriminator of their own (isKey) beside the Type that NextElement switches on. With the
// values the constructing method gives, every typed Next must yield want ("keys"/"values"); "" = fine.
func (h *hmapType) typedNextKind(ctor *core.FuncInfo, et *types.Named, want string) string {
	if want != "keys" && want != "values" {
		return ""
	}
	if want == "values" && strings.Contains(h.t.Obj().Name(), "Set") {
		return "" // the values of a set are its keys
	}
	// only the typed Next methods the caller can reach through what the constructor returns
	var allowed map[string]bool
	if rs := ctor.Obj.Type().(*types.Signature).Results(); rs.Len() == 1 {
		if it, ok := rs.At(0).Type().Underlying().(*types.Interface); ok {
			allowed = map[string]bool{}
			for i := 0; i < it.NumMethods(); i++ {
				allowed[it.Method(i).Name()] = true
			}
		}
	}
	for _, m := range h.p.MethodsOf(et) {
		nm := m.Obj.Name()
		if !strings.HasPrefix(nm, "Next") || nm == "NextElement" || m.Decl.Body == nil {
			continue
		}
		if allowed != nil && !allowed[nm] {
			continue
		}
		res := m.Obj.Type().(*types.Signature).Results()
		if res.Len() != 1 || !isBasicType(res.At(0).Type()) {
			continue
		}
		_, exprs, ok := h.enumYieldsX(ctor, nm)
		if !ok {
			continue
		}
		kinds := map[string]bool{}
		for _, e := range exprs {
			s := stripSpaces(types.ExprString(e))
			switch {
			case strings.HasSuffix(s, ".key") || strings.HasSuffix(s, ".Key") || strings.HasSuffix(s, "GetKey()"):
				kinds["keys"] = true
			case strings.HasSuffix(s, ".value") || strings.HasSuffix(s, ".Value") || strings.HasSuffix(s, "GetValue()"):
				kinds["values"] = true
			}
		}
		if len(kinds) == 1 && !kinds[want] {
			got := "keys"
			if kinds["values"] {
				got = "values"
			}
			return fmt.Sprintf("%s builds %s so that %s() yields %s, not %s (the discriminator that method reads is not what the constructor sets)", ctor.Obj.Name(), et.Obj().Name(), nm, got, want)
		}
	}
	return ""
}

// isSortCallName: a sorting entry point of the standard library (sort.Sort/Stable/Slice/SliceStable/
// Strings/Ints, slices.Sort…).
func isSortCallName(pkg, name string) bool {
	switch pkg {
	case "sort":
		switch name {
		case "Sort", "Stable", "Slice", "SliceStable", "Strings", "Ints", "Float64s":
			return true
		}
	case "slices":
		return strings.HasPrefix(name, "Sort")
	}
	return false
}
