package props

import (
	"go/ast"
	"go/constant"
	"go/token"
	"go/types"

	"golibcheck/internal/core"
)

// normalizeConstReceivers: an unexported method on a value receiver of a basic type (`type radix
// int64`; `func (r radix) parse(s string)`) that is only ever called on one constant (`base32.parse`
// with `const base32 radix = 32`) is, for every rule, the function with that constant written in:
// the uses of the receiver inside the method (and plain conversions of it, `int64(r)`) are given the
// constant's value in the type information, so that constant folding, linear forms and the closed-code
// evaluator read `int64(r)` as 32. All call sites are in the package (the method is unexported), so
// the binding holds for every execution; a method value or a second constant leaves it unbound.
func normalizeConstReceivers(p *core.Program) {
	type site struct {
		val constant.Value
		ok  bool
	}
	bind := map[*types.Func]*site{}
	cands := map[*types.Func]*core.FuncInfo{}
	for _, fi := range p.Funcs {
		if fi.Decl.Body == nil || fi.Decl.Recv == nil || len(fi.Decl.Recv.List) == 0 || len(fi.Decl.Recv.List[0].Names) == 0 || fi.Obj.Exported() {
			continue
		}
		sig := fi.Obj.Type().(*types.Signature)
		if sig.Recv() == nil {
			continue
		}
		if _, isBasic := sig.Recv().Type().Underlying().(*types.Basic); !isBasic {
			continue
		}
		cands[fi.Obj] = fi
	}
	if len(cands) == 0 {
		return
	}
	for _, fi := range p.Funcs {
		if fi.Decl.Body == nil {
			continue
		}
		info := fi.Pkg.TypesInfo
		ast.Inspect(fi.Decl.Body, func(n ast.Node) bool {
			sel, ok := n.(*ast.SelectorExpr)
			if !ok {
				return true
			}
			fn, _ := info.Uses[sel.Sel].(*types.Func)
			if fn == nil || cands[fn] == nil {
				return true
			}
			s := bind[fn]
			if s == nil {
				s = &site{ok: true}
				bind[fn] = s
			}
			tv, has := info.Types[sel.X]
			if !has || tv.Value == nil {
				s.ok = false
				return true
			}
			if s.val == nil {
				s.val = tv.Value
			} else if !constant.Compare(s.val, token.EQL, tv.Value) {
				s.ok = false
			}
			return true
		})
	}
	for fn, s := range bind {
		if !s.ok || s.val == nil {
			continue
		}
		fi := cands[fn]
		info := fi.Pkg.TypesInfo
		recv := info.Defs[fi.Decl.Recv.List[0].Names[0]]
		if recv == nil {
			continue
		}
		// the receiver is never assigned in the body
		assigned := false
		ast.Inspect(fi.Decl.Body, func(n ast.Node) bool {
			switch v := n.(type) {
			case *ast.AssignStmt:
				for _, l := range v.Lhs {
					if id, ok := ast.Unparen(l).(*ast.Ident); ok && info.ObjectOf(id) == recv {
						assigned = true
					}
				}
			case *ast.IncDecStmt:
				if id, ok := ast.Unparen(v.X).(*ast.Ident); ok && info.ObjectOf(id) == recv {
					assigned = true
				}
			case *ast.UnaryExpr:
				if id, ok := ast.Unparen(v.X).(*ast.Ident); ok && info.ObjectOf(id) == recv {
					assigned = true // &r
				}
			}
			return true
		})
		if assigned {
			continue
		}
		ast.Inspect(fi.Decl.Body, func(n ast.Node) bool {
			switch v := n.(type) {
			case *ast.Ident:
				if info.Uses[v] == recv {
					if tv, ok := info.Types[v]; ok {
						tv.Value = s.val
						info.Types[v] = tv
					}
				}
			case *ast.CallExpr:
				// a plain conversion of the receiver
				if len(v.Args) == 1 {
					if ftv, ok := info.Types[v.Fun]; ok && ftv.IsType() {
						if id, ok := ast.Unparen(v.Args[0]).(*ast.Ident); ok && info.Uses[id] == recv {
							if tv, ok := info.Types[v]; ok {
								if b, isB := tv.Type.Underlying().(*types.Basic); isB && b.Info()&types.IsInteger != 0 && s.val.Kind() == constant.Int {
									tv.Value = s.val
									info.Types[v] = tv
								}
							}
						}
					}
				}
			}
			return true
		})
	}
}
