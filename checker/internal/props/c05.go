package props

import (
	"fmt"
	"go/ast"
	"go/constant"
	"go/token"
	"go/types"
	"golibcheck/internal/paths"
	"math"
	"strings"

	"golibcheck/internal/bits"
	"golibcheck/internal/core"
	"golibcheck/internal/wire"
)

// C05 — bytes on the wire conform to the collector protocol layout.
// The reference is an independent decoder per pack, written by hand from the protocol layout (field
// order, widths, flags) in the package's own language and analysed as an in-memory overlay; the real
// writers are compared with it by the lock-step walk. A change applied consistently to the Go writer
// AND the Go reader passes C03 but fails here.
func init() { register(&Checker{ID: "C05", Canaries: c05Overlays, Run: runC05}) }

const c05Spec = `package pack

import (
	"github.com/whatap/golib/io"
	"github.com/whatap/golib/lang/value"
)

// ---- reference decoders (protocol layout), never compiled into the library ----

// byte-sized array of 16-bit integers (written by hand here: the reference does not lean on the
// library's own reader, which a clean-up may rename)
func zzSpecShortArray(din *io.DataInputX) []int16 {
	sz := int(din.ReadByte())
	out := make([]int16, sz)
	for i := 0; i < sz; i++ {
		out[i] = din.ReadShort()
	}
	return out
}

func zzSpecHeader(this *AbstractPack, din *io.DataInputX) {
	tag := din.ReadByte()
	if tag == 9 {
		this.Pcode = din.ReadDecimal()
		this.Oid = din.ReadInt()
		this.Okind = din.ReadInt()
		this.Onode = din.ReadInt()
		this.Time = din.ReadLong()
		return
	}
	this.Pcode = din.ReadDecimalLen(int(tag))
	this.Oid = din.ReadInt()
	this.Time = din.ReadLong()
}

func zzSpecTagCountPack(this *TagCountPack, din *io.DataInputX) {
	zzSpecHeader(&this.AbstractPack, din)
	if din.ReadByte() != 0 {
		panic("version")
	}
	this.Category = din.ReadText()
	this.tagHash = din.ReadDecimal()
	this.Tags = value.ReadValue(din).(*value.MapValue)
	this.Data = value.ReadValue(din).(*value.MapValue)
}

func zzSpecLogSinkPack(this *LogSinkPack, din *io.DataInputX) {
	zzSpecHeader(&this.AbstractPack, din)
	if din.ReadByte() != 0 {
		panic("version")
	}
	this.Category = din.ReadText()
	this.TagHash = din.ReadDecimal()
	this.Tags = value.ReadValue(din).(*value.MapValue)
	this.Line = din.ReadDecimal()
	this.Content = din.ReadText()
	if din.ReadBool() {
		this.Fields = value.ReadValue(din).(*value.MapValue)
	}
}

func zzSpecTextPack(this *TextPack, din *io.DataInputX) {
	zzSpecHeader(&this.AbstractPack, din)
	n := int(din.ReadDecimal())
	this.records = make([]TextRec, n)
	for i := 0; i < n; i++ {
		this.records[i].Div = din.ReadByte()
		this.records[i].Hash = din.ReadInt()
		this.records[i].Text = din.ReadText()
	}
}

func zzSpecParamPack(this *ParamPack, din *io.DataInputX) {
	zzSpecHeader(&this.AbstractPack, din)
	this.Id = din.ReadInt()
	this.Request = din.ReadDecimal()
	this.Response = din.ReadDecimal()
	n := int(din.ReadDecimal())
	for i := 0; i < n; i++ {
		k := din.ReadText()
		v := value.ReadValue(din)
		this.table.Put(k, v)
	}
}

func zzSpecEventPack(this *EventPack, din *io.DataInputX) {
	zzSpecHeader(&this.AbstractPack, din)
	this.Level = din.ReadByte()
	this.Title = din.ReadText()
	this.Message = din.ReadText()
	n := int(din.ReadByte())
	for i := 0; i < n; i++ {
		k := din.ReadText()
		v := din.ReadText()
		this.Attr.Put(k, v)
	}
}

func zzSpecZipPack(this *ZipPack, din *io.DataInputX) {
	zzSpecHeader(&this.AbstractPack, din)
	this.Status = din.ReadByte()
	this.RecordCount = int(din.ReadDecimal())
	this.Records = din.ReadBlob()
}

func zzSpecHitMapPack1(this *HitMapPack1, din *io.DataInputX) {
	zzSpecHeader(&this.AbstractPack, din)
	if din.ReadByte() != 1 {
		panic("version")
	}
	for i := 0; i < 120; i++ {
		this.Hit[i] = int32(din.ReadShort()) & 0xffff
		this.Error[i] = int32(din.ReadShort()) & 0xffff
	}
}

func zzSpecCounterPack1(this *CounterPack1, in *io.DataInputX) {
	zzSpecHeader(&this.AbstractPack, in)
	din := io.NewDataInputX(in.ReadBlob())
	this.Duration = int32(din.ReadDecimal())
	this.Cputime = din.ReadDecimal()
	this.HeapTot = din.ReadDecimal()
	this.HeapUse = din.ReadDecimal()
	this.HeapPerm = din.ReadDecimal()
	this.HeapPendingFinalization = int32(din.ReadDecimal())
	this.GcCount = int32(din.ReadDecimal())
	this.GcTime = din.ReadDecimal()
	this.ServiceCount = int32(din.ReadDecimal())
	this.ServiceError = int32(din.ReadDecimal())
	this.ServiceTime = din.ReadDecimal()
	this.SqlCount = int32(din.ReadDecimal())
	this.SqlError = int32(din.ReadDecimal())
	this.SqlTime = din.ReadDecimal()
	this.SqlFetchCount = din.ReadDecimal()
	this.SqlFetchTime = din.ReadDecimal()
	this.HttpcCount = int32(din.ReadDecimal())
	this.HttpcError = int32(din.ReadDecimal())
	this.HttpcTime = din.ReadDecimal()
	this.ActSvcCount = int32(din.ReadDecimal())
	this.ActSvcSlice = zzSpecShortArray(din)
	this.Cpu = din.ReadFloat()
	this.CpuSys = din.ReadFloat()
	this.CpuUsr = din.ReadFloat()
	this.CpuWait = din.ReadFloat()
	this.CpuSteal = din.ReadFloat()
	this.CpuIrq = din.ReadFloat()
	this.CpuProc = din.ReadFloat()
	this.CpuCores = int32(din.ReadDecimal())
	this.Mem = din.ReadFloat()
	this.Swap = din.ReadFloat()
	this.Disk = din.ReadFloat()
	this.ThreadTotalStarted = din.ReadDecimal()
	this.ThreadCount = int32(din.ReadDecimal())
	this.ThreadDaemon = int32(din.ReadDecimal())
	this.ThreadPeakCount = int32(din.ReadDecimal())
	if din.ReadByte() == 1 {
		this.DbNumActive.ToObject(din)
		this.DbNumIdle.ToObject(din)
	}
	if din.ReadByte() == 1 {
		this.Netstat.Est = int32(din.ReadDecimal())
		this.Netstat.FinW = int32(din.ReadDecimal())
		this.Netstat.CloW = int32(din.ReadDecimal())
		this.Netstat.TimW = int32(din.ReadDecimal())
	}
	this.ProcFd = int32(din.ReadDecimal())
	this.Tps = din.ReadFloat()
	this.RespTime = int32(din.ReadDecimal())
	this.ApType = din.ReadShort()
	if din.ReadByte() == 1 {
		this.Websocket.Count = int32(din.ReadDecimal())
		this.Websocket.In = din.ReadDecimal()
		this.Websocket.Out = din.ReadDecimal()
	}
	this.Starttime = din.ReadDecimal()
	this.PackDropped = din.ReadDecimal()
	this.HostIp = int32(din.ReadDecimal())
	this.MacHash = int32(din.ReadDecimal())
	if din.ReadByte() == 1 {
		this.Extra = value.ReadValue(din).(*value.IntMapValue)
	}
	this.Pid = din.ReadInt()
	n := int(din.ReadByte())
	for i := 0; i < n; i++ {
		this.ActiveStat[i] = din.ReadShort()
	}
	this.ThreadPoolActiveCount = int32(din.ReadDecimal())
	this.ThreadPoolQueueSize = int32(din.ReadDecimal())
	this.readTxcallerOidMeter(din)
	this.readSqlMeter(din)
	this.readHttpcMeter(din)
	this.readTxcallerGroupMeter(din)
	if din.ReadDecimal() != 0 { // deprecated okind meter: always empty
		panic("deprecated section")
	}
	this.readTxcallerUnknown(din)
	this.ContainerKey = int32(din.ReadDecimal())
	this.TxDbcTime = din.ReadFloat()
	this.TxSqlTime = din.ReadFloat()
	this.TxHttpcTime = din.ReadFloat()
	this.ApdexSatisfied = int32(din.ReadDecimal())
	this.ApdexTolerated = int32(din.ReadDecimal())
	this.ArrivalRate = din.ReadFloat()
	this.GcOldgenCount = int32(din.ReadDecimal())
	this.Version = din.ReadByte()
	this.HeapMax = din.ReadDecimal()
	this.ProcFdMax = int32(din.ReadDecimal())
	this.Metering = din.ReadFloat()
	this.ApdexTotal = int32(din.ReadDecimal())
	this.zzSpecPOidMeter(din)
	this.Resp90 = int32(din.ReadDecimal())
	this.Resp95 = int32(din.ReadDecimal())
	this.TimeSqrSum = din.ReadDecimal()
}

// caller-POID meter as the protocol defines it: count, then per entry pcode, oid, time, count, error, actx
func (this *CounterPack1) zzSpecPOidMeter(din *io.DataInputX) {
	n := int(din.ReadDecimal())
	for i := 0; i < n; i++ {
		din.ReadDecimal()
		din.ReadDecimal()
		din.ReadDecimal()
		din.ReadDecimal()
		din.ReadDecimal()
		din.ReadDecimal()
	}
}
`

func c05Overlays() []core.Canary {
	return []core.Canary{{RelDir: "lang/pack", Name: "c05", Src: c05Spec, Spec: true},
		{RelDir: "lang/pack", Name: "c05c", Src: `package pack

import "github.com/whatap/golib/io"

type zzCanaryLayout struct {
	A int32
	B int64
}

// writer and "its" reader agree with each other, the reference says otherwise (the canary stands on
// its own: it must fire whatever state the real header writer is in)
func (this *zzCanaryLayout) Write(o *io.DataOutputX) {
	o.WriteLong(this.B)
	o.WriteInt(this.A)
}
func zzSpecCanaryLayout(this *zzCanaryLayout, din *io.DataInputX) {
	this.A = din.ReadInt()
	this.B = din.ReadLong()
}
`, Expect: []core.CanaryExpect{{Rule: "C05.bodies", Sub: "zzCanaryLayout"}}}}
}

var c05Packs = []string{"AbstractPack", "TagCountPack", "LogSinkPack", "TextPack", "ParamPack", "EventPack", "ZipPack", "HitMapPack1", "CounterPack1", "zzCanaryLayout"}

func runC05(p *core.Program, r *core.Report) {
	r.Explanation = "Layout conformance against an independent reference. For the common header and the eight listed packs a reference decoder was written by hand from the protocol layout (field order, widths, flags, version bytes, nested blob) in Go and is type-checked with the package as an in-memory overlay; each real writer is compared with its reference decoder by the lock-step wire-grammar walk over every joint path (kinds, order, constants via the reader's version checks, counts, field labels, presence conditions). The TCP frame is checked structurally: makeData emits Short(pack type)+body and then WriteHeader(10, 0, pack's pcode, Hash64Str(per-send license or client license)) built from a fresh option struct; WriteHeader re-emits Byte Byte Long Long IntBytes(previous buffer) in that argument order. Hash64 is the stated table-driven CRC variant (bit-level step, init, final; table = IEEE reflected CRC-32 table regenerated by the checker)."
	r.NotDecided = []string{"byte-for-byte equality for concrete values (follows from layout + C01, not executed)", "whether the hand-written reference is what the real collector expects (frozen from the reviewed writers and the Java field comments)", "meter sub-sections of CounterPack1 are delegated to the library's own meter readers (their agreement is a C03 obligation), except the caller-POID meter"}
	r.Assumptions = []string{"fixed-width io primitive layouts (C01.pack)", "value codec (C02)"}
	x := wire.NewExtractor(p)
	r.Rule("C05.bodies", "writer of the header and of each listed pack agrees with the hand-written reference decoder on every joint path", 9)
	r.Rule("C05.fields", "each position carries the field the reference names", 9)
	r.Rule("C05.countlink", "repetitions are driven by the count the reference expects", 9)
	r.Rule("C05.frame", "makeData: Short(type)+body, then WriteHeader(10,0,pcode,Hash64Str(license in effect)) from a fresh option struct; WriteHeader = Byte Byte Long Long IntBytes(prev)", 6)
	r.Rule("C05.unaltered", "a function that encodes packs it was handed (zip/composite record writers) does not change them around the encoding", 1)
	encodesUnaltered(p, wire.NewExtractor(p), r, "C05.unaltered", []string{"lang/pack"})
	r.Rule("C05.encodings", "variable-length decimal classes (tag k + k big-endian bytes, shortest class) and blob/text length classes (<=253 / 255+u16 / 254+i32) are the protocol's", 20)
	r.Rule("C05.taghash", "a log-sink pack that changes its own tag map invalidates the cached tag hash on every path that changed it, and Write emits the hash in force after its lazy recomputation (the hash written in front of the tags is the hash of those tags)", 2)
	r.Rule("C05.crc", "Hash64 is the table-driven CRC variant: init all-ones, step (acc>>8)^sext32(T[(acc^b)&0xff]), final complement; table = IEEE CRC-32", 259)

	var pairs []codecPair
	for _, name := range c05Packs {
		w := p.Method("lang/pack", name, "Write")
		specName := "zzSpec" + name
		if name == "AbstractPack" {
			specName = "zzSpecHeader"
		}
		if name == "zzCanaryLayout" {
			specName = "zzSpecCanaryLayout"
		}
		s := p.Func("lang/pack", specName)
		c := "lang/pack.(*" + name + ").Write ~ reference"
		if w == nil || s == nil {
			r.Undec("C05.bodies", c, "-", "writer or reference decoder not found")
			continue
		}
		wo, _ := x.StreamParams(w)
		_, si := x.StreamParams(s)
		if len(wo) != 1 || len(si) != 1 {
			r.Undec("C05.bodies", c, "-", "stream parameters not found")
			continue
		}
		pairs = append(pairs, codecPair{W: w, R: s, WS: wo[0], RS: si[0], Name: c})
	}
	runPairs(p, x, r, pairs, pairRules{"C05.bodies", "C05.fields", "C05.countlink"}, 6)

	c05Frame(p, r, "C05.frame", false)
	// the frames reach the socket as one stream of whole frames (shared with C06.single-writer)
	if pk := p.Pkg("net/oneway"); pk != nil {
		if tn, _ := pk.Types.Scope().Lookup("OneWayTcpClient").(*types.TypeName); tn != nil {
			oneChannelToSocket(p, r, "C05.frame", tn.Type().(*types.Named))
		}
	}
	c05TagHash(p, r, "C05.taghash")
	c05HashGuard(p, r, "C05.taghash")
	// the variable-length encodings the bodies are made of (same rules as C01, reported under C05:
	// a changed length class changes the bytes of every pack that carries such a field)
	c01Decimal(p, r, &bits.Interp{P: p}, "C05.encodings")
	c01Blob(p, r, "C05.encodings")
	checkCRCTable(p, r, "C05.crc")
	checkCRCFunc(p, r, "C05.crc", "util/hash", "Hash64", 64, true)
	// Hash64Str(s) = Hash64([]byte(s))
	if fi := p.Func("util/hash", "Hash64Str"); fi != nil && len(fi.Decl.Body.List) == 1 {
		ok := false
		if rs, isR := fi.Decl.Body.List[0].(*ast.ReturnStmt); isR && len(rs.Results) == 1 {
			if call, isC := rs.Results[0].(*ast.CallExpr); isC && isCallTo(fi.Pkg.TypesInfo, call, core.ModPath+"/util/hash", "Hash64") && len(call.Args) == 1 {
				if conv, isConv := call.Args[0].(*ast.CallExpr); isConv && len(conv.Args) == 1 && types.ExprString(conv.Fun) == "[]byte" {
					ok = true
				}
			}
		}
		r.Check(ok, "C05.crc", "util/hash.Hash64Str", p.Pos(fi.Decl.Pos()), "Hash64 of the string's bytes", "Hash64Str is not Hash64([]byte(s))")
	} else {
		r.Undec("C05.crc", "util/hash.Hash64Str", "-", "not found or not a single return")
	}
}

// c05Frame: structural rule over makeData and WriteHeader.
// c05Frame checks the TCP frame construction. It is shared with C06 (rule id given by the caller):
// with optsOnly it decides only the license-in-effect clauses (fresh per-send option struct, header
// license selection).
func c05Frame(p *core.Program, r *core.Report, rule string, optsOnly bool) {
	wh := p.Method("io", "DataOutputX", "WriteHeader")
	if optsOnly {
	} else if wh == nil {
		r.Undec(rule, "io.(*DataOutputX).WriteHeader", "-", "not found")
	} else {
		info := wh.Pkg.TypesInfo
		var params []string
		for _, f := range wh.Decl.Type.Params.List {
			for _, n := range f.Names {
				params = append(params, n.Name)
			}
		}
		// the stream operations of WriteHeader in order (helpers on the same stream are followed):
		// Byte(source) Byte(version) Long(pcode) Long(license hash) IntBytes(<copy of what was written before>)
		hp, herr := evalClasses(p, wh, ivl{0, 0}, func(*classEval, *ceState, ast.Expr) bool { return false }, nil, isWritePrim)
		want := ""
		if len(params) == 4 {
			want = fmt.Sprintf("WriteByte(%s) WriteByte(%s) WriteLong(%s) WriteLong(%s) WriteIntBytes", params[0], params[1], params[2], params[3])
		}
		got := ""
		lastArg := ""
		if herr == "" && len(hp) == 1 {
			var seq []string
			for i, em := range hp[0].Emits {
				if i == len(hp[0].Emits)-1 && em.Method == "WriteIntBytes" {
					seq = append(seq, "WriteIntBytes")
					if len(em.Args) == 1 {
						lastArg = em.Args[0]
					}
				} else {
					seq = append(seq, em.Method+"("+strings.Join(em.Args, ",")+")")
				}
			}
			got = strings.Join(seq, " ")
		} else {
			got = "not a single straight-line sequence: " + herr
		}
		// the body: copied out of the buffer before the buffer is reset (in WriteHeader or the helper it uses)
		copied := false
		for _, fi := range p.MethodsOf(namedIn(p, "io", "DataOutputX")) {
			if fi.Decl.Body == nil {
				continue
			}
			var resetPos, copyPos token.Pos
			ast.Inspect(fi.Decl.Body, func(n ast.Node) bool {
				call, ok := n.(*ast.CallExpr)
				if !ok {
					return true
				}
				if sel, ok := call.Fun.(*ast.SelectorExpr); ok && sel.Sel.Name == "Reset" && resetPos == 0 {
					resetPos = call.Pos()
				}
				if id, ok := call.Fun.(*ast.Ident); ok && id.Name == "copy" && len(call.Args) == 2 && copyPos == 0 {
					copyPos = call.Pos()
				}
				return true
			})
			// a store that is a plain byte slice is reset by re-slicing it to no elements (x.buf = x.buf[:0])
			// or by dropping it (x.buf = nil)
			ast.Inspect(fi.Decl.Body, func(n ast.Node) bool {
				as, ok := n.(*ast.AssignStmt)
				if !ok || len(as.Lhs) != 1 || len(as.Rhs) != 1 || resetPos != 0 {
					return true
				}
				ls, ok := ast.Unparen(as.Lhs[0]).(*ast.SelectorExpr)
				if !ok || !isByteSlice(fi.Pkg.TypesInfo.TypeOf(ls)) {
					return true
				}
				switch rv := ast.Unparen(as.Rhs[0]).(type) {
				case *ast.Ident:
					if rv.Name == "nil" {
						resetPos = as.Pos()
					}
				case *ast.SliceExpr:
					if rv.High != nil && types.ExprString(rv.X) == types.ExprString(ls) {
						if k, ok := constIntOf(fi.Pkg.TypesInfo, rv.High); ok && k == 0 {
							resetPos = as.Pos()
						}
					}
				}
				return true
			})
			reaches := fi == wh
			if !reaches {
				ast.Inspect(wh.Decl.Body, func(n ast.Node) bool {
					if call, ok := n.(*ast.CallExpr); ok {
						if sel, ok := call.Fun.(*ast.SelectorExpr); ok && info.Uses[sel.Sel] == fi.Obj {
							reaches = true
						}
					}
					return true
				})
			}
			if reaches && resetPos != 0 && copyPos != 0 && copyPos < resetPos {
				copied = true
			}
		}
		fresh := strings.HasPrefix(lastArg, "make(") || lastArg == "t"
		if got != want && strings.Contains(got, "WriteBytes(") {
			// the header is assembled in a byte buffer and written at once: this rule reads the header
			// as a sequence of typed writes and cannot see into the buffer
			if why := c05HeaderBytes(p, wh); why == "" {
				r.OK(rule, "io.(*DataOutputX).WriteHeader layout", p.Pos(wh.Decl.Pos()), "byte level: source, version, pcode and license hash big-endian, then the length-prefixed copy of the body taken before the reset")
			} else {
				r.Viol(rule, "io.(*DataOutputX).WriteHeader layout", p.Pos(wh.Decl.Pos()), fmt.Sprintf("header is emitted as %q; byte level: %s", got, why))
			}
		} else {
			r.Check(copied && fresh && got == want && want != "", rule, "io.(*DataOutputX).WriteHeader layout", p.Pos(wh.Decl.Pos()),
				"copies the body, resets, then "+want+"(copy)", fmt.Sprintf("header is emitted as %q (body copied before reset: %v, length-prefixed copy appended: %v); want %q", got, copied, fresh, want))
		}
	}
	md := p.Method("net/oneway", "OneWayTcpClient", "makeData")
	if md == nil {
		r.Undec(rule, "net/oneway.(*OneWayTcpClient).makeData", "-", "not found")
		return
	}
	info := md.Pkg.TypesInfo
	pos := p.Pos(md.Decl.Pos())
	// 1. option struct is a fresh literal local
	var optObj types.Object
	fresh := false
	ast.Inspect(md.Decl.Body, func(n ast.Node) bool {
		if rs, ok := n.(*ast.RangeStmt); ok {
			ast.Inspect(rs.Body, func(m ast.Node) bool {
				if call, ok := m.(*ast.CallExpr); ok {
					if sel, ok := call.Fun.(*ast.SelectorExpr); ok && sel.Sel.Name == "Apply" && len(call.Args) == 1 {
						if id, ok := call.Args[0].(*ast.Ident); ok {
							optObj = info.ObjectOf(id)
						}
					}
				}
				return true
			})
		}
		return true
	})
	if optObj != nil {
		ast.Inspect(md.Decl.Body, func(n ast.Node) bool {
			if as, ok := n.(*ast.AssignStmt); ok && len(as.Lhs) == 1 && len(as.Rhs) == 1 {
				if id, ok := as.Lhs[0].(*ast.Ident); ok && info.Defs[id] == optObj {
					e := as.Rhs[0]
					if u, ok := e.(*ast.UnaryExpr); ok {
						e = u.X
					}
					if cl, ok := e.(*ast.CompositeLit); ok && len(cl.Elts) == 0 {
						fresh = true
					}
				}
			}
			return true
		})
	}
	if optObj == nil {
		// the folding of the options may live in a helper: o := resolve(opts) where resolve makes a fresh
		// zero-valued struct, applies every option to it in a range loop and returns it
		ast.Inspect(md.Decl.Body, func(n ast.Node) bool {
			as, ok := n.(*ast.AssignStmt)
			if !ok || len(as.Lhs) != 1 || len(as.Rhs) != 1 || optObj != nil {
				return true
			}
			call, ok := ast.Unparen(as.Rhs[0]).(*ast.CallExpr)
			if !ok {
				return true
			}
			hf := p.FuncOf(calleeFunc(info, call))
			if hf == nil || hf.Decl.Body == nil {
				return true
			}
			hinfo := hf.Pkg.TypesInfo
			var applied types.Object
			ast.Inspect(hf.Decl.Body, func(m ast.Node) bool {
				if rs, ok := m.(*ast.RangeStmt); ok {
					ast.Inspect(rs.Body, func(k ast.Node) bool {
						if c, ok := k.(*ast.CallExpr); ok {
							if sel, ok := c.Fun.(*ast.SelectorExpr); ok && sel.Sel.Name == "Apply" && len(c.Args) == 1 {
								if id, ok := c.Args[0].(*ast.Ident); ok {
									applied = hinfo.ObjectOf(id)
								}
							}
						}
						return true
					})
				}
				return true
			})
			if applied == nil {
				return true
			}
			hfresh, returned := false, false
			ast.Inspect(hf.Decl.Body, func(m ast.Node) bool {
				switch v := m.(type) {
				case *ast.AssignStmt:
					if len(v.Lhs) == 1 && len(v.Rhs) == 1 {
						if id, ok := v.Lhs[0].(*ast.Ident); ok && hinfo.Defs[id] == applied {
							e := v.Rhs[0]
							if u, ok := e.(*ast.UnaryExpr); ok {
								e = u.X
							}
							if cl, ok := e.(*ast.CompositeLit); ok && len(cl.Elts) == 0 {
								hfresh = true
							}
						}
					}
				case *ast.ReturnStmt:
					if len(v.Results) == 1 {
						if id, ok := ast.Unparen(v.Results[0]).(*ast.Ident); ok && hinfo.ObjectOf(id) == applied {
							returned = true
						}
					}
				}
				return true
			})
			if hfresh && returned {
				if id, ok := as.Lhs[0].(*ast.Ident); ok {
					optObj = info.ObjectOf(id)
					fresh = true
				}
			}
			return true
		})
	}
	r.Check(optObj != nil && fresh, rule, "net/oneway.makeData per-send options", pos, "options are applied to a fresh zero-valued struct on every send",
		"the per-send options are not applied to a fresh struct created in makeData: a license override of one send can leak into later sends")
	// 2./3. partition evaluation of makeData over "per-send license empty / non-empty": on every path
	// the stream receives Short(pack type), the pack body, then exactly one header whose license hash
	// is taken from the per-send option when it is non-empty and from the client otherwise. Locals,
	// if/else vs. pre-selected variable, named constants and branch order are normalised away.
	isOptLicense := func(ce *classEval, st *ceState, e ast.Expr) bool {
		sel, ok := e.(*ast.SelectorExpr)
		if !ok || sel.Sel.Name != "License" || optObj == nil {
			return false
		}
		id, ok := ast.Unparen(sel.X).(*ast.Ident)
		return ok && ce.info.ObjectOf(id) == optObj
	}
	var recvObj types.Object
	if md.Decl.Recv != nil && len(md.Decl.Recv.List) == 1 && len(md.Decl.Recv.List[0].Names) == 1 {
		recvObj = info.Defs[md.Decl.Recv.List[0].Names[0]]
	}
	cpaths, cerr := evalClassesOpt(p, md, ivl{0, math.MaxInt64},
		func(*classEval, *ceState, ast.Expr) bool { return false }, nil, func(string) bool { return true },
		func(ce *classEval) {
			ce.noRecv = true
			ce.emptyMeansZero = isOptLicense
			ce.isStream = func(o types.Object) bool { return strings.HasSuffix(o.Type().String(), "io.DataOutputX") }
		})
	if cerr != "" {
		r.Undec(rule, "net/oneway.makeData", pos, "cannot enumerate makeData: "+cerr)
		return
	}
	resolve := func(env map[types.Object]ast.Expr, e ast.Expr) ast.Expr {
		for i := 0; i < 10; i++ {
			e = ast.Unparen(e)
			if id, ok := e.(*ast.Ident); ok {
				if sub, ok := env[info.ObjectOf(id)]; ok {
					e = sub
					continue
				}
			}
			if call, ok := e.(*ast.CallExpr); ok && len(call.Args) == 1 {
				if tv, ok := info.Types[call.Fun]; ok && tv.IsType() {
					e = call.Args[0]
					continue
				}
			}
			return e
		}
		return e
	}
	// methodOn: e is X.name(...) -> canonical text of X
	methodOn := func(env map[types.Object]ast.Expr, e ast.Expr, name string) (string, bool) {
		call, ok := resolve(env, e).(*ast.CallExpr)
		if !ok {
			return "", false
		}
		sel, ok := call.Fun.(*ast.SelectorExpr)
		if !ok || sel.Sel.Name != name {
			return "", false
		}
		return types.ExprString(resolve(env, sel.X)), true
	}
	bodyBad, hdrBad := "", map[bool]string{}
	seen := map[bool]bool{}
	for i := range cpaths {
		pth := &cpaths[i]
		override := !pth.Set.contains(0)
		if pth.Set.contains(0) && pth.Set.contains(1) {
			hdrBad[true] = "the header does not depend on whether a per-send license was given"
			hdrBad[false] = hdrBad[true]
		}
		seen[override] = true
		var hdrs []ceEmit
		var pre []ceEmit
		for _, em := range pth.Emits {
			if em.Method == "WriteHeader" {
				hdrs = append(hdrs, em)
			} else if len(hdrs) == 0 {
				pre = append(pre, em)
			} else if bodyBad == "" {
				bodyBad = "stream operation " + em.Method + " after the header"
			}
		}
		packX := ""
		if len(pre) != 2 || pre[0].Method != "WriteShort" || len(pre[0].Call.Args) != 1 || !strings.HasPrefix(pre[1].Method, "pass:") || !strings.HasSuffix(pre[1].Method, ".Write") {
			if bodyBad == "" {
				bodyBad = fmt.Sprintf("stream operations before the header are [%s]; want Short(pack type) then the pack's Write", emitNames(pre))
			}
		} else {
			x0, ok0 := methodOn(pre[0].Env, pre[0].Call.Args[0], "GetPackType")
			var x1 string
			if sel, ok := pre[1].Call.Fun.(*ast.SelectorExpr); ok {
				x1 = types.ExprString(resolve(pre[1].Env, sel.X))
			}
			if !ok0 || x0 != x1 {
				if bodyBad == "" {
					bodyBad = "the type code written is not GetPackType() of the pack whose body follows"
				}
			}
			packX = x0
		}
		if len(hdrs) != 1 || len(hdrs[0].Call.Args) != 4 {
			hdrBad[override] = fmt.Sprintf("%d WriteHeader calls on this path; want exactly one with four arguments", len(hdrs))
			continue
		}
		h := hdrs[0]
		a0, ok0 := constIntOf(info, resolve(h.Env, h.Call.Args[0]))
		a1, ok1 := constIntOf(info, resolve(h.Env, h.Call.Args[1]))
		px, okp := methodOn(h.Env, h.Call.Args[2], "GetPCODE")
		what := ""
		if !(ok0 && ok1 && a0 == 10 && a1 == 0) {
			what = "source/version bytes are not (10, 0)"
		} else if !okp || (packX != "" && px != packX) {
			what = "the project code is not GetPCODE() of the pack being sent"
		} else if hc, ok := resolve(h.Env, h.Call.Args[3]).(*ast.CallExpr); !ok || !isCallTo(info, hc, core.ModPath+"/util/hash", "Hash64Str") || len(hc.Args) != 1 {
			what = "the license field is not Hash64Str(<license>)"
		} else {
			lic := resolve(h.Env, hc.Args[0])
			sel, isSel := lic.(*ast.SelectorExpr)
			var base types.Object
			if isSel {
				if id, isId := ast.Unparen(sel.X).(*ast.Ident); isId {
					base = info.ObjectOf(id)
				}
			}
			switch {
			case !isSel || sel.Sel.Name != "License" || base == nil:
				what = "the hashed license is " + types.ExprString(lic) + ", not a License field read at send time"
			case override && base != optObj:
				what = "a per-send license was given but the header hashes " + types.ExprString(lic)
			case !override && base != recvObj:
				what = "no per-send license was given but the header hashes " + types.ExprString(lic) + " instead of the client's License"
			}
		}
		if what != "" && hdrBad[override] == "" {
			hdrBad[override] = what
		}
	}
	if !optsOnly {
		r.Check(bodyBad == "", rule, "net/oneway.makeData body", pos, "Short(pack type), pack body, then the header", bodyBad)
	}
	r.Check(seen[true] && hdrBad[true] == "", rule, "net/oneway.makeData header(per-send license)", pos, "WriteHeader(10, 0, pack's pcode, Hash64Str(per-send license)) when the option is non-empty", orStr(hdrBad[true], "no path for a non-empty per-send license"))
	r.Check(seen[false] && hdrBad[false] == "", rule, "net/oneway.makeData header(client license)", pos, "WriteHeader(10, 0, pack's pcode, Hash64Str(client License)) otherwise", orStr(hdrBad[false], "no path for an empty per-send license"))
	r.Check(seen[true] && seen[false] && hdrBad[true] == "" && hdrBad[false] == "", rule, "net/oneway.makeData license selection", pos,
		"per-send license when non-empty, else the client's", "the license hashed into the header is not selected as: per-send override if non-empty, otherwise the client's current License")
}

// c05TagHash: LogSinkPack caches the hash of its tag map (TagHash, recomputed by Write only when it
// is 0). Every method of the pack that puts into / removes from Tags must reset TagHash (or recompute
// it) after the last such change on every feasible path; flags set on the way (changed = true) are
// tracked, so `if changed { TagHash = 0 }` is fine exactly when every changing branch sets the flag.
func c05TagHash(p *core.Program, r *core.Report, rule string) {
	t := namedIn(p, "lang/pack", "LogSinkPack")
	if t == nil {
		r.Undec(rule, "lang/pack.LogSinkPack", "-", "type not found")
		return
	}
	n := 0
	for _, fi := range p.MethodsOf(t) {
		if fi.Decl.Body == nil || fi.Obj.Name() == "Read" || fi.Obj.Name() == "ResetTagHash" {
			continue
		}
		info := fi.Pkg.TypesInfo
		rn := recvName(fi)
		norm := func(e ast.Expr) string { return strings.ReplaceAll(stripSpaces(types.ExprString(e)), rn+".", "") }
		mut := false
		ps, over := paths.Enumerate(fi.Decl.Body, paths.Config{Info: info,
			Cond: func(c ast.Expr, v bool) *paths.Event {
				return &paths.Event{Kind: "COND", Arg: condKey(info, norm, c, v), Pos: c.Pos()}
			},
			Classify: func(m ast.Node) []paths.Event {
				var out []paths.Event
				if as, ok := m.(*ast.AssignStmt); ok && len(as.Lhs) == len(as.Rhs) {
					for i, l := range as.Lhs {
						if norm(l) == "TagHash" {
							out = append(out, paths.Event{Kind: "HASHRESET", Pos: as.Pos()})
						}
						if id, ok := l.(*ast.Ident); ok {
							if tv, ok := info.Types[as.Rhs[i]]; ok && tv.Value != nil && tv.Value.Kind() == constant.Bool {
								out = append(out, paths.Event{Kind: "FLAG", Arg: fmt.Sprintf("%s=%v", id.Name, constant.BoolVal(tv.Value)), Pos: as.Pos()})
							}
						}
					}
				}
				ast.Inspect(m, func(k ast.Node) bool {
					call, ok := k.(*ast.CallExpr)
					if !ok {
						return true
					}
					sel, ok := call.Fun.(*ast.SelectorExpr)
					if !ok {
						return true
					}
					if norm(sel.X) == "Tags" && (strings.HasPrefix(sel.Sel.Name, "Put") || strings.HasPrefix(sel.Sel.Name, "Remove") || sel.Sel.Name == "Clear") {
						mut = true
						out = append(out, paths.Event{Kind: "TAGPUT", Arg: sel.Sel.Name, Pos: call.Pos()})
					}
					if sel.Sel.Name == "ResetTagHash" {
						out = append(out, paths.Event{Kind: "HASHRESET", Pos: call.Pos()})
					}
					return true
				})
				return out
			}})
		if !mut {
			continue
		}
		n++
		c := core.FuncName(fi.Obj)
		pos := p.Pos(fi.Decl.Pos())
		if over {
			r.Undec(rule, c, pos, "too many paths")
			continue
		}
		bad := ""
		for _, pa := range ps {
			if !pa.Consistent() {
				continue
			}
			li := pa.LastIndex("TAGPUT")
			if li < 0 {
				continue
			}
			reset := false
			for _, e := range pa[li+1:] {
				if e.Kind == "HASHRESET" {
					reset = true
				}
			}
			if !reset && bad == "" {
				bad = "the tag map is changed (" + pa[li].Arg + ") on a path that leaves the cached TagHash as it was: the next Write emits the old hash in front of the new tags: " + pa.String()
			}
		}
		r.Check(bad == "", rule, c, pos, "TagHash reset after the last change of Tags on every path", bad)
	}
	if n == 0 {
		r.Undec(rule, "lang/pack.LogSinkPack", "-", "no method changes the tag map")
	}
	// Write: where the hash is recomputed lazily, the hash put on the wire must be the recomputed one
	// (the WriteDecimal of TagHash comes after ResetTagHash on that path), not the stale 0
	if w := p.Method("lang/pack", "LogSinkPack", "Write"); w != nil && w.Decl.Body != nil {
		info := w.Pkg.TypesInfo
		rn := recvName(w)
		norm := func(e ast.Expr) string { return strings.ReplaceAll(stripSpaces(types.ExprString(e)), rn+".", "") }
		ps, over := paths.Enumerate(w.Decl.Body, paths.Config{Info: info,
			Cond: func(c ast.Expr, v bool) *paths.Event {
				return &paths.Event{Kind: "COND", Arg: condKey(info, norm, c, v), Pos: c.Pos()}
			},
			Classify: func(m ast.Node) []paths.Event {
				var out []paths.Event
				ast.Inspect(m, func(k ast.Node) bool {
					call, ok := k.(*ast.CallExpr)
					if !ok {
						return true
					}
					sel, ok := call.Fun.(*ast.SelectorExpr)
					if !ok {
						return true
					}
					// inner calls first (arguments are evaluated before the call)
					for _, a := range call.Args {
						ast.Inspect(a, func(q ast.Node) bool {
							if ic, ok := q.(*ast.CallExpr); ok {
								if is, ok := ic.Fun.(*ast.SelectorExpr); ok && is.Sel.Name == "ResetTagHash" {
									out = append(out, paths.Event{Kind: "HASHRESET", Pos: ic.Pos()})
								}
							}
							return true
						})
					}
					if sel.Sel.Name == "ResetTagHash" {
						out = append(out, paths.Event{Kind: "HASHRESET", Pos: call.Pos()})
						return false
					}
					if strings.HasPrefix(sel.Sel.Name, "Write") && len(call.Args) == 1 && norm(call.Args[0]) == "TagHash" {
						out = append(out, paths.Event{Kind: "WRITEHASH", Pos: call.Pos()})
					}
					return true
				})
				return out
			}})
		c := core.FuncName(w.Obj) + " hash before tags"
		pos := p.Pos(w.Decl.Pos())
		if over {
			r.Undec(rule, c, pos, "too many paths")
		} else {
			bad := ""
			for _, pa := range ps {
				ri, wi := pa.Index("HASHRESET"), pa.Index("WRITEHASH")
				if ri >= 0 && wi >= 0 && wi < ri && bad == "" {
					bad = "on the path that recomputes the tag hash, the hash is written before it is recomputed: the first encoding carries the stale value (0) in front of the tags"
				}
				if wi < 0 && bad == "" {
					bad = "a path of Write does not emit the tag hash"
				}
			}
			r.Check(bad == "", rule, c, pos, "the hash written is the one in force after lazy recomputation", bad)
		}
	}
}

func orStr(a, b string) string {
	if a != "" {
		return a
	}
	return b
}

func min(a, b int) int {
	if a < b {
		return a
	}
	return b
}

// c05HashGuard: in the tag-carrying packs the hash in front of the tags is derived lazily in Write,
// and only for a non-empty tag map: an empty map goes out with hash 0 (that is what the reference
// layout carries). Every path of Write that (re)computes the hash has established Tags.Size() > 0.
func c05HashGuard(p *core.Program, r *core.Report, rule string) {
	for _, tn := range []string{"TagCountPack", "LogSinkPack"} {
		t := namedIn(p, "lang/pack", tn)
		if t == nil {
			continue
		}
		fi := p.Method("lang/pack", tn, "Write")
		if fi == nil || fi.Decl.Body == nil {
			continue
		}
		info := fi.Pkg.TypesInfo
		rn := recvName(fi)
		norm := func(e ast.Expr) string { return strings.ReplaceAll(stripSpaces(types.ExprString(e)), rn+".", "") }
		in := newInliner(p, fi, func(fn *types.Func) bool { return fn.Name() == "ResetTagHash" })
		ps, over := paths.Enumerate(fi.Decl.Body, paths.Config{Info: info, Inline: in.Body, Expand: in.Expand,
			Cond: func(c ast.Expr, v bool) *paths.Event {
				return &paths.Event{Kind: "COND", Arg: condKey(info, norm, c, v), Pos: c.Pos()}
			},
			Classify: func(m ast.Node) []paths.Event {
				var out []paths.Event
				if as, ok := m.(*ast.AssignStmt); ok && len(as.Lhs) == len(as.Rhs) {
					for i, l := range as.Lhs {
						if strings.EqualFold(norm(l), "taghash") {
							if tv, ok := info.Types[as.Rhs[i]]; !ok || tv.Value == nil {
								out = append(out, paths.Event{Kind: "HASHSET", Pos: as.Pos()})
							}
						}
					}
				}
				ast.Inspect(m, func(k ast.Node) bool {
					if call, ok := k.(*ast.CallExpr); ok {
						if sel, ok := call.Fun.(*ast.SelectorExpr); ok && sel.Sel.Name == "ResetTagHash" {
							out = append(out, paths.Event{Kind: "HASHSET", Pos: call.Pos()})
						}
					}
					return true
				})
				return out
			}})
		c := "lang/pack.(*" + tn + ").Write hash guard"
		pos := p.Pos(fi.Decl.Pos())
		if over {
			r.Undec(rule, c, pos, "too many paths")
			continue
		}
		n := 0
		bad := ""
		for _, pa := range ps {
			i := pa.Index("HASHSET")
			if i < 0 {
				continue
			}
			n++
			pre := pa[:i]
			if !(hasCmp(pre, "Tags.Size()", ">", "0", true) || hasCmp(pre, "Tags.Size()", "==", "0", false) || hasCmp(pre, "Tags.Size()", "!=", "0", true) || pre.HasArg("COND", "Tags.IsEmpty()=false")) {
				bad = pa.String()
			}
		}
		if n == 0 {
			r.Info(rule, c, pos, "Write does not derive the hash")
			continue
		}
		r.Check(bad == "", rule, c, pos, "the hash is derived only for a non-empty tag map", "the hash is derived on a path that has not established a non-empty tag map: a pack without tags goes out with the hash of the empty map instead of 0 (the bytes differ from the reference encoding): "+bad)
	}
}

// c05HeaderBytes decides the header layout at byte level for a WriteHeader that assembles the header
// in a buffer (or through helpers): the statements of WriteHeader and of the same-receiver helpers it
// calls are interpreted with the bit-vector engine, stream writes append to the emitted byte list, and
// the list must be: source, version, pcode (8 bytes big-endian), license hash (8 bytes big-endian),
// followed by WriteIntBytes of a copy of the buffer content that was taken before the buffer was reset.
// "" = agrees.
func c05HeaderBytes(p *core.Program, wh *core.FuncInfo) string {
	info := wh.Pkg.TypesInfo
	ip := &bits.Interp{P: p}
	fr := ip.NewFrame(wh)
	var params []types.Object
	for _, f := range wh.Decl.Type.Params.List {
		for _, n := range f.Names {
			params = append(params, info.Defs[n])
		}
	}
	if len(params) != 4 {
		return "unexpected signature"
	}
	var hdr []bits.Vec
	why := ""
	order := 0
	copyAt, resetAt, bodyAt := -1, -1, -1
	var bodyArg ast.Expr
	copies := map[types.Object]bool{} // locals holding a copy of the buffer content
	recvOf := func(fi *core.FuncInfo) string { return recvName(fi) }
	isBufBytes := func(e ast.Expr) bool {
		s := stripSpaces(types.ExprString(e))
		return strings.HasSuffix(s, ".buffer.Bytes()") || strings.HasSuffix(s, ".buffer.Bytes()...")
	}
	viaBuf := map[types.Object]bool{} // locals aliasing buffer.Bytes() (b := out.buffer.Bytes())
	beBytes := func(v *bits.Value, n int) {
		x := bits.Convert(v.V, v.Sign, 8*n)
		for k := 0; k < n; k++ {
			hdr = append(hdr, bits.Convert(bits.Shr(x, 8*(n-1-k), false), false, 8))
		}
	}
	var walk func(fi *core.FuncInfo, f *bits.Frame, list []ast.Stmt, depth int)
	walk = func(fi *core.FuncInfo, f *bits.Frame, list []ast.Stmt, depth int) {
		rn := recvOf(fi)
		finfo := fi.Pkg.TypesInfo
		for _, st := range list {
			if why != "" {
				return
			}
			order++
			// bookkeeping of the body copy
			if as, ok := st.(*ast.AssignStmt); ok && len(as.Lhs) == 1 && len(as.Rhs) == 1 {
				if id, ok := as.Lhs[0].(*ast.Ident); ok {
					rhs := ast.Unparen(as.Rhs[0])
					if isBufBytes(rhs) {
						viaBuf[finfo.ObjectOf(id)] = true
						continue
					}
					if call, ok := rhs.(*ast.CallExpr); ok {
						if fid, ok := call.Fun.(*ast.Ident); ok {
							switch fid.Name {
							case "append":
								// append([]byte(nil), out.buffer.Bytes()...)
								if len(call.Args) == 2 && call.Ellipsis.IsValid() {
									src := ast.Unparen(call.Args[1])
									fromBuf := isBufBytes(src)
									if sid, ok := src.(*ast.Ident); ok && viaBuf[finfo.ObjectOf(sid)] {
										fromBuf = true
									}
									if fromBuf {
										copies[finfo.ObjectOf(id)] = true
										copyAt = order
										continue
									}
								}
							case "make":
								continue // t := make([]byte, len(b)): filled by the copy below
							}
						}
					}
				}
			}
			if es, ok := st.(*ast.ExprStmt); ok {
				if call, ok := es.X.(*ast.CallExpr); ok {
					if fid, ok := call.Fun.(*ast.Ident); ok && fid.Name == "copy" && len(call.Args) == 2 {
						src := ast.Unparen(call.Args[1])
						fromBuf := isBufBytes(src)
						if sid, ok := src.(*ast.Ident); ok && viaBuf[finfo.ObjectOf(sid)] {
							fromBuf = true
						}
						if did, ok := ast.Unparen(call.Args[0]).(*ast.Ident); ok && fromBuf {
							copies[finfo.ObjectOf(did)] = true
							copyAt = order
							continue
						}
					}
					if sel, ok := call.Fun.(*ast.SelectorExpr); ok {
						xs := stripSpaces(types.ExprString(sel.X))
						if xs == rn+".buffer" && sel.Sel.Name == "Reset" {
							resetAt = order
							continue
						}
						if xs == rn {
							arg := func() *bits.Value {
								if len(call.Args) != 1 {
									why = sel.Sel.Name + " with " + fmt.Sprint(len(call.Args)) + " arguments"
									return nil
								}
								v := ip.Eval(f, call.Args[0], nil)
								if v == nil {
									why = "cannot evaluate " + types.ExprString(call.Args[0]) + ": " + f.Err()
								}
								return v
							}
							switch sel.Sel.Name {
							case "WriteByte":
								if v := arg(); v != nil && v.V != nil {
									hdr = append(hdr, bits.Convert(v.V, false, 8))
								}
								continue
							case "WriteShort":
								if v := arg(); v != nil && v.V != nil {
									beBytes(v, 2)
								}
								continue
							case "WriteInt":
								if v := arg(); v != nil && v.V != nil {
									beBytes(v, 4)
								}
								continue
							case "WriteLong":
								if v := arg(); v != nil && v.V != nil {
									beBytes(v, 8)
								}
								continue
							case "WriteBytes":
								if v := arg(); v != nil {
									if v.B == nil || v.B.Len < 0 {
										why = "WriteBytes of a buffer of unknown length"
										return
									}
									for k := 0; k < v.B.Len; k++ {
										hdr = append(hdr, v.B.Get(k))
									}
								}
								continue
							case "WriteIntBytes":
								bodyAt = order
								if len(call.Args) == 1 {
									bodyArg = call.Args[0]
									if id, ok := ast.Unparen(bodyArg).(*ast.Ident); ok && !copies[finfo.ObjectOf(id)] {
										why = "the length-prefixed body `" + id.Name + "` is not a copy of the buffer content (it aliases the buffer that was just reset and is being overwritten by the header)"
									}
								}
								continue
							}
							// an unexported helper on the same stream: followed with its parameters bound
							if fn, _ := finfo.Uses[sel.Sel].(*types.Func); fn != nil && !fn.Exported() && depth < 3 {
								if cfi := p.FuncOf(fn); cfi != nil && cfi.Decl.Body != nil {
									nf := ip.NewFrame(cfi)
									i := 0
									for _, pf := range cfi.Decl.Type.Params.List {
										for _, n := range pf.Names {
											if i < len(call.Args) {
												if v := ip.Eval(f, call.Args[i], nil); v != nil {
													nf.Bind(cfi.Pkg.TypesInfo.Defs[n], v)
												}
											}
											i++
										}
									}
									walk(cfi, nf, cfi.Decl.Body.List, depth+1)
									continue
								}
							}
						}
					}
				}
			}
			if as, ok := st.(*ast.AssignStmt); ok && len(as.Lhs) == 1 {
				if strings.HasPrefix(stripSpaces(types.ExprString(as.Lhs[0])), rn+".") {
					continue // out.written = 0
				}
			}
			ip.Exec(f, st)
			if f.Err() != "" {
				why = "outside the byte-level fragment: " + f.Err()
				return
			}
		}
	}
	walk(wh, fr, wh.Decl.Body.List, 0)
	if why != "" {
		return why
	}
	var want []bits.Vec
	want = append(want, bits.Input(params[0].Name(), 8), bits.Input(params[1].Name(), 8))
	for _, po := range params[2:] {
		x := bits.Input(po.Name(), 64)
		for k := 0; k < 8; k++ {
			want = append(want, bits.Convert(bits.Shr(x, 8*(7-k), false), false, 8))
		}
	}
	if len(hdr) != len(want) {
		return fmt.Sprintf("the header has %d bytes, want %d", len(hdr), len(want))
	}
	for k := range want {
		if !bits.Equal(hdr[k], want[k]) {
			return fmt.Sprintf("header byte %d is %s, want %s", k, hdr[k].String(), want[k].String())
		}
	}
	switch {
	case bodyAt < 0:
		return "the body is not appended as a length-prefixed byte block"
	case copyAt < 0 || resetAt < 0 || copyAt > resetAt:
		return "the body is not copied out of the buffer before the buffer is reset"
	case bodyAt < resetAt:
		return "the body is appended before the buffer is reset"
	}
	_ = bodyArg
	return ""
}
