package props

import (
	"fmt"
	"go/ast"
	"go/token"
	"go/types"
	"strings"

	"golibcheck/internal/core"
	"golibcheck/internal/paths"
	"golibcheck/internal/wire"
)

// C04 — decoders fail closed: no fabricated data, bounded memory on bad input.
func init() { register(&Checker{ID: "C04", Canaries: c04Canaries, Run: runC04}) }

var c04Pkgs = []string{"io", "lang/value", "lang/pack", "lang/pack/udp", "lang/step", "lang/service", "util/hmap", "util/list", "util/hll"}

func c04Canaries() []core.Canary {
	return []core.Canary{{RelDir: "lang/value", Name: "c04", Src: `package value

import "github.com/whatap/golib/io"

type zzCanaryAlloc struct{ xs []int64 }

// pre-allocates from a decoded 32-bit count and loops without reading
func (this *zzCanaryAlloc) Read(in *io.DataInputX) {
	n := int(in.ReadInt())
	this.xs = make([]int64, n)
	for i := 0; i < n; i++ {
		this.xs[i] = 0
	}
}
func (this *zzCanaryAlloc) Write(o *io.DataOutputX) { o.WriteInt(int32(len(this.xs))) }

type zzCanaryTail struct{ a, b int32 }

// decides by the bytes left on the stream it was handed whether the tail is there
func (this *zzCanaryTail) Read(in *io.DataInputX) {
	this.a = in.ReadInt()
	if in.Available() > 0 {
		this.b = in.ReadInt()
	}
}
func (this *zzCanaryTail) Write(o *io.DataOutputX) { o.WriteInt(this.a); o.WriteInt(this.b) }
`, Expect: []core.CanaryExpect{{Rule: "C04.alloc", Sub: "zzCanaryAlloc"}, {Rule: "C04.terminate", Sub: "zzCanaryAlloc"}, {Rule: "C04.own-extent", Sub: "zzCanaryTail"}}}}
}

var wideKinds = map[string]bool{"ReadInt": true, "ReadInt3": true, "ReadDecimal": true, "ReadLong": true, "ReadLong5": true, "ReadUnsignedInt": true,
	"ReadDecimalLen": true, "ReadIntLittle": true, "ReadUintLittle": true}

func runC04(p *core.Program, r *core.Report) {
	r.Explanation = "Structural fail-closed rules. C04.shortread: every byte any decoder obtains comes from DataInputX.ReadBytes (C01.chokepoint); in ReadBytes every returning path has passed a comparison of the requested size with what the input holds (and with the count actually read) whose other outcome ends in panic, a negative size is rejected, and the allocation happens after the bound — so no read returns bytes that were not in the input and allocation is bounded by the input size. C04.prefix: for every codec pair whose writer and reader agree (wire grammar), the reader consumes every primitive the writer emitted, so a strict prefix makes some ReadBytes come up short and panic; the format-defined exceptions (Available()-guarded tails) are enumerated. C04.alloc: every make()/map constructor sized by a value decoded from a wide (>16-bit) field — directly or through a struct field assigned from one — is preceded by a rejecting bound check; 8/16-bit counts are accepted as bounded. C04.terminate: every loop bounded by a decoded value performs at least one stream read on every path of its body, so corrupted counts end in an end-of-input panic after at most |input| iterations. C04.unknown-tag: what each factory does for an unknown code."
	r.NotDecided = []string{"peak allocation as a number", "gzip on hostile input (compressutil.UnZip -> ReadAll): a zip bomb is outside the listed anchors", "TCP-backed inputs cannot be bounded before reading (Available()==0)"}
	r.Assumptions = []string{"8- and 16-bit counts are bounded (<= 65535 elements): deviates from strict proportionality for tiny inputs", "a method call on a nil interface value panics (recoverable)"}
	r.Rule("C04.shortread", "ReadBytes: negative size rejected; size compared with available input before allocating; count read compared with size; mismatch panics", 3)
	r.Rule("C04.prefix", "readers of agreeing codec pairs consume everything the writer emitted, so strict prefixes fail in ReadBytes", 100)
	r.Rule("C04.alloc", "allocations sized by a wide decoded count are preceded by a rejecting bound check", 10)
	r.Rule("C04.terminate", "loops bounded by a decoded count read from the stream on every path of their body", 54)
	r.Rule("C04.chokepoint", "every byte a decoder obtains goes through ReadBytes (the one place with the short-read check): nothing else touches the input buffer, connection or offset", 3)
	r.Rule("C04.no-swallow", "no decoder recovers from a decoding panic and carries on (a truncated or corrupted record is never skipped silently)", 1)
	r.Rule("C04.limit", "size-limited reads compare the announced length with the caller's limit before any byte of the payload is read or allocated", 1)
	r.Rule("C04.unknown-tag", "unknown type codes end in a (recoverable) panic, never in a fabricated object", 4)
	r.Rule("C04.own-extent", "a decoder asks how much input is left only of a stream it built itself over a length-delimited blob; never of the stream it was handed, whose remaining bytes are the next record's (or missing): a truncated message must fail, not decode as an older, shorter version", 0)
	c04OwnExtent(p, r)
	r.Rule("C04.no-early-stop", "a loop driven by a decoded count is not cut short by looking at how much input is left (a truncated record must fail, not decode as a shorter one)", 1)
	c04NoEarlyStop(p, r)

	c04ShortRead(p, r)
	c01Chokepoint(p, r, "C04.chokepoint")
	c04NoSwallow(p, r)
	c04Limit(p, r)
	c04Prefix(p, r)
	c04AllocAndLoops(p, r)
	for _, f := range [][4]string{{"lang/value", "CreateValue", "Value", "GetValueType"}, {"lang/pack", "CreatePack", "Pack", "GetPackType"},
		{"lang/step", "CreateStep", "Step", "GetStepType"}, {"lang/service", "CreateService", "Service", "GetServiceType"}} {
		fi := p.Func(f[0], f[1])
		c := f[0] + "." + f[1] + " unknown code"
		if fi == nil || fi.Decl.Body == nil {
			r.Undec("C04.unknown-tag", c, "-", "factory not found")
			continue
		}
		last := factoryFallback(fi.Decl.Body.List)
		if last == nil {
			last = fi.Decl.Body.List[len(fi.Decl.Body.List)-1]
		}
		switch v := last.(type) {
		case *ast.ExprStmt:
			if call, ok := v.X.(*ast.CallExpr); ok {
				if id, ok := call.Fun.(*ast.Ident); ok && id.Name == "panic" {
					r.OK("C04.unknown-tag", c, p.Pos(last.Pos()), "panics")
					continue
				}
			}
		case *ast.ReturnStmt:
			if len(v.Results) == 1 {
				if id, ok := v.Results[0].(*ast.Ident); ok && id.Name == "nil" {
					// the reader must immediately call a method on the nil interface (recoverable panic);
					// a nil test that lets the decoder carry on accepts the unknown code silently
					bad := ""
					for _, cf := range p.Funcs {
						if cf.Decl.Body == nil || strings.Contains(cf.Obj.Name(), "zzCanary") {
							continue
						}
						cinfo := cf.Pkg.TypesInfo
						ast.Inspect(cf.Decl.Body, func(m ast.Node) bool {
							as, ok := m.(*ast.AssignStmt)
							if !ok || len(as.Lhs) != 1 || len(as.Rhs) != 1 {
								return true
							}
							call, ok := ast.Unparen(as.Rhs[0]).(*ast.CallExpr)
							if !ok {
								return true
							}
							var fid *ast.Ident
							switch fx := call.Fun.(type) {
							case *ast.Ident:
								fid = fx
							case *ast.SelectorExpr:
								fid = fx.Sel
							}
							if fid == nil || cinfo.Uses[fid] != fi.Obj {
								return true
							}
							lid, ok := as.Lhs[0].(*ast.Ident)
							if !ok {
								return true
							}
							obj := cinfo.ObjectOf(lid)
							ast.Inspect(cf.Decl.Body, func(k ast.Node) bool {
								ifs, ok := k.(*ast.IfStmt)
								if !ok {
									return true
								}
								be, ok := ast.Unparen(ifs.Cond).(*ast.BinaryExpr)
								if !ok || (be.Op != token.EQL && be.Op != token.NEQ) {
									return true
								}
								xi, ok1 := ast.Unparen(be.X).(*ast.Ident)
								yi, ok2 := ast.Unparen(be.Y).(*ast.Ident)
								if !ok1 || !ok2 || cinfo.ObjectOf(xi) != obj || yi.Name != "nil" {
									return true
								}
								var nilArm ast.Node = ifs.Body
								if be.Op == token.NEQ {
									nilArm = ifs.Else
								}
								panics := false
								if nilArm != nil {
									ast.Inspect(nilArm, func(q ast.Node) bool {
										if pc, ok := q.(*ast.CallExpr); ok {
											if pid, ok := pc.Fun.(*ast.Ident); ok && pid.Name == "panic" {
												panics = true
											}
										}
										return true
									})
								}
								if !panics && bad == "" {
									bad = core.FuncName(cf.Obj) + " at " + p.Pos(ifs.Pos()) + " tests the result for nil and carries on"
								}
								return true
							})
							return true
						})
					}
					if bad != "" {
						r.Viol("C04.unknown-tag", c, p.Pos(last.Pos()), "an unknown code yields nil and "+bad+": corrupted input is accepted silently instead of failing (a nil element is fabricated / bytes are left unread)")
					} else {
						r.OK("C04.unknown-tag", c, p.Pos(last.Pos()), "returns nil; every caller calls a method on the nil interface next (nil-dereference panic, recoverable)")
					}
					continue
				}
			}
		}
		r.Viol("C04.unknown-tag", c, p.Pos(last.Pos()), "an unknown code neither panics nor returns nil: an object of some default type is fabricated")
	}
}

// c04Limit: a reader that takes a size limit from its caller (ReadXLimit(max)) must reject before it
// reads: on every path, each variable-length read (ReadBytes/ReadIntBytes/ReadBlob/...) is preceded by
// a comparison that mentions the limit parameter and whose other outcome panics. Checking the length of
// what was already read is too late for a socket-backed input (the allocation has happened).
// c04NoSwallow: a function of a decoder package that reads from a DataInputX (directly or by handing
// it to a decoder) must not contain a deferred recover() that lets it return normally: that turns
// "truncated input panics" into "truncated input is skipped", and a loop over a corrupted count then
// spins through the whole count.
func c04NoSwallow(p *core.Program, r *core.Report) {
	x := wire.NewExtractor(p)
	decoderPkgs := map[string]bool{"io": true, "lang/value": true, "lang/pack": true, "lang/pack/udp": true, "lang/step": true, "lang/service": true, "util/hll": true, "util/list": true, "util/hmap": true}
	n := 0
	// decoders: functions that touch an input stream, and (three levels up) the functions of the
	// decoder packages that call one — a recover() around a call of a decoder swallows its panic
	// just the same (a background warm-up that decodes and recovers)
	decodes := map[*types.Func]bool{}
	for _, fi := range p.Funcs {
		if fi.Decl.Body == nil || !decoderPkgs[core.RelPkg(fi.Pkg.PkgPath)] {
			continue
		}
		info := fi.Pkg.TypesInfo
		ast.Inspect(fi.Decl.Body, func(m ast.Node) bool {
			if id, ok := m.(*ast.Ident); ok {
				if o := info.ObjectOf(id); o != nil && x.IsIn(o.Type()) {
					decodes[fi.Obj] = true
				}
			}
			return true
		})
	}
	for round := 0; round < 3; round++ {
		for _, fi := range p.Funcs {
			if fi.Decl.Body == nil || !decoderPkgs[core.RelPkg(fi.Pkg.PkgPath)] || decodes[fi.Obj] {
				continue
			}
			info := fi.Pkg.TypesInfo
			ast.Inspect(fi.Decl.Body, func(m ast.Node) bool {
				if call, ok := m.(*ast.CallExpr); ok {
					if fn := calleeFunc(info, call); fn != nil && decodes[fn] {
						decodes[fi.Obj] = true
					}
				}
				return true
			})
		}
	}
	for _, fi := range p.Funcs {
		if fi.Decl.Body == nil || !decoderPkgs[core.RelPkg(fi.Pkg.PkgPath)] || strings.Contains(fi.Obj.Name(), "zzCanary") || strings.HasPrefix(fi.Obj.Name(), "zzSpec") {
			continue
		}
		if !decodes[fi.Obj] {
			continue
		}
		n++
		swallow := ""
		ast.Inspect(fi.Decl.Body, func(m ast.Node) bool {
			ds, ok := m.(*ast.DeferStmt)
			if !ok {
				return true
			}
			fl, ok := ds.Call.Fun.(*ast.FuncLit)
			if !ok {
				return true
			}
			recovers, repanics := false, false
			ast.Inspect(fl.Body, func(k ast.Node) bool {
				if call, ok := k.(*ast.CallExpr); ok {
					if id, ok := call.Fun.(*ast.Ident); ok {
						if id.Name == "recover" {
							recovers = true
						}
						if id.Name == "panic" {
							repanics = true
						}
					}
				}
				return true
			})
			if recovers && !repanics {
				swallow = p.Pos(ds.Pos())
			}
			return true
		})
		c := core.FuncName(fi.Obj)
		if swallow != "" {
			r.Viol("C04.no-swallow", c, swallow, "a deferred recover() lets this decoder return normally after a decoding panic: truncated or corrupted input is silently skipped instead of failing (and a loop over a corrupted count keeps spinning)")
		} else if n <= 400 {
			r.OK("C04.no-swallow", c, p.Pos(fi.Decl.Pos()), "decoding panics propagate")
		}
	}
	if n == 0 {
		r.Undec("C04.no-swallow", "decoder packages", "-", "no decoder found")
	}
}

func c04Limit(p *core.Program, r *core.Report) {
	n := 0
	for _, fi := range p.MethodsOf(namedIn(p, "io", "DataInputX")) {
		if fi.Decl.Body == nil || !strings.HasSuffix(fi.Obj.Name(), "Limit") || fi.Decl.Type.Params.NumFields() == 0 {
			continue
		}
		n++
		info := fi.Pkg.TypesInfo
		limits := map[types.Object]bool{}
		for _, f := range fi.Decl.Type.Params.List {
			for _, nm := range f.Names {
				limits[info.Defs[nm]] = true
			}
		}
		mentions := func(e ast.Expr) bool {
			found := false
			e = expandLocals(info, fi.Decl.Body, e) // limit := int32(max) stands for max
			ast.Inspect(e, func(m ast.Node) bool {
				if id, ok := m.(*ast.Ident); ok && limits[info.ObjectOf(id)] {
					found = true
				}
				return true
			})
			return found
		}
		ps, over := paths.Enumerate(fi.Decl.Body, paths.Config{Info: info,
			Cond: func(c ast.Expr, v bool) *paths.Event {
				if mentions(c) {
					return &paths.Event{Kind: "LIMITCOND", Arg: fmt.Sprint(v), Pos: c.Pos()}
				}
				return nil
			},
			Classify: func(m ast.Node) []paths.Event {
				var out []paths.Event
				ast.Inspect(m, func(k ast.Node) bool {
					if call, ok := k.(*ast.CallExpr); ok {
						if sel, ok := call.Fun.(*ast.SelectorExpr); ok {
							switch sel.Sel.Name {
							case "ReadBytes", "ReadIntBytes", "ReadBlob", "ReadShortBytes", "ReadText":
								out = append(out, paths.Event{Kind: "READVAR", Arg: sel.Sel.Name, Pos: call.Pos()})
							}
						}
						if id, ok := call.Fun.(*ast.Ident); ok && id.Name == "panic" {
							out = append(out, paths.Event{Kind: "PANIC"})
						}
					}
					return true
				})
				return out
			}})
		c := core.FuncName(fi.Obj)
		pos := p.Pos(fi.Decl.Pos())
		if over {
			r.Undec("C04.limit", c, pos, "too many paths")
			continue
		}
		bad := ""
		reads := 0
		for _, pa := range ps {
			for i, e := range pa {
				if e.Kind != "READVAR" {
					continue
				}
				reads++
				guarded := false
				for _, b := range pa[:i] {
					if b.Kind == "LIMITCOND" {
						guarded = true
					}
				}
				if !guarded && bad == "" {
					bad = e.Arg + " is reached before the announced length was compared with the limit: the payload is allocated and read first, the limit checked afterwards (or never)"
				}
			}
		}
		if reads == 0 {
			r.Undec("C04.limit", c, pos, "no variable-length read found")
			continue
		}
		r.Check(bad == "", "C04.limit", c, pos, "length compared with the limit before the payload is read", bad)
	}
	if n == 0 {
		r.Info("C04.limit", "io.(*DataInputX).*Limit", "-", "no size-limited reader in the package")
	}
}

func namedIn(p *core.Program, rel, name string) *types.Named {
	pk := p.Pkg(rel)
	if pk == nil {
		return nil
	}
	if o := pk.Types.Scope().Lookup(name); o != nil {
		n, _ := o.Type().(*types.Named)
		return n
	}
	return nil
}

func c04ShortRead(p *core.Program, r *core.Report) {
	fi := p.Method("io", "DataInputX", "ReadBytes")
	c := "io.(*DataInputX).ReadBytes"
	if fi == nil || fi.Decl.Body == nil {
		r.Undec("C04.shortread", c, "-", "not found")
		return
	}
	fi = tailInlined(p, fi, 0) // a dispatcher over per-mode helpers reads as one body
	c04FillLoop(p, r, fi, c)
	rn := recvName(fi)
	norm := func(e ast.Node) string {
		switch v := e.(type) {
		case ast.Expr:
			return strings.ReplaceAll(stripSpaces(types.ExprString(v)), rn+".", "")
		}
		return ""
	}
	szName := fi.Decl.Type.Params.List[0].Names[0].Name
	sinfo := fi.Pkg.TypesInfo
	szObj := sinfo.Defs[fi.Decl.Type.Params.List[0].Names[0]]
	// the count a Read call returned: n, err := x.Read(buf)
	readCount := map[types.Object]bool{}
	ast.Inspect(fi.Decl.Body, func(n ast.Node) bool {
		if as, ok := n.(*ast.AssignStmt); ok && len(as.Lhs) == 2 && len(as.Rhs) == 1 {
			if call, ok := ast.Unparen(as.Rhs[0]).(*ast.CallExpr); ok {
				if sel, ok := call.Fun.(*ast.SelectorExpr); ok && sel.Sel.Name == "Read" {
					if id, ok := as.Lhs[0].(*ast.Ident); ok {
						readCount[sinfo.ObjectOf(id)] = true
					}
				}
			}
		}
		return true
	})
	satom := func(e ast.Expr) (string, bool) {
		switch v := ast.Unparen(e).(type) {
		case *ast.Ident:
			o := sinfo.ObjectOf(v)
			if o != nil && o == szObj {
				return "sz", true
			}
			if readCount[o] {
				return "n", true
			}
		case *ast.CallExpr:
			if sel, ok := v.Fun.(*ast.SelectorExpr); ok && len(v.Args) == 0 && (sel.Sel.Name == "Len" || sel.Sel.Name == "Available") {
				return "avail", true
			}
			if id, ok := v.Fun.(*ast.Ident); ok && id.Name == "len" && len(v.Args) == 1 {
				// len(buff) with buff made of sz bytes is sz
				if aid, ok := ast.Unparen(v.Args[0]).(*ast.Ident); ok {
					if d := localDefIn(sinfo, fi.Decl.Body, aid); d != nil {
						if mk, ok := ast.Unparen(d).(*ast.CallExpr); ok && len(mk.Args) >= 2 {
							if mid, ok := mk.Fun.(*ast.Ident); ok && mid.Name == "make" {
								if sid, ok := ast.Unparen(stripConvs(sinfo, mk.Args[1])).(*ast.Ident); ok && sinfo.ObjectOf(sid) == szObj {
									return "sz", true
								}
							}
						}
					}
				}
			}
		}
		return "", false
	}
	ps, over := paths.Enumerate(fi.Decl.Body, paths.Config{
		Info: fi.Pkg.TypesInfo,
		Cond: func(c ast.Expr, v bool) *paths.Event {
			// comparisons among the requested size, what the input holds and the count read are recorded
			// as linear relations, whatever side, operator or local they are spelled with
			if f, rel, ok := linRel(sinfo, fi.Decl.Body, c, v, satom); ok {
				return &paths.Event{Kind: "COND", Arg: "REL " + lformKey(f) + " " + rel + " 0", Pos: c.Pos()}
			}
			return &paths.Event{Kind: "COND", Arg: fmt.Sprintf("%s=%v", norm(c), v), Pos: c.Pos()}
		},
		Classify: func(n ast.Node) []paths.Event {
			var out []paths.Event
			ast.Inspect(n, func(m ast.Node) bool {
				switch v := m.(type) {
				case *ast.CallExpr:
					if id, ok := v.Fun.(*ast.Ident); ok && id.Name == "make" {
						out = append(out, paths.Event{Kind: "ALLOC", Arg: norm(v.Args[len(v.Args)-1]), Pos: v.Pos()})
					}
					if sel, ok := v.Fun.(*ast.SelectorExpr); ok && sel.Sel.Name == "Read" {
						out = append(out, paths.Event{Kind: "READ", Arg: norm(sel.X), Pos: v.Pos()})
					}
				case *ast.AssignStmt:
					for _, l := range v.Lhs {
						if norm(l) == szName {
							out = append(out, paths.Event{Kind: "SETSZ", Pos: v.Pos()})
						}
					}
				}
				return true
			})
			return out
		},
	})
	pos := p.Pos(fi.Decl.Pos())
	if over {
		r.Undec("C04.shortread", c, pos, "too many paths")
		return
	}
	mentions := func(arg string, terms ...string) bool {
		for _, t := range terms {
			if strings.Contains(arg, t) {
				return true
			}
		}
		return false
	}
	var neg, bound, count, order []string
	nRet := 0
	for _, pa := range ps {
		if !pa.Has("RET") || !pa.Consistent() {
			continue
		}
		nRet++
		isBuf := pa.HasArg("COND", "tcp!=nil=false") || pa.HasArg("COND", "tcp==nil=true")
		if pa.Has("SETSZ") {
			bound = append(bound, "the requested size is rewritten instead of being rejected: a short input yields a shorter (or empty) slice and no failure")
		}
		// negative size
		okNeg := false
		for _, e := range pa {
			if e.Kind == "COND" && (e.Arg == "REL sz:-1 <= 0" || e.Arg == "REL sz:-1 < 0" || e.Arg == szName+"<0=false" || e.Arg == szName+">=0=true") {
				okNeg = true
			}
		}
		if !okNeg {
			neg = append(neg, "a negative size is not rejected before use")
		}
		if !isBuf {
			continue
		}
		ai := pa.Index("ALLOC")
		okBound, okCount := false, false
		for i, e := range pa {
			if e.Kind != "COND" {
				continue
			}
			req := mentions(e.Arg, szName, "len(buff)")
			if e.Arg == "REL avail:-1 sz:1 <= 0" || req && mentions(e.Arg, "buffer.Len()", "Available()", "bufsize") && strings.HasSuffix(e.Arg, ">buffer.Len()=false") || req && mentions(e.Arg, "<=buffer.Len()=true", "<=int(in.Available())=true") {
				okBound = true
				if ai >= 0 && i > ai {
					order = append(order, "the buffer is allocated before the size is checked against the input")
				}
			}
			if e.Arg == "REL n:1 sz:-1 == 0" || e.Arg == "REL n:-1 sz:1 == 0" || req && (mentions(e.Arg, "n!=") && strings.HasSuffix(e.Arg, "=false") || mentions(e.Arg, "n==") && strings.HasSuffix(e.Arg, "=true")) {
				okCount = true
			}
		}
		if !okBound {
			bound = append(bound, "in buffer mode the size is not compared with the bytes the input still holds before allocating/returning")
		}
		if !okCount {
			count = append(count, "the number of bytes actually read is not compared with the requested size: a short read returns zero-filled bytes")
		}
	}
	if nRet == 0 {
		r.Undec("C04.shortread", c, pos, "no returning path")
		return
	}
	file := func(con string, probs []string, okmsg string) {
		if len(probs) > 0 {
			r.Viol("C04.shortread", c+" "+con, pos, strings.Join(uniq(probs), "; "))
		} else {
			r.OK("C04.shortread", c+" "+con, pos, okmsg)
		}
	}
	file("negative", neg, "sz < 0 panics")
	file("bound", append(bound, order...), "sz > buffer.Len() panics before the allocation")
	file("count", count, "n != sz panics")
	// stream mode: the loop that fills the buffer from the connection runs while bytes are missing and
	// counts exactly what each Read delivered; an error panics. Judged on the linear form of the loop
	// condition: D > 0 with D = requested - received at loop entry, decreasing by the Read's count.
	okLoop := false
	info := sinfo
	ast.Inspect(fi.Decl.Body, func(n ast.Node) bool {
		loop, ok := n.(*ast.ForStmt)
		if !ok || loop.Cond == nil {
			return true
		}
		// n of `n, err := X.Read(…)` inside the loop
		var nObj types.Object
		hasPanic := false
		ast.Inspect(loop.Body, func(m ast.Node) bool {
			switch v := m.(type) {
			case *ast.AssignStmt:
				if len(v.Rhs) == 1 && len(v.Lhs) == 2 {
					if call, ok := ast.Unparen(v.Rhs[0]).(*ast.CallExpr); ok {
						if sel, ok := call.Fun.(*ast.SelectorExpr); ok && sel.Sel.Name == "Read" {
							if id, ok := v.Lhs[0].(*ast.Ident); ok {
								nObj = info.ObjectOf(id)
							}
						}
					}
				}
			case *ast.CallExpr:
				if id, ok := v.Fun.(*ast.Ident); ok && id.Name == "panic" {
					hasPanic = true
				}
			}
			return true
		})
		if nObj == nil || !hasPanic {
			return true
		}
		be, ok := ast.Unparen(loop.Cond).(*ast.BinaryExpr)
		if !ok {
			return true
		}
		l, rr := be.X, be.Y
		switch be.Op {
		case token.GTR:
		case token.LSS:
			l, rr = rr, l
		default:
			return true
		}
		atom := func(x ast.Expr) (string, bool) {
			if id, ok := ast.Unparen(x).(*ast.Ident); ok {
				if o := info.ObjectOf(id); o != nil {
					if o == szObj {
						return "sz", true
					}
					if _, isVar := o.(*types.Var); isVar {
						return "v:" + id.Name, true
					}
				}
			}
			return "", false
		}
		lf, ok1 := linearize(info, nil, l, atom)
		rf, ok2 := linearize(info, nil, rr, atom)
		if !ok1 || !ok2 {
			return true
		}
		d := lf.plus(rf, -1)
		// the progress variable: the one local of D the body moves by n
		for k, coef := range d {
			if !strings.HasPrefix(k, "v:") || (coef != 1 && coef != -1) {
				continue
			}
			name := strings.TrimPrefix(k, "v:")
			delta := int64(0)
			moves := 0
			ast.Inspect(loop.Body, func(m ast.Node) bool {
				as, ok := m.(*ast.AssignStmt)
				if !ok || len(as.Lhs) != 1 || len(as.Rhs) != 1 {
					return true
				}
				id, ok := as.Lhs[0].(*ast.Ident)
				if !ok || id.Name != name {
					return true
				}
				rid, _ := ast.Unparen(stripConvs(info, as.Rhs[0])).(*ast.Ident)
				isN := rid != nil && info.ObjectOf(rid) == nObj
				switch {
				case as.Tok == token.ADD_ASSIGN && isN:
					delta, moves = 1, moves+1
				case as.Tok == token.SUB_ASSIGN && isN:
					delta, moves = -1, moves+1
				default:
					moves += 2
				}
				return true
			})
			if moves != 1 || coef*delta != -1 {
				continue
			}
			// D at loop entry is the requested size: the variable's initial value put into D
			var initE ast.Expr
			if as, ok := loop.Init.(*ast.AssignStmt); ok && len(as.Lhs) == 1 && len(as.Rhs) == 1 {
				if id, ok := as.Lhs[0].(*ast.Ident); ok && id.Name == name {
					initE = as.Rhs[0]
				}
			}
			if initE == nil {
				ast.Inspect(fi.Decl.Body, func(m ast.Node) bool {
					if as, ok := m.(*ast.AssignStmt); ok && as.Pos() < loop.Pos() && len(as.Lhs) == len(as.Rhs) {
						for i, lh := range as.Lhs {
							if id, ok := lh.(*ast.Ident); ok && id.Name == name {
								initE = as.Rhs[i]
							}
						}
					}
					return true
				})
			}
			if initE == nil {
				continue
			}
			inf, ok := linearize(info, nil, initE, atom)
			if !ok {
				continue
			}
			d0 := lform{}
			for kk, vv := range d {
				if kk != k {
					d0[kk] = vv
				}
			}
			d0 = d0.plus(inf, coef)
			if d0.is(map[string]int64{"sz": 1}) {
				okLoop = true
			}
		}
		return true
	})
	r.Check(okLoop, "C04.shortread", c+" stream", pos, "reads until nothing is left; a read error panics", "stream mode can return before the requested bytes arrived")
}

func c04Prefix(p *core.Program, r *core.Report) {
	x := wire.NewExtractor(p)
	pairs, _ := discoverPairs(p, x, []string{"lang/value", "lang/pack", "lang/step", "lang/service"})
	tails := 0
	for _, cp := range pairs {
		res := x.MatchFuncs(cp.W, cp.WS, cp.R, cp.RS, isPairFunc, 4)
		pos := p.Pos(cp.R.Decl.Pos())
		stops := false
		for _, f := range res.Failures {
			if f.Kind == "mismatch" && (strings.Contains(f.Msg, "stopped reading") || strings.Contains(f.Msg, "never read") || strings.Contains(f.Msg, "still emits")) {
				stops = true
			}
		}
		tails += res.Tails
		switch {
		case stops:
			r.Info("C04.prefix", cp.Name, pos, "reader stops before the writer's last primitive (a C03/C08 finding): a prefix of this encoding decodes successfully")
		case len(res.Failures) > 0:
			r.Info("C04.prefix", cp.Name, pos, "layout disagreement reported under C03/C08; prefix behaviour not concluded")
		default:
			d := "reader consumes every primitive written"
			if res.Tails > 0 {
				d += fmt.Sprintf("; %d Available()-guarded tail test(s): the shorter message is a complete older version by format definition", res.Tails)
			}
			r.OK("C04.prefix", cp.Name, pos, d)
		}
	}
	r.Stats["format_defined_tails"] = tails
}

// wideSource: does e derive (through conversions and one local definition) from a wide stream read
// or from a struct field assigned from one?
type taintCtx struct {
	p       *core.Program
	x       *wire.Extractor
	fields  map[*types.Var]string // tainted fields -> source description
}

func (t *taintCtx) source(fi *core.FuncInfo, e ast.Expr, depth int) string {
	info := fi.Pkg.TypesInfo
	e = ast.Unparen(e)
	if depth > 12 {
		return ""
	}
	switch v := e.(type) {
	case *ast.CallExpr:
		if tv, ok := info.Types[v.Fun]; ok && tv.IsType() && len(v.Args) == 1 {
			return t.source(fi, v.Args[0], depth+1)
		}
		if sel, ok := v.Fun.(*ast.SelectorExpr); ok {
			if tv, ok := info.Types[sel.X]; ok && t.x.IsIn(tv.Type) && wideKinds[sel.Sel.Name] {
				return sel.Sel.Name
			}
		}
		// a helper of the module that hands back a wide count it read (in.readArrayLen())
		if fn := calleeFunc(info, v); fn != nil && depth < 6 {
			if cf := t.p.FuncOf(fn); cf != nil && cf.Decl.Body != nil {
				readsStream := false
				for _, a := range v.Args {
					if at := info.TypeOf(a); at != nil && t.x.IsIn(at) {
						readsStream = true
					}
				}
				if sel, ok := v.Fun.(*ast.SelectorExpr); ok {
					if tv, ok := info.Types[sel.X]; ok && t.x.IsIn(tv.Type) {
						readsStream = true
					}
				}
				if readsStream {
					src := ""
					ast.Inspect(cf.Decl.Body, func(m ast.Node) bool {
						if rs, ok := m.(*ast.ReturnStmt); ok && len(rs.Results) == 1 && src == "" {
							if s := t.source(cf, rs.Results[0], depth+3); s != "" {
								src = s + " (through " + fn.Name() + ")"
							}
						}
						return true
					})
					if src != "" {
						return src
					}
				}
			}
		}
	case *ast.BinaryExpr:
		if s := t.source(fi, v.X, depth+1); s != "" {
			return s
		}
		return t.source(fi, v.Y, depth+1)
	case *ast.SelectorExpr:
		if fv, ok := info.Uses[v.Sel].(*types.Var); ok && fv.IsField() {
			if s, ok := t.fields[fv]; ok {
				return "field " + fv.Name() + " <- " + s
			}
		}
	case *ast.Ident:
		obj := info.ObjectOf(v)
		if obj == nil {
			return ""
		}
		var defs []ast.Expr
		ast.Inspect(fi.Decl.Body, func(m ast.Node) bool {
			if as, ok := m.(*ast.AssignStmt); ok && len(as.Lhs) == len(as.Rhs) {
				for i, l := range as.Lhs {
					if id, ok := l.(*ast.Ident); ok && info.ObjectOf(id) == obj {
						defs = append(defs, as.Rhs[i])
					}
				}
			}
			return true
		})
		for _, d := range defs {
			if s := t.source(fi, d, depth+1); s != "" {
				return s
			}
		}
	}
	return ""
}

// guarded: some if-statement before pos in the function rejects (panic/return) on a condition that
// mentions the count variable.
func guardedBefore(fi *core.FuncInfo, e ast.Expr, pos token.Pos) bool {
	name := ""
	switch v := ast.Unparen(e).(type) {
	case *ast.Ident:
		name = v.Name
	case *ast.SelectorExpr:
		name = v.Sel.Name
	case *ast.CallExpr:
		if len(v.Args) == 1 {
			if id, ok := ast.Unparen(v.Args[0]).(*ast.Ident); ok {
				name = id.Name
			}
			if s, ok := ast.Unparen(v.Args[0]).(*ast.SelectorExpr); ok {
				name = s.Sel.Name
			}
		}
	}
	if name == "" {
		return false
	}
	ok := false
	ast.Inspect(fi.Decl.Body, func(n ast.Node) bool {
		ifs, isIf := n.(*ast.IfStmt)
		if !isIf || ifs.Pos() > pos {
			return true
		}
		cs := stripSpaces(types.ExprString(ifs.Cond))
		if !strings.Contains(cs, name+">") && !strings.Contains(cs, name+")>") {
			return true
		}
		for _, s := range ifs.Body.List {
			switch v := s.(type) {
			case *ast.ReturnStmt:
				ok = true
			case *ast.ExprStmt:
				if call, isC := v.X.(*ast.CallExpr); isC {
					if id, isId := call.Fun.(*ast.Ident); isId && id.Name == "panic" {
						ok = true
					}
				}
			}
		}
		return true
	})
	return ok
}

// allocSizingParams: indexes of the parameters of fi that size a make() in its body, directly or
// through locals computed from them.
func allocSizingParams(fi *core.FuncInfo) []int {
	info := fi.Pkg.TypesInfo
	var params []types.Object
	if fi.Decl.Type.Params != nil {
		for _, f := range fi.Decl.Type.Params.List {
			for _, n := range f.Names {
				params = append(params, info.Defs[n])
			}
		}
	}
	if len(params) == 0 {
		return nil
	}
	// derived[o] = set of params o depends on
	derived := map[types.Object]map[int]bool{}
	for i, o := range params {
		if o != nil {
			derived[o] = map[int]bool{i: true}
		}
	}
	deps := func(e ast.Expr) map[int]bool {
		out := map[int]bool{}
		ast.Inspect(e, func(n ast.Node) bool {
			if id, ok := n.(*ast.Ident); ok {
				for k := range derived[info.ObjectOf(id)] {
					out[k] = true
				}
			}
			return true
		})
		return out
	}
	for round := 0; round < 3; round++ {
		ast.Inspect(fi.Decl.Body, func(n ast.Node) bool {
			if as, ok := n.(*ast.AssignStmt); ok && len(as.Lhs) == len(as.Rhs) {
				for i, l := range as.Lhs {
					if id, ok := l.(*ast.Ident); ok {
						if o := info.ObjectOf(id); o != nil {
							for k := range deps(as.Rhs[i]) {
								if derived[o] == nil {
									derived[o] = map[int]bool{}
								}
								derived[o][k] = true
							}
						}
					}
				}
			}
			return true
		})
	}
	got := map[int]bool{}
	ast.Inspect(fi.Decl.Body, func(n ast.Node) bool {
		call, ok := n.(*ast.CallExpr)
		if !ok {
			return true
		}
		if id, ok := call.Fun.(*ast.Ident); ok && id.Name == "make" && len(call.Args) >= 2 {
			for _, a := range call.Args[1:] {
				for k := range deps(a) {
					got[k] = true
				}
			}
		}
		return true
	})
	var out []int
	for i := range params {
		if got[i] {
			out = append(out, i)
		}
	}
	return out
}

// decodeHelperCall: the callee is part of the same decoding step — a method called on the caller's
// own receiver (this.ensure(n), in.ReadBytes(n)) or a function that is handed the input stream.
func decodeHelperCall(x *wire.Extractor, fi, cf *core.FuncInfo, call *ast.CallExpr) bool {
	info := fi.Pkg.TypesInfo
	if sel, ok := ast.Unparen(call.Fun).(*ast.SelectorExpr); ok {
		if id, ok := ast.Unparen(sel.X).(*ast.Ident); ok && id.Name == recvName(fi) && recvName(fi) != "" {
			if _, isMethod := info.Selections[sel]; isMethod {
				return true
			}
		}
	}
	for _, a := range call.Args {
		if t := info.TypeOf(a); t != nil && x.IsIn(t) {
			return true
		}
	}
	return false
}

// calleeBoundsParam: the helper itself rejects (panic / return) a value of its parameter that
// exceeds something which is not a constant (what the input holds), before it allocates.
func calleeBoundsParam(cf *core.FuncInfo, pi int) bool {
	info := cf.Pkg.TypesInfo
	var names []string
	for _, f := range cf.Decl.Type.Params.List {
		for _, n := range f.Names {
			names = append(names, n.Name)
		}
	}
	if pi >= len(names) {
		return false
	}
	name := names[pi]
	ok := false
	ast.Inspect(cf.Decl.Body, func(n ast.Node) bool {
		ifs, isIf := n.(*ast.IfStmt)
		if !isIf {
			return true
		}
		rejects := false
		for _, s := range ifs.Body.List {
			switch v := s.(type) {
			case *ast.ReturnStmt:
				rejects = true
			case *ast.ExprStmt:
				if call, isC := v.X.(*ast.CallExpr); isC {
					if id, isId := call.Fun.(*ast.Ident); isId && id.Name == "panic" {
						rejects = true
					}
				}
			}
		}
		if !rejects {
			return true
		}
		ast.Inspect(ifs.Cond, func(m ast.Node) bool {
			be, isB := m.(*ast.BinaryExpr)
			if !isB || (be.Op != token.GTR && be.Op != token.GEQ && be.Op != token.LSS && be.Op != token.LEQ) {
				return true
			}
			small, big := be.X, be.Y
			if be.Op == token.LSS || be.Op == token.LEQ {
				small, big = be.Y, be.X
			}
			// small > big rejects: small mentions the parameter, big is not a constant
			mentions := false
			ast.Inspect(small, func(k ast.Node) bool {
				if id, isId := k.(*ast.Ident); isId && id.Name == name {
					mentions = true
				}
				return true
			})
			if tv, has := info.Types[big]; mentions && (!has || tv.Value == nil) {
				ok = true
			}
			return true
		})
		return true
	})
	return ok
}

// taintGuarded: every decoded count inside e is bounded by a rejecting check before pos.
func taintGuarded(tc *taintCtx, fi *core.FuncInfo, e ast.Expr, pos token.Pos) bool {
	e = ast.Unparen(e)
	if be, ok := e.(*ast.BinaryExpr); ok {
		okAll := true
		for _, side := range []ast.Expr{be.X, be.Y} {
			if tc.source(fi, side, 0) != "" && !taintGuarded(tc, fi, side, pos) {
				okAll = false
			}
		}
		return okAll
	}
	return guardedBefore(fi, e, pos)
}

func c04AllocAndLoops(p *core.Program, r *core.Report) {
	x := wire.NewExtractor(p)
	tc := &taintCtx{p: p, x: x, fields: map[*types.Var]string{}}
	inScope := map[string]bool{}
	for _, k := range c04Pkgs {
		inScope[k] = true
	}
	var fns []*core.FuncInfo
	for _, fi := range p.Funcs {
		if inScope[core.RelPkg(fi.Pkg.PkgPath)] && fi.Decl.Body != nil {
			fns = append(fns, fi)
		}
	}
	// fields assigned from wide reads
	for _, fi := range fns {
		info := fi.Pkg.TypesInfo
		ast.Inspect(fi.Decl.Body, func(n ast.Node) bool {
			as, ok := n.(*ast.AssignStmt)
			if !ok || len(as.Lhs) != len(as.Rhs) {
				return true
			}
			for i, l := range as.Lhs {
				if sel, ok := l.(*ast.SelectorExpr); ok {
					if fv, ok := info.Uses[sel.Sel].(*types.Var); ok && fv.IsField() {
						if s := tc.source(fi, as.Rhs[i], 0); s != "" && !strings.HasPrefix(s, "field ") {
							tc.fields[fv] = s
						}
					}
				}
			}
			return true
		})
	}
	for _, fi := range fns {
		info := fi.Pkg.TypesInfo
		fname := core.FuncName(fi.Obj)
		usesStream := false
		ast.Inspect(fi.Decl.Body, func(n ast.Node) bool {
			if id, ok := n.(*ast.Ident); ok {
				if o := info.ObjectOf(id); o != nil && x.IsIn(o.Type()) {
					usesStream = true
				}
			}
			return true
		})
		nAlloc := 0
		allocSeen := map[string]int{}
		ast.Inspect(fi.Decl.Body, func(n ast.Node) bool {
			call, ok := n.(*ast.CallExpr)
			if !ok {
				return true
			}
			var sizeArgs []ast.Expr
			what := ""
			if id, ok := call.Fun.(*ast.Ident); ok && id.Name == "make" && len(call.Args) >= 2 {
				sizeArgs = call.Args[1:]
				what = "make(" + types.ExprString(call.Args[0]) + ")"
			} else if sel, ok := call.Fun.(*ast.SelectorExpr); ok && strings.HasPrefix(sel.Sel.Name, "New") && strings.HasSuffix(types.ExprString(sel.X), "hmap") && len(call.Args) >= 1 {
				sizeArgs = call.Args[:1]
				what = "hmap." + sel.Sel.Name
			} else if id, ok := call.Fun.(*ast.Ident); ok && strings.HasPrefix(id.Name, "New") && strings.Contains(id.Name, "Map") && core.RelPkg(fi.Pkg.PkgPath) == "util/hmap" && len(call.Args) >= 1 {
				sizeArgs = call.Args[:1]
				what = id.Name
			}
			// a helper of the module that sizes an allocation by one of its parameters (ensure(n),
			// grow(n)): passing it a decoded count allocates just the same. The bound has to be at the
			// call site, on the count that came off the wire (a limit inside the helper that is a
			// constant of the container, not of the input, bounds nothing a few bytes can ask for).
			if what == "" {
				if fn := calleeFunc(info, call); fn != nil {
					if cf := p.FuncOf(fn); cf != nil && cf.Decl.Body != nil && inScope[core.RelPkg(cf.Pkg.PkgPath)] && decodeHelperCall(x, fi, cf, call) {
						for _, pi := range allocSizingParams(cf) {
							if pi < len(call.Args) && !calleeBoundsParam(cf, pi) {
								a := call.Args[pi]
								if src := tc.source(fi, a, 0); src != "" {
									nAlloc++
									base := fmt.Sprintf("%s %s(…)", fname, fn.Name())
									allocSeen[base]++
									c := base
									if allocSeen[base] > 1 {
										c = fmt.Sprintf("%s #%d", base, allocSeen[base])
									}
									if taintGuarded(tc, fi, a, call.Pos()) {
										r.OK("C04.alloc", c, p.Pos(call.Pos()), "count from "+src+" is bounded by a rejecting check before the sizing helper is called")
									} else {
										r.Viol("C04.alloc", c, p.Pos(call.Pos()), fn.Name()+" allocates for "+stripSpaces(types.ExprString(a))+", a count decoded from the input ("+src+") that no check at this call site bounds: a few corrupted bytes allocate the whole announced size before any element is read")
									}
								}
							}
						}
					}
				}
			}
			for _, a := range sizeArgs {
				src := tc.source(fi, a, 0)
				if src == "" {
					continue
				}
				nAlloc++
				// identified by function and allocated type (a second allocation of the same type in the
				// same function gets an ordinal), not by how the count variable is spelled
				base := fmt.Sprintf("%s %s", fname, what)
				allocSeen[base]++
				c := base
				if allocSeen[base] > 1 {
					c = fmt.Sprintf("%s #%d", base, allocSeen[base])
				}
				detailCount := stripSpaces(types.ExprString(a))
				_ = detailCount
				if fname == "io.(*DataInputX).ReadBytes" {
					continue
				}
				if guardedBefore(fi, a, call.Pos()) {
					r.OK("C04.alloc", c, p.Pos(call.Pos()), "count from "+src+" is bounded by a rejecting check first")
				} else {
					r.Viol("C04.alloc", c, p.Pos(call.Pos()), "allocation sized by "+detailCount+", a count decoded from the input ("+src+") with no bound check: a few corrupted bytes allocate gigabytes before any element is read")
				}
			}
			return true
		})
		if !usesStream {
			continue
		}
		// loops bounded by decoded values
		ast.Inspect(fi.Decl.Body, func(n ast.Node) bool {
			var loopBody *ast.BlockStmt
			var bound ast.Expr
			var loop ast.Node
			switch lp := n.(type) {
			case *ast.ForStmt:
				if lp.Cond == nil {
					return true
				}
				be, ok := lp.Cond.(*ast.BinaryExpr)
				if !ok || (be.Op != token.LSS && be.Op != token.LEQ) {
					return true
				}
				bound = be.Y
				// i < len(x) with x = make(T, n): bounded by n
				if call, isCall := ast.Unparen(be.Y).(*ast.CallExpr); isCall && len(call.Args) == 1 {
					if id, isId := call.Fun.(*ast.Ident); isId && id.Name == "len" {
						if ml := wire.MadeLenExpr(info, fi.Decl.Body, call.Args[0]); ml != nil {
							bound = ml
						}
					}
				}
				loopBody, loop = lp.Body, lp
			case *ast.RangeStmt:
				// for i := range x, x = make(T, n) with n decoded
				ml := wire.MadeLenExpr(info, fi.Decl.Body, lp.X)
				if ml == nil {
					return true
				}
				bound, loopBody, loop = ml, lp.Body, lp
			default:
				return true
			}
			src := tc.source(fi, bound, 0)
			if src == "" {
				// also narrow counts: any stream read
				src = narrowSource(fi, x, bound)
			}
			if src == "" {
				return true
			}
			ps, over := paths.Enumerate(loopBody, paths.Config{Info: info, Classify: func(m ast.Node) []paths.Event {
				var out []paths.Event
				ast.Inspect(m, func(k ast.Node) bool {
					if c, ok := k.(*ast.CallExpr); ok {
						if sel, ok := c.Fun.(*ast.SelectorExpr); ok && strings.HasPrefix(sel.Sel.Name, "Read") {
							if tv, ok := info.Types[sel.X]; ok && x.IsIn(tv.Type) {
								out = append(out, paths.Event{Kind: "READ"})
							}
						}
						for _, a := range c.Args {
							if tv, ok := info.Types[a]; ok && x.IsIn(tv.Type) {
								out = append(out, paths.Event{Kind: "READ"}) // stream handed to a decoder
							}
						}
					}
					return true
				})
				return out
			}})
			c := fmt.Sprintf("%s loop < %s", fname, stripSpaces(types.ExprString(bound)))
			if over {
				r.Undec("C04.terminate", c, p.Pos(loop.Pos()), "too many paths")
				return true
			}
			ok2 := true
			for _, pa := range ps {
				if !pa.Has("READ") && !pa.Has("PANIC") {
					ok2 = false
				}
			}
			r.Check(ok2, "C04.terminate", c, p.Pos(loop.Pos()), "every iteration reads from the stream (ends in end-of-input panic on a corrupted count)",
				"an iteration can complete without reading from the stream: a corrupted count ("+src+") makes the loop spin for up to 2^31-2^63 iterations")
			return true
		})
	}
}

// narrowSource: like source but accepting any stream read (8/16-bit counts) — for loop termination.
func narrowSource(fi *core.FuncInfo, x *wire.Extractor, e ast.Expr) string {
	info := fi.Pkg.TypesInfo
	res := ""
	var visit func(e ast.Expr, d int)
	visit = func(e ast.Expr, d int) {
		if d > 4 || res != "" {
			return
		}
		ast.Inspect(e, func(n ast.Node) bool {
			switch v := n.(type) {
			case *ast.CallExpr:
				if sel, ok := v.Fun.(*ast.SelectorExpr); ok && strings.HasPrefix(sel.Sel.Name, "Read") {
					if tv, ok := info.Types[sel.X]; ok && x.IsIn(tv.Type) {
						res = sel.Sel.Name
					}
				}
			case *ast.Ident:
				obj := info.ObjectOf(v)
				if obj == nil {
					return true
				}
				ast.Inspect(fi.Decl.Body, func(m ast.Node) bool {
					if as, ok := m.(*ast.AssignStmt); ok && len(as.Lhs) == len(as.Rhs) {
						for i, l := range as.Lhs {
							if id, ok := l.(*ast.Ident); ok && info.ObjectOf(id) == obj && id != v {
								visit(as.Rhs[i], d+1)
							}
						}
					}
					return true
				})
			}
			return res == ""
		})
	}
	visit(e, 0)
	return res
}

// c04NoEarlyStop: the condition of a counted decoding loop (and any break inside it) must not depend
// on Available(): a record truncated at an element boundary would decode as a shorter record.
func c04NoEarlyStop(p *core.Program, r *core.Report) {
	x := wire.NewExtractor(p)
	for _, fi := range p.Funcs {
		rel := core.RelPkg(fi.Pkg.PkgPath)
		if fi.Decl.Body == nil || !(strings.HasPrefix(rel, "lang/") || rel == "io" || rel == "util/list" || rel == "util/hmap" || rel == "util/hll") {
			continue
		}
		_, ins := rootStreams(x, fi)
		if len(ins) == 0 {
			continue
		}
		info := fi.Pkg.TypesInfo
		mentionsAvail := func(n ast.Node) bool {
			found := false
			ast.Inspect(n, func(m ast.Node) bool {
				if call, ok := m.(*ast.CallExpr); ok {
					if sel, ok := call.Fun.(*ast.SelectorExpr); ok && sel.Sel.Name == "Available" {
						if tv, ok := info.Types[sel.X]; ok && x.IsStream(tv.Type) {
							found = true
						}
					}
				}
				return true
			})
			return found
		}
		loops := 0
		var probs []string
		ast.Inspect(fi.Decl.Body, func(n ast.Node) bool {
			var body *ast.BlockStmt
			switch v := n.(type) {
			case *ast.ForStmt:
				body = v.Body
				loops++
				if v.Cond != nil && mentionsAvail(v.Cond) {
					probs = append(probs, p.Pos(v.Pos())+": the loop condition looks at Available(): the loop ends quietly when the input runs out")
				}
			case *ast.RangeStmt:
				body = v.Body
				loops++
			}
			if body != nil {
				ast.Inspect(body, func(m ast.Node) bool {
					if ifs, ok := m.(*ast.IfStmt); ok && mentionsAvail(ifs.Cond) {
						ast.Inspect(ifs.Body, func(k ast.Node) bool {
							if br, ok := k.(*ast.BranchStmt); ok && br.Tok == token.BREAK {
								probs = append(probs, p.Pos(ifs.Pos())+": the loop is left when Available() runs out")
							}
							if _, ok := k.(*ast.ReturnStmt); ok {
								probs = append(probs, p.Pos(ifs.Pos())+": the decoder returns from inside the loop when Available() runs out")
							}
							return true
						})
					}
					return true
				})
			}
			return true
		})
		if loops > 0 {
			fileProbs(r, "C04.no-early-stop", core.FuncName(fi.Obj), p.Pos(fi.Decl.Pos()), uniq(probs), "element loops run to their decoded count")
		}
	}
}

// c04OwnExtent: every X.Available() in a decoder is asked of a stream whose extent the decoder knows —
// a local built by io.NewDataInputX(<bytes>) — or of a stream parameter that every caller in the
// module fills with such a local. Asking the stream the decoder was handed lets a message cut off
// before an optional tail pass for the older format.
func c04OwnExtent(p *core.Program, r *core.Report) {
	ownExtentRule(p, r, "C04.own-extent", "lang/", "what is left there belongs to the next record, and a message cut off before this point decodes as the older, shorter format")
}

// ownExtentRule is the rule for the functions under the given package prefix, reported under `rule`.
func ownExtentRule(p *core.Program, r *core.Report, rule, scope, consequence string) {
	x := wire.NewExtractor(p)
	inScope := func(fi *core.FuncInfo) bool {
		rel := core.RelPkg(fi.Pkg.PkgPath)
		return fi.Decl.Body != nil && strings.HasPrefix(rel, scope)
	}
	// localNested: is the stream expression a local built over bytes in this function?
	localNested := func(fi *core.FuncInfo, e ast.Expr) bool {
		info := fi.Pkg.TypesInfo
		id, ok := ast.Unparen(e).(*ast.Ident)
		if !ok {
			return false
		}
		obj := info.ObjectOf(id)
		built, other := 0, 0
		ast.Inspect(fi.Decl.Body, func(n ast.Node) bool {
			switch v := n.(type) {
			case *ast.AssignStmt:
				if len(v.Lhs) != len(v.Rhs) {
					return true
				}
				for i, l := range v.Lhs {
					if lid, ok := l.(*ast.Ident); ok && info.ObjectOf(lid) == obj {
						if call, ok := ast.Unparen(v.Rhs[i]).(*ast.CallExpr); ok && isCallTo(info, call, core.ModPath+"/io", "NewDataInputX") {
							built++
						} else {
							other++
						}
					}
				}
			case *ast.ValueSpec:
				for i, nm := range v.Names {
					if info.Defs[nm] == obj && i < len(v.Values) {
						if call, ok := ast.Unparen(v.Values[i]).(*ast.CallExpr); ok && isCallTo(info, call, core.ModPath+"/io", "NewDataInputX") {
							built++
						} else {
							other++
						}
					}
				}
			}
			return true
		})
		return built > 0 && other == 0
	}
	for _, fi := range p.Funcs {
		if !inScope(fi) {
			continue
		}
		info := fi.Pkg.TypesInfo
		var probs []string
		asks := 0
		ast.Inspect(fi.Decl.Body, func(n ast.Node) bool {
			call, ok := n.(*ast.CallExpr)
			if !ok {
				return true
			}
			sel, ok := call.Fun.(*ast.SelectorExpr)
			if !ok || sel.Sel.Name != "Available" {
				return true
			}
			if tv, ok := info.Types[sel.X]; !ok || !x.IsStream(tv.Type) {
				return true
			}
			asks++
			if localNested(fi, sel.X) {
				return true
			}
			// a stream parameter: fine when every caller hands in a stream it built over a blob
			if id, ok := ast.Unparen(sel.X).(*ast.Ident); ok {
				if pi := paramIndexOf(fi, info.ObjectOf(id)); pi >= 0 {
					callers, good := 0, 0
					for _, cf := range p.Funcs {
						if cf.Decl.Body == nil {
							continue
						}
						cinfo := cf.Pkg.TypesInfo
						ast.Inspect(cf.Decl.Body, func(m ast.Node) bool {
							cc, ok := m.(*ast.CallExpr)
							if !ok || pi >= len(cc.Args) {
								return true
							}
							var cid *ast.Ident
							switch f := ast.Unparen(cc.Fun).(type) {
							case *ast.Ident:
								cid = f
							case *ast.SelectorExpr:
								cid = f.Sel
							}
							if cid == nil || cinfo.Uses[cid] != types.Object(fi.Obj) {
								return true
							}
							callers++
							if localNested(cf, cc.Args[pi]) {
								good++
							}
							return true
						})
					}
					if callers > 0 && callers == good {
						return true
					}
				}
			}
			probs = append(probs, fmt.Sprintf("%s.Available() at %s is asked of the stream the decoder was handed: %s", types.ExprString(sel.X), p.Pos(call.Pos()), consequence))
			return true
		})
		if asks > 0 {
			fileProbs(r, rule, core.FuncName(fi.Obj), p.Pos(fi.Decl.Pos()), probs, "Available() is asked only of a stream built over a length-delimited blob")
		}
	}
}

// paramIndexOf: the position of obj among fi's parameters, or -1.
func paramIndexOf(fi *core.FuncInfo, obj types.Object) int {
	i := 0
	for _, f := range fi.Decl.Type.Params.List {
		for _, n := range f.Names {
			if fi.Pkg.TypesInfo.Defs[n] == obj {
				return i
			}
			i++
		}
		if len(f.Names) == 0 {
			i++
		}
	}
	return -1
}

// c04FillLoop: a loop in ReadBytes that fills the buffer from a Read call goes round again only when
// that Read reported no error: every path through its body on which the error is non-nil (or was
// never looked at) ends in panic or return. A peer that closes mid-value makes Read return (0, EOF)
// for ever — a loop that carries on with an error in hand never terminates.
func c04FillLoop(p *core.Program, r *core.Report, fi *core.FuncInfo, c string) {
	info := fi.Pkg.TypesInfo
	ast.Inspect(fi.Decl.Body, func(n ast.Node) bool {
		loop, ok := n.(*ast.ForStmt)
		if !ok {
			return true
		}
		// the error variable of a Read call in the loop body
		var errObj types.Object
		ast.Inspect(loop.Body, func(m ast.Node) bool {
			if as, ok := m.(*ast.AssignStmt); ok && len(as.Lhs) == 2 && len(as.Rhs) == 1 {
				if call, ok := ast.Unparen(as.Rhs[0]).(*ast.CallExpr); ok {
					if sel, ok := call.Fun.(*ast.SelectorExpr); ok && sel.Sel.Name == "Read" {
						if id, ok := as.Lhs[1].(*ast.Ident); ok && id.Name != "_" {
							errObj = info.ObjectOf(id)
						} else {
							errObj = nil
						}
						if errObj == nil {
							r.Viol("C04.shortread", c+" fill loop", p.Pos(as.Pos()), "the error of the Read that fills the buffer is discarded: a closed connection makes the loop spin for ever")
						}
					}
				}
			}
			return true
		})
		if errObj == nil {
			return true
		}
		norm := func(e ast.Expr) string {
			return stripSpaces(types.ExprString(e))
		}
		errName := errObj.Name()
		ps, over := paths.Enumerate(loop.Body, paths.Config{Info: info,
			Cond: func(cnd ast.Expr, v bool) *paths.Event {
				return &paths.Event{Kind: "COND", Arg: condKey(info, norm, cnd, v), Pos: cnd.Pos()}
			},
			Classify: func(m ast.Node) []paths.Event {
				var out []paths.Event
				ast.Inspect(m, func(k ast.Node) bool {
					if call, ok := k.(*ast.CallExpr); ok {
						if sel, ok := call.Fun.(*ast.SelectorExpr); ok && sel.Sel.Name == "Read" {
							out = append(out, paths.Event{Kind: "FILL", Pos: call.Pos()})
						}
					}
					return true
				})
				return out
			}})
		if over {
			r.Undec("C04.shortread", c+" fill loop", p.Pos(loop.Pos()), "too many paths")
			return true
		}
		bad := ""
		for _, pa := range ps {
			if !pa.Consistent() || !pa.Has("FILL") {
				continue
			}
			last := pa[len(pa)-1].Kind
			if last == "PANIC" || last == "RET" {
				continue
			}
			// the path goes round again: it must have established err == nil after the fill
			fi := pa.Index("FILL")
			okNil := false
			for _, e := range pa[fi:] {
				if e.Kind == "COND" && (e.Arg == errName+"==nil=true") {
					okNil = true
				}
			}
			if !okNil && bad == "" {
				bad = "a path through the fill loop carries on although Read returned an error (or without looking at it): " + pa.String() + " — a peer that closes mid-value makes Read return (0, EOF) for ever"
			}
		}
		r.Check(bad == "", "C04.shortread", c+" fill loop", p.Pos(loop.Pos()), "the loop goes round again only after Read reported no error", bad)
		return true
	})
}
