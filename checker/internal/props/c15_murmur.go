package props

import (
	"go/ast"
	"go/token"
	"go/types"

	"golibcheck/internal/core"
)

// c15Finalised: every murmur variant ends in a finalisation (avalanche): a run of `h ^= h >> k`
// steps (with multiplications between them) after the blocks and the tail have been mixed in. The
// reference algorithms have exactly one way out, after that run, for every input length including
// zero. In every function of the hash package that contains such steps at the top level of its body,
// no return statement lies before the last of them: a way out that skips the finalisation hands back
// a value that is not the reference hash of its input (the finalisation is a bijection that is not
// the identity, so no state is its own image for all seeds).
func c15Finalised(p *core.Program, r *core.Report, rule string, pkgs []string) {
	for _, rel := range pkgs {
		pk := p.Pkg(rel)
		if pk == nil {
			continue
		}
		for _, fi := range p.Funcs {
			if fi.Pkg != pk || fi.Decl.Body == nil {
				continue
			}
			info := fi.Pkg.TypesInfo
			var mixes []token.Pos
			for _, st := range fi.Decl.Body.List {
				as, ok := st.(*ast.AssignStmt)
				if !ok || len(as.Lhs) != 1 || len(as.Rhs) != 1 {
					continue
				}
				lid, ok := as.Lhs[0].(*ast.Ident)
				if !ok {
					continue
				}
				// h ^= h >> k   |   h = h ^ (h >> k)
				var shifted ast.Expr
				switch {
				case as.Tok == token.XOR_ASSIGN:
					shifted = as.Rhs[0]
				case as.Tok == token.ASSIGN:
					if be, ok := ast.Unparen(as.Rhs[0]).(*ast.BinaryExpr); ok && be.Op == token.XOR {
						if x, ok := ast.Unparen(be.X).(*ast.Ident); ok && info.ObjectOf(x) == info.ObjectOf(lid) {
							shifted = be.Y
						} else if y, ok := ast.Unparen(be.Y).(*ast.Ident); ok && info.ObjectOf(y) == info.ObjectOf(lid) {
							shifted = be.X
						}
					}
				}
				if shifted == nil {
					continue
				}
				if sh, ok := ast.Unparen(shifted).(*ast.BinaryExpr); ok && sh.Op == token.SHR {
					if x, ok := ast.Unparen(sh.X).(*ast.Ident); ok && info.ObjectOf(x) == info.ObjectOf(lid) {
						mixes = append(mixes, as.Pos())
					}
				}
			}
			if len(mixes) < 2 {
				continue
			}
			last := mixes[len(mixes)-1]
			bad := ""
			ast.Inspect(fi.Decl.Body, func(n ast.Node) bool {
				if _, isLit := n.(*ast.FuncLit); isLit {
					return false
				}
				if rs, ok := n.(*ast.ReturnStmt); ok && rs.Pos() < last {
					what := "returns"
					if len(rs.Results) == 1 {
						what = "returns " + types.ExprString(rs.Results[0])
					}
					bad = what + " at " + p.Pos(rs.Pos()) + ", before the finalisation steps that end at " + p.Pos(last) + ": for the inputs that take this way out the value is not the reference hash"
				}
				return true
			})
			r.Check(bad == "", rule, core.FuncName(fi.Obj), p.Pos(fi.Decl.Pos()), "the only way out is after the finalisation", bad)
		}
	}
}
