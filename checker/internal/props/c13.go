package props

import (
	"fmt"
	"go/ast"
	"go/token"
	"go/types"
	"strings"

	"golibcheck/internal/core"
	"golibcheck/internal/paths"
	"golibcheck/internal/wire"
)

// C13 — typed lists are faithful sequences; sorting yields an ordering permutation.
func init() { register(&Checker{ID: "C13", Canaries: c13Canaries, Run: runC13}) }

var c13Lists = []string{"IntList", "LongList", "FloatList", "DoubleList", "StringList"}

func c13Canaries() []core.Canary {
	return []core.Canary{{RelDir: "util/list", Name: "c13", Src: `package list

import (
	"sort"

	"github.com/whatap/golib/util/compare"
)

type zzCanaryList struct {
	size  int
	table []int
}

func (this *zzCanaryList) get(i int) int { return this.table[i] }
func (this *zzCanaryList) add(e int) {
	this.table[this.size] = e
	this.size++
}

type zzCanaryKeyVal struct {
	key   int
	value int
}

type zzCanarySortable struct {
	compare func(a, b *zzCanaryKeyVal) bool
	data    []*zzCanaryKeyVal
}

func (s zzCanarySortable) Len() int           { return len(s.data) }
func (s zzCanarySortable) Less(i, j int) bool { return s.compare(s.data[i], s.data[j]) }
func (s zzCanarySortable) Swap(i, j int)      { s.data[i], s.data[j] = s.data[j], s.data[i] }

// descending order also flips the child tie-break
func (this *zzCanaryList) SortingAnyList(asc bool, child AnyList, childAsc bool) []int {
	table := make([]*zzCanaryKeyVal, this.size)
	for i := 0; i < this.size; i++ {
		table[i] = &zzCanaryKeyVal{i, this.get(i)}
	}
	c := func(o1, o2 *zzCanaryKeyVal) bool {
		rt := compare.CompareToInt(o1.value, o2.value)
		if rt == 0 {
			rt = CompareChild(child, childAsc, o1.key, o2.key)
		}
		if !asc {
			rt = -rt
		}
		return rt <= 0
	}
	sort.Sort(zzCanarySortable{compare: c, data: table})
	out := make([]int, this.size)
	for i := 0; i < this.size; i++ {
		out[i] = table[i].key
	}
	return out
}

type zzCanaryLinked struct {
	size        int
	first, last *LinkedListEntity
}

// head removal that forgets the tail pointer when the list becomes empty
func (o *zzCanaryLinked) RemoveFirst() interface{} {
	f := o.first
	if f == nil {
		return nil
	}
	o.first = f.next
	if o.first != nil {
		o.first.prev = nil
	}
	o.size--
	return f.Value
}
`, Expect: []core.CanaryExpect{{Rule: "C13.bounds", Sub: "zzCanaryList.get"}, {Rule: "C13.bounds", Sub: "zzCanaryList.add"},
		{Rule: "C13.sort", Sub: "zzCanaryList.SortingAnyList"}, {Rule: "C13.linked", Sub: "zzCanaryLinked.RemoveFirst"}}}}
}

func listNamed(p *core.Program, name string) *types.Named {
	pk := p.Pkg("util/list")
	if pk == nil {
		return nil
	}
	if o := pk.Types.Scope().Lookup(name); o != nil {
		n, _ := o.Type().(*types.Named)
		return n
	}
	return nil
}

func runC13(p *core.Program, r *core.Report) {
	r.Explanation = "Structural rules for the growable typed lists and the linked list (util/list). Bounds: get/set reject i >= size on every path before indexing; add calls ensure(size+1) before the store at table[size] and increments size once; ensure grows to at least the requested capacity (1.5x or the minimum) and copies the old contents. Serial form: Write~Read agree (Int3 count + elements; wire grammar). Sorting: the comparator closure is interpreted over the finite domain {primary less/equal/greater} x {asc, desc} x {child less/equal/greater}: it must say 'before' exactly when the primary order (in the requested direction) says so and consult the child only on primary ties, with the child's own direction; the result is built from one (index,value) pair per index, so it is a permutation by construction. Filtering appends get(index[i]) for i ascending. Linked list: tail insertion / head removal keep first, last and size consistent on every path (including the list becoming empty)."
	r.NotDecided = []string{"sequence semantics over histories", "sort.Sort's behaviour with a non-strict less (all comparators return true on equality; reported as information)", "negative indices rely on the runtime's bounds panic"}
	r.Rule("C13.bounds", "get/set reject i >= size before indexing; add ensures capacity then stores at table[size] and counts once; ensure grows enough and copies", 18)
	r.Rule("C13.serial", "typed list Write~Read agree on the layout", 5)
	r.Rule("C13.no-sub-compare", "no comparison used for sorting is computed as a (narrowed) difference of wide integers", 1)
	subtractCompareLint(p, r, "C13.no-sub-compare", []string{"util/list", "util/compare"})
	r.Rule("C13.sort", "comparators order by the primary list in the requested direction and break ties by the child list in the child's direction (all 18 orderings)", 9)
	r.Rule("C13.perm", "sorting returns the original indices of the sorted (index,value) pairs: one pair per index", 9)
	r.Rule("C13.filter", "filtering appends get(index[i]) for i ascending", 5)
	r.Rule("C13.copy-out", "a list hands out its elements as a slice of exactly size elements: never the backing table itself, the whole table appended, or a result sized by the table's length", 3)
	r.Rule("C13.own-table", "no method of a typed list installs a slice it was handed as its backing table", 5)
	r.Rule("C13.linked", "linked list insert/unlink keep first/last/size consistent on every path", 5)

	names := append([]string{}, c13Lists...)
	if listNamed(p, "zzCanaryList") != nil {
		names = append(names, "zzCanaryList")
	}
	for _, n := range names {
		t := listNamed(p, n)
		if t == nil {
			r.Undec("C13.bounds", "util/list."+n, "-", "type not found")
			continue
		}
		c13Bounds(p, r, t)
		c13CopyOut(p, r, t)
		c13OwnTable(p, r, t)
		c13Sort(p, r, t)
		c13Filter(p, r, t)
	}
	// serial
	x := wire.NewExtractor(p)
	pairs, _ := discoverPairs(p, x, []string{"util/list"})
	runPairs(p, x, r, pairs, pairRules{"C13.serial", "", ""}, 3)
	// the pack that carries typed lists re-creates each column from the type byte its GetType() wrote
	if cf := p.Method("lang/pack", "StatGeneralPack", "create"); cf != nil && cf.Decl.Body != nil {
		checkRegistryFI(p, r, "C13.serial", cf, "lang/pack", "StatGeneralPack.create", "util/list", "AnyList", "GetType")
	} else if cf := p.Func("lang/pack", "create"); cf != nil && cf.Decl.Body != nil {
		checkRegistryFI(p, r, "C13.serial", cf, "lang/pack", "create", "util/list", "AnyList", "GetType")
	}
	for _, n := range []string{"LinkedList", "zzCanaryLinked"} {
		if t := listNamed(p, n); t != nil {
			c13Linked(p, r, t, "C13.linked")
		}
	}
}

// c13Prog: the program under analysis (set by runC13/runC11 users of simplePaths) — lets simplePaths
// follow guard helpers.
var c13Prog *core.Program

// guardHelper: a call of a function of the module whose body is nothing but rejecting guards
// (`if cond { panic(...) }` statements): checkIndex(head, i, size). Its body with the arguments in place.
func guardHelperBody(in *inliner, call *ast.CallExpr) *ast.BlockStmt {
	b := in.Body(call)
	if b == nil || len(b.List) == 0 {
		return nil
	}
	for _, st := range b.List {
		ifs, ok := st.(*ast.IfStmt)
		if !ok || ifs.Else != nil || ifs.Init != nil || len(ifs.Body.List) != 1 {
			return nil
		}
		es, ok := ifs.Body.List[0].(*ast.ExprStmt)
		if !ok {
			return nil
		}
		c, ok := es.X.(*ast.CallExpr)
		if !ok {
			return nil
		}
		if id, ok := c.Fun.(*ast.Ident); !ok || id.Name != "panic" {
			return nil
		}
	}
	return b
}

func simplePaths(fi *core.FuncInfo, classify func(ast.Node) []paths.Event) ([]paths.Path, bool) {
	rn := recvName(fi)
	var inl func(call *ast.CallExpr) *ast.BlockStmt
	if c13Prog != nil {
		in := newInliner(c13Prog, fi, nil)
		inl = func(call *ast.CallExpr) *ast.BlockStmt { return guardHelperBody(in, call) }
	}
	return paths.Enumerate(fi.Decl.Body, paths.Config{
		Info:     fi.Pkg.TypesInfo,
		Inline:   inl,
		Classify: classify,
		Cond: func(c ast.Expr, v bool) *paths.Event {
			norm := func(e ast.Expr) string { return strings.ReplaceAll(stripSpaces(types.ExprString(e)), rn+".", "") }
			return &paths.Event{Kind: "COND", Arg: condKey(fi.Pkg.TypesInfo, norm, c, v), Pos: c.Pos()}
		},
	})
}

func c13Bounds(p *core.Program, r *core.Report, t *types.Named) {
	c13Prog = p
	tn := "util/list." + t.Obj().Name()
	for _, fi := range p.MethodsOf(t) {
		if fi.Decl.Body == nil {
			continue
		}
		name := fi.Obj.Name()
		rn := recvName(fi)
		norm := func(e ast.Expr) string { return strings.ReplaceAll(stripSpaces(types.ExprString(e)), rn+".", "") }
		pos := p.Pos(fi.Decl.Pos())
		switch name {
		case "get", "set":
			if fi.Decl.Type.Params == nil || len(fi.Decl.Type.Params.List) == 0 {
				continue
			}
			idx := fi.Decl.Type.Params.List[0].Names[0].Name
			ps, _ := simplePaths(fi, func(n ast.Node) []paths.Event {
				var out []paths.Event
				ast.Inspect(n, func(m ast.Node) bool {
					if ix, ok := m.(*ast.IndexExpr); ok && norm(ix.X) == "table" && norm(ix.Index) == idx {
						out = append(out, paths.Event{Kind: "INDEX", Pos: ix.Pos()})
					}
					return true
				})
				return out
			})
			ok := len(ps) > 0
			why := ""
			used := false
			for _, pa := range ps {
				i := pa.Index("INDEX")
				if i < 0 {
					continue
				}
				used = true
				g := pa.IndexArg("COND", idx+">=size=false")
				if g < 0 || g > i {
					g = pa.IndexArg("COND", idx+"<size=true")
				}
				if g < 0 || g > i {
					ok, why = false, "table["+idx+"] is reached without rejecting "+idx+" >= size first: a stale slot beyond the logical size is returned/overwritten"
				}
			}
			if !used {
				ok, why = false, "no indexed access found"
			}
			r.Check(ok, "C13.bounds", tn+"."+name, pos, "rejects i >= size before indexing", why)
		case "remove":
			// remove(i): the elements after i move down by one (all of them), and the list is one
			// shorter afterwards
			if fi.Decl.Type.Params == nil || len(fi.Decl.Type.Params.List) == 0 || len(fi.Decl.Type.Params.List[0].Names) == 0 {
				continue
			}
			info := fi.Pkg.TypesInfo
			iobj := info.Defs[fi.Decl.Type.Params.List[0].Names[0]]
			atom := func(e ast.Expr) (string, bool) {
				e = ast.Unparen(e)
				if id, ok := e.(*ast.Ident); ok && info.ObjectOf(id) == iobj {
					return "i", true
				}
				if norm(e) == "size" {
					return "size", true
				}
				return "", false
			}
			var probs []string
			decs, copies := 0, 0
			decPos := token.NoPos // where the size is decremented: afterwards `size` means one less
			ast.Inspect(fi.Decl.Body, func(n ast.Node) bool {
				switch v := n.(type) {
				case *ast.IncDecStmt:
					if norm(v.X) == "size" && v.Tok == token.DEC && !decPos.IsValid() {
						decPos = v.Pos()
					}
				case *ast.AssignStmt:
					for k, l := range v.Lhs {
						if norm(l) == "size" && k < len(v.Rhs) && !decPos.IsValid() {
							decPos = v.Pos()
						}
					}
				}
				return true
			})
			ast.Inspect(fi.Decl.Body, func(n ast.Node) bool {
				switch v := n.(type) {
				case *ast.IncDecStmt:
					if norm(v.X) == "size" && v.Tok == token.DEC {
						decs++
					}
				case *ast.AssignStmt:
					for k, l := range v.Lhs {
						if norm(l) != "size" || k >= len(v.Rhs) {
							continue
						}
						if v.Tok == token.SUB_ASSIGN {
							if c, ok := constIntOf(info, v.Rhs[k]); ok && c == 1 {
								decs++
							}
						} else if f, ok := linearize(info, fi.Decl.Body, v.Rhs[k], atom); ok && lformKey(f) == lformKey(lform{"size": 1, "": -1}) {
							decs++
						}
					}
				case *ast.CallExpr:
					id, ok := v.Fun.(*ast.Ident)
					if !ok || id.Name != "copy" || len(v.Args) != 2 {
						return true
					}
					copies++
					dst, ok1 := ast.Unparen(v.Args[0]).(*ast.SliceExpr)
					src, ok2 := ast.Unparen(v.Args[1]).(*ast.SliceExpr)
					if !ok1 || !ok2 || norm(dst.X) != "table" || norm(src.X) != "table" || src.Low == nil || dst.Low == nil {
						probs = append(probs, "the tail is not moved by copy(table[i:...], table[i+1:...])")
						return true
					}
					dl, okd := linearize(info, fi.Decl.Body, dst.Low, atom)
					sl, oks := linearize(info, fi.Decl.Body, src.Low, atom)
					if !okd || !oks || lformKey(dl) != lformKey(lform{"i": 1}) || lformKey(sl) != lformKey(lform{"i": 1, "": 1}) {
						probs = append(probs, "the tail is not moved from i+1 down to i")
						return true
					}
					// the number of elements moved is min(len(dst), len(src)): both must reach size-i-1
					want := lformKey(lform{"size": 1, "i": -1, "": -1})
					for _, se := range []*ast.SliceExpr{dst, src} {
						if se.High == nil {
							continue // to the end of the backing array: long enough
						}
						hi, okh := linearize(info, fi.Decl.Body, se.High, atom)
						lo, _ := linearize(info, fi.Decl.Body, se.Low, atom)
						if !okh {
							probs = append(probs, "cannot read the bounds of "+norm(se))
							continue
						}
						ln := hi.plus(lo, -1)
						if decPos.IsValid() && v.Pos() > decPos {
							// the size was already decremented: `size` here is the old size minus one
							ln = ln.plus(lform{"": ln["size"]}, -1)
						}
						if lformKey(ln) != want {
							probs = append(probs, fmt.Sprintf("%s holds %s elements, the tail after i has size-i-1 (size as on entry): the last element(s) are not moved down", norm(se), lformKey(ln)))
						}
					}
				}
				return true
			})
			if copies == 0 {
				probs = append(probs, "the elements after i are not moved down")
			}
			if decs != 1 {
				probs = append(probs, fmt.Sprintf("size is decremented %d times: the list does not get shorter, the removed slot stays part of it", decs))
			}
			fileProbs(r, "C13.bounds", tn+".remove", pos, uniq(probs), "tail moved down by one, size decremented once")
		case "add":
			ps, _ := simplePaths(fi, func(n ast.Node) []paths.Event {
				var out []paths.Event
				switch v := n.(type) {
				case *ast.ExprStmt:
					if call, ok := v.X.(*ast.CallExpr); ok && strings.HasSuffix(norm(call.Fun), "ensure") && len(call.Args) == 1 {
						out = append(out, paths.Event{Kind: "ENSURE", Arg: norm(call.Args[0]), Pos: v.Pos()})
					}
				case *ast.AssignStmt:
					if ix, ok := v.Lhs[0].(*ast.IndexExpr); ok && norm(ix.X) == "table" {
						out = append(out, paths.Event{Kind: "STORE", Arg: norm(ix.Index), Pos: v.Pos()})
					}
					if norm(v.Lhs[0]) == "size" {
						out = append(out, paths.Event{Kind: "SIZE", Arg: v.Tok.String() + norm(v.Rhs[0]), Pos: v.Pos()})
					}
				case *ast.IncDecStmt:
					if norm(v.X) == "size" {
						out = append(out, paths.Event{Kind: "SIZE", Arg: v.Tok.String(), Pos: v.Pos()})
					}
				}
				return out
			})
			ok := len(ps) > 0
			why := ""
			for _, pa := range ps {
				e, s, z := pa.IndexArg("ENSURE", "size+1"), pa.IndexArg("STORE", "size"), pa.Index("SIZE")
				switch {
				case e < 0 || s < 0 || e > s:
					ok, why = false, "the store at table[size] is not preceded by ensure(size+1)"
				case z < s || pa.Count("SIZE") != 1 || (pa[z].Arg != "++" && pa[z].Arg != "+=1"):
					ok, why = false, "size is not incremented exactly once after the store"
				}
			}
			r.Check(ok, "C13.bounds", tn+".add", pos, "ensure(size+1); table[size]=e; size++", why)
		case "AddAll", "AddAllArray":
			// bulk add appends exactly the other list's elements: every loop/copy that moves elements is
			// bounded by the other side's element count (other.size / len(param)), never by its capacity,
			// and size advances by that same count
			info := fi.Pkg.TypesInfo
			if fi.Decl.Type.Params.NumFields() != 1 {
				continue
			}
			pn := fi.Decl.Type.Params.List[0].Names[0].Name
			_, isSlice := info.TypeOf(fi.Decl.Type.Params.List[0].Type).Underlying().(*types.Slice)
			count := pn + ".size"
			if isSlice {
				count = "len(" + pn + ")"
			}
			var probs []string
			moved := false
			ast.Inspect(fi.Decl.Body, func(m ast.Node) bool {
				switch v := m.(type) {
				case *ast.CallExpr:
					if id, ok := v.Fun.(*ast.Ident); ok && id.Name == "copy" && len(v.Args) == 2 {
						moved = true
						src := norm(v.Args[1])
						okSrc := false
						if isSlice {
							okSrc = src == pn
						} else {
							okSrc = src == pn+".table[:"+pn+".size]" || src == pn+".table[0:"+pn+".size]"
						}
						if !okSrc {
							probs = append(probs, "copies `"+src+"`, which is not exactly the other side's elements (its backing array can be longer than its size): unused slots are appended as phantom elements")
						}
					}
				case *ast.ForStmt:
					if be, ok := v.Cond.(*ast.BinaryExpr); ok && be.Op == token.LSS {
						b := norm(be.Y)
						if id, isId := be.Y.(*ast.Ident); isId {
							if d := localDefIn(info, fi.Decl.Body, id); d != nil {
								b = norm(d)
							}
						}
						moved = true
						if b != count {
							probs = append(probs, "the copying loop runs to `"+b+"`, not to the other side's element count "+count)
						}
						// the other list may be this list (l.AddAll(l)): a bound that re-reads the other
						// side's size field on every iteration chases the size the body raises and runs off
						// the end of the table; the count has to be taken once, in front of the loop (as the
						// slice form takes len(other))
						if _, direct := ast.Unparen(be.Y).(*ast.SelectorExpr); direct && !isSlice {
							raises := false
							ast.Inspect(v.Body, func(k ast.Node) bool {
								switch x := k.(type) {
								case *ast.IncDecStmt:
									if norm(x.X) == "size" {
										raises = true
									}
								case *ast.AssignStmt:
									for _, l := range x.Lhs {
										if norm(l) == "size" {
											raises = true
										}
									}
								}
								return true
							})
							if raises {
								probs = append(probs, "the copying loop re-reads "+count+" on every iteration while its body raises the receiver's size: appending a list to itself (l.AddAll(l)) never reaches the bound and indexes past the table")
							}
						}
					}
				case *ast.RangeStmt:
					moved = true
					rx := norm(v.X)
					if !(rx == pn || rx == pn+".table[:"+pn+".size]") {
						probs = append(probs, "ranges over `"+rx+"`, not over exactly the other side's elements")
					}
				case *ast.AssignStmt:
					if len(v.Lhs) == 1 && norm(v.Lhs[0]) == "size" && v.Tok == token.ADD_ASSIGN {
						rs := norm(v.Rhs[0])
						if rs != count && rs != "1" && !strings.HasPrefix(rs, "copy(") {
							probs = append(probs, "size advances by `"+rs+"`")
						}
					}
				}
				return true
			})
			if !moved {
				probs = append(probs, "no loop or copy moves the elements")
			}
			fileProbs(r, "C13.bounds", tn+"."+name, pos, uniq(probs), "appends exactly the other side's elements")
		case "ensure":
			// Path rule: whenever ensure(min) returns, the table holds at least `min` slots and the old
			// contents. On every path that installs a new table: it was made with a size N that the path
			// shows to be >= the requested capacity (N was assigned from it, or `N < min` was tested false
			// after N's last change), the requested capacity itself was not lowered on the way, and the
			// old contents were copied in before the install. Paths that install nothing must have found
			// the table large enough.
			info := fi.Pkg.TypesInfo
			if fi.Decl.Type.Params.NumFields() != 1 {
				r.Undec("C13.bounds", tn+".ensure", pos, "unexpected signature")
				continue
			}
			pid := fi.Decl.Type.Params.List[0].Names[0]
			pobj := info.Defs[pid]
			pn := pid.Name
			ps, over := simplePaths(fi, func(m ast.Node) []paths.Event {
				var out []paths.Event
				switch v := m.(type) {
				case *ast.AssignStmt:
					if len(v.Lhs) == len(v.Rhs) {
						for i, l := range v.Lhs {
							ls, rs := norm(l), norm(v.Rhs[i])
							if ls == "table" {
								out = append(out, paths.Event{Kind: "INSTALL", Arg: rs, Pos: v.Pos(), Node: v.Rhs[i]})
							} else if _, isId := l.(*ast.Ident); isId {
								out = append(out, paths.Event{Kind: "ASSIGN", Arg: ls + "=" + rs, Pos: v.Pos(), Node: v.Rhs[i]})
							}
						}
					}
				case *ast.ExprStmt:
					if call, ok := v.X.(*ast.CallExpr); ok {
						if id, ok := call.Fun.(*ast.Ident); ok && id.Name == "copy" && len(call.Args) == 2 {
							out = append(out, paths.Event{Kind: "COPY", Arg: norm(call.Args[0]) + "<-" + norm(call.Args[1]), Pos: v.Pos()})
						}
					}
				}
				return out
			})
			if over {
				r.Undec("C13.bounds", tn+".ensure", pos, "too many paths")
				continue
			}
			var probs []string
			installs := 0
			for _, pa := range ps {
				if pa.Has("PANIC") {
					continue
				}
				ii := pa.Index("INSTALL")
				if ii < 0 {
					// nothing installed: the table must have been found large enough
					// (the table's length may have been taken into a local first: oldSize := len(table))
					lens := []string{"len(table)", "cap(table)"}
					for _, e := range pa {
						if e.Kind == "ASSIGN" {
							if kv := strings.SplitN(e.Arg, "=", 2); len(kv) == 2 && (kv[1] == "len(table)" || kv[1] == "cap(table)") {
								lens = append(lens, kv[0])
							}
						}
					}
					largeEnough := false
					for _, ln := range lens {
						if pa.HasArg("COND", cc(pn, ">", ln, false)) || pa.HasArg("COND", cc(ln, "<", pn, false)) || pa.HasArg("COND", cc(ln, ">=", pn, true)) || pa.HasArg("COND", cc(pn, "<=", ln, true)) {
							largeEnough = true
						}
					}
					if !largeEnough {
						probs = append(probs, "returns without growing on a path that did not find the table large enough: "+pa.String())
					}
					continue
				}
				installs++
				// the requested capacity must not be lowered before it is used
				for _, e := range pa[:ii] {
					if e.Kind == "ASSIGN" && strings.HasPrefix(e.Arg, pn+"=") {
						rhs := strings.TrimPrefix(e.Arg, pn+"=")
						if !(strings.Contains(rhs, "math.Max(") || strings.HasPrefix(rhs, "max(") || hasCmp(pa, pn, "<", rhs, true)) {
							probs = append(probs, "the requested capacity "+pn+" is overwritten with `"+rhs+"`, which can be smaller than what the caller asked for: the caller then stores beyond the table")
						}
					}
				}
				newT := pa[ii].Arg
				// the size the new table was made with
				var sizeExpr ast.Expr
				if id, ok := ast.Unparen(pa[ii].Node.(ast.Expr)).(*ast.Ident); ok {
					sizeExpr = wire.MadeLenExpr(info, fi.Decl.Body, id)
				} else if call, ok := ast.Unparen(pa[ii].Node.(ast.Expr)).(*ast.CallExpr); ok {
					if fid, ok := call.Fun.(*ast.Ident); ok && fid.Name == "make" && len(call.Args) >= 2 {
						sizeExpr = call.Args[1]
					}
				}
				if sizeExpr == nil {
					probs = append(probs, "the installed table `"+newT+"` is not a freshly made slice of a known size")
					continue
				}
				sz := norm(sizeExpr)
				okSize := sz == pn
				// the size is computed by a helper: grownCapacity(len(table), minCapacity, ...) is fine when the
				// helper returns at least the argument in the requested capacity's position on every path
				if call, ok := ast.Unparen(sizeExpr).(*ast.CallExpr); ok && !okSize {
					if fn := calleeFunc(info, call); fn != nil {
						if cfi := p.FuncOf(fn); cfi != nil && cfi.Decl.Body != nil && cfi.Pkg == fi.Pkg {
							var cps []types.Object
							for _, f := range cfi.Decl.Type.Params.List {
								for _, n := range f.Names {
									cps = append(cps, cfi.Pkg.TypesInfo.Defs[n])
								}
							}
							for ai, a := range call.Args {
								if norm(a) == pn && ai < len(cps) {
									if ok, _ := c13ReturnsAtLeast(cfi, cps[ai]); ok {
										okSize = true
									}
								}
							}
						}
					}
				}
				if !okSize {
					last := -1
					for i, e := range pa[:ii] {
						if e.Kind == "ASSIGN" && strings.HasPrefix(e.Arg, sz+"=") {
							// a clamp to a constant upper bound under `sz > const` does not lower the guarantee we need
							rhs := strings.TrimPrefix(e.Arg, sz+"=")
							if hasCmp(pa, sz, ">", rhs, true) {
								continue
							}
							last = i
							okSize = rhs == pn
						}
					}
					for i, e := range pa[:ii] {
						if i > last && e.Kind == "COND" && e.Arg == cc(sz, "<", pn, false) {
							okSize = true
						}
					}
				}
				if !okSize {
					probs = append(probs, "a table of "+sz+" slots is installed on a path that never establishes "+sz+" >= "+pn+" (the requested capacity): the caller then stores beyond the table: "+pa.String())
				}
				cpOK := false
				for _, e := range pa[:ii] {
					if e.Kind == "COPY" && e.Arg == newT+"<-table" {
						cpOK = true
					}
				}
				if !cpOK {
					probs = append(probs, "the old contents are not copied into the new table before it is installed")
				}
			}
			if installs == 0 {
				probs = append(probs, "no path installs a larger table")
			}
			_ = pobj
			fileProbs(r, "C13.bounds", tn+".ensure", pos, uniq(probs), "grows to at least the requested capacity; old contents copied; table replaced")
		}
	}
}

// ---- comparator evaluation over the finite ordering domain (E8) -----------------------------

type cmpEnv struct {
	info  *types.Info
	P     int // sign of compare(o1.value, o2.value)
	C     int // sign of CompareChild(child, childAsc, o1.key, o2.key)
	bools map[string]bool
	ints  map[types.Object]int
	o1, o2 string
	// elemOf: which element (1 or 2) an operand of a comparison belongs to and whether it is that
	// element's value or its original index ("value" / "key"); nil = the o1.value / o1.key spelling
	elemOf func(e ast.Expr) (int, string)
	err   string
	inl   *inliner // helpers returning the comparison (compareKeyVal(asc, o1, o2)) are followed with arguments substituted
	depth int
	bind  map[types.Object]ast.Expr // parameters of the helper holding the comparator -> the caller's arguments
}

// runInt interprets a helper body that returns an int.
func (e *cmpEnv) runInt(list []ast.Stmt) (int, bool) {
	for _, s := range list {
		if e.err != "" {
			return 0, true
		}
		switch v := s.(type) {
		case *ast.ReturnStmt:
			if len(v.Results) == 1 {
				return e.evalInt(v.Results[0]), true
			}
		case *ast.AssignStmt:
			if len(v.Lhs) == 1 && len(v.Rhs) == 1 {
				if id, ok := v.Lhs[0].(*ast.Ident); ok {
					e.ints[e.info.ObjectOf(id)] = e.evalInt(v.Rhs[0])
					continue
				}
			}
			e.err = "unsupported assignment"
		case *ast.DeclStmt:
			if gd, ok := v.Decl.(*ast.GenDecl); ok {
				for _, sp := range gd.Specs {
					vs := sp.(*ast.ValueSpec)
					for i, nm := range vs.Names {
						n := 0
						if i < len(vs.Values) {
							n = e.evalInt(vs.Values[i])
						}
						e.ints[e.info.Defs[nm]] = n
					}
				}
			}
		case *ast.IfStmt:
			if v.Init != nil {
				e.runInt([]ast.Stmt{v.Init})
			}
			if e.evalBool(v.Cond) {
				if n, ret := e.runInt(v.Body.List); ret {
					return n, true
				}
			} else if v.Else != nil {
				var body []ast.Stmt
				switch el := v.Else.(type) {
				case *ast.BlockStmt:
					body = el.List
				default:
					body = []ast.Stmt{el}
				}
				if n, ret := e.runInt(body); ret {
					return n, true
				}
			}
		case *ast.BlockStmt:
			if n, ret := e.runInt(v.List); ret {
				return n, true
			}
		default:
			e.err = fmt.Sprintf("unsupported statement %T", s)
		}
	}
	return 0, false
}

func (e *cmpEnv) evalInt(x ast.Expr) int {
	x = ast.Unparen(x)
	if tv, ok := e.info.Types[x]; ok && tv.Value != nil {
		n, _ := constIntOf(e.info, x)
		return int(n)
	}
	switch v := x.(type) {
	case *ast.Ident:
		if n, ok := e.ints[e.info.ObjectOf(v)]; ok {
			return n
		}
	case *ast.UnaryExpr:
		if v.Op == token.SUB {
			return -e.evalInt(v.X)
		}
	case *ast.BinaryExpr:
		switch v.Op {
		case token.MUL:
			return e.evalInt(v.X) * e.evalInt(v.Y)
		case token.ADD:
			return e.evalInt(v.X) + e.evalInt(v.Y)
		case token.SUB:
			return e.evalInt(v.X) - e.evalInt(v.Y)
		}
	case *ast.CallExpr:
		if tv, ok := e.info.Types[v.Fun]; ok && tv.IsType() && len(v.Args) == 1 {
			return e.evalInt(v.Args[0])
		}
		if e.inl != nil && e.depth < 3 {
			if body := e.inl.Body(v); body != nil {
				e.depth++
				n, ret := e.runInt(body.List)
				e.depth--
				if !ret && e.err == "" {
					e.err = "helper " + types.ExprString(v.Fun) + " falls off its end"
				}
				return n
			}
		}
		fn := stripSpaces(types.ExprString(v.Fun))
		if strings.HasPrefix(fn, "compare.CompareTo") && len(v.Args) == 2 {
			a, b := stripSpaces(types.ExprString(v.Args[0])), stripSpaces(types.ExprString(v.Args[1]))
			if e.elemOf != nil {
				ea, ra := e.elemOf(v.Args[0])
				eb, rb := e.elemOf(v.Args[1])
				switch {
				case ra == "value" && rb == "value" && ea == 1 && eb == 2:
					return e.P
				case ra == "value" && rb == "value" && ea == 2 && eb == 1:
					return -e.P
				}
			}
			switch {
			case a == e.o1+".value" && b == e.o2+".value":
				return e.P
			case a == e.o2+".value" && b == e.o1+".value":
				return -e.P
			}
		}
		if fn == "CompareChild" && len(v.Args) == 4 {
			a, b := stripSpaces(types.ExprString(v.Args[2])), stripSpaces(types.ExprString(v.Args[3]))
			dir := stripSpaces(types.ExprString(v.Args[1]))
			if dir != "childAsc" {
				e.err = "child comparison does not use the child's own direction flag (" + dir + ")"
			}
			if e.elemOf != nil {
				ea, ra := e.elemOf(v.Args[2])
				eb, rb := e.elemOf(v.Args[3])
				switch {
				case ra == "key" && rb == "key" && ea == 1 && eb == 2:
					return e.C
				case ra == "key" && rb == "key" && ea == 2 && eb == 1:
					return -e.C
				}
			}
			switch {
			case a == e.o1+".key" && b == e.o2+".key":
				return e.C
			case a == e.o2+".key" && b == e.o1+".key":
				return -e.C
			}
		}
	}
	e.err = "cannot evaluate " + types.ExprString(x)
	return 0
}

func (e *cmpEnv) evalBool(x ast.Expr) bool {
	x = ast.Unparen(x)
	switch v := x.(type) {
	case *ast.Ident:
		if v.Name == "true" {
			return true
		}
		if v.Name == "false" {
			return false
		}
		if a, ok := e.bind[e.info.ObjectOf(v)]; ok && e.depth < 4 {
			e.depth++
			defer func() { e.depth-- }()
			return e.evalBool(a)
		}
		if b, ok := e.bools[v.Name]; ok {
			return b
		}
	case *ast.CallExpr:
		// a function-typed parameter bound to a literal at the call being followed (the tie-breaker
		// handed to a shared sorting helper): the literal's body with the arguments in place
		if id, ok := ast.Unparen(v.Fun).(*ast.Ident); ok && e.depth < 4 {
			if lit, ok := ast.Unparen(e.bind[e.info.ObjectOf(id)]).(*ast.FuncLit); ok && lit != nil {
				repl := map[types.Object]ast.Expr{}
				i := 0
				for _, f := range lit.Type.Params.List {
					for _, n := range f.Names {
						if i < len(v.Args) {
							repl[e.info.Defs[n]] = v.Args[i]
						}
						i++
					}
				}
				if body, ok := paths.Subst(e.info, lit.Body, repl).(*ast.BlockStmt); ok && i == len(v.Args) {
					e.depth++
					res, ret := e.run(body.List)
					e.depth--
					if !ret && e.err == "" {
						e.err = "the function bound to " + id.Name + " falls off its end"
					}
					return res
				}
			}
		}
	case *ast.UnaryExpr:
		if v.Op == token.NOT {
			return !e.evalBool(v.X)
		}
	case *ast.BinaryExpr:
		switch v.Op {
		case token.LAND:
			return e.evalBool(v.X) && e.evalBool(v.Y)
		case token.LOR:
			return e.evalBool(v.X) || e.evalBool(v.Y)
		}
		a, b := e.evalInt(v.X), e.evalInt(v.Y)
		switch v.Op {
		case token.LSS:
			return a < b
		case token.LEQ:
			return a <= b
		case token.GTR:
			return a > b
		case token.GEQ:
			return a >= b
		case token.EQL:
			return a == b
		case token.NEQ:
			return a != b
		}
	}
	e.err = "cannot evaluate condition " + types.ExprString(x)
	return false
}

// run interprets the closure body; returns (result, returned).
func (e *cmpEnv) run(list []ast.Stmt) (bool, bool) {
	for _, s := range list {
		if e.err != "" {
			return false, true
		}
		switch v := s.(type) {
		case *ast.ReturnStmt:
			if len(v.Results) == 1 {
				return e.evalBool(v.Results[0]), true
			}
		case *ast.DeclStmt:
			if gd, ok := v.Decl.(*ast.GenDecl); ok {
				for _, sp := range gd.Specs {
					vs := sp.(*ast.ValueSpec)
					for i, nm := range vs.Names {
						n := 0
						if i < len(vs.Values) {
							n = e.evalInt(vs.Values[i])
						}
						e.ints[e.info.Defs[nm]] = n
					}
				}
			}
		case *ast.AssignStmt:
			if len(v.Lhs) == 1 && len(v.Rhs) == 1 {
				if id, ok := v.Lhs[0].(*ast.Ident); ok {
					e.ints[e.info.ObjectOf(id)] = e.evalInt(v.Rhs[0])
					continue
				}
			}
			e.err = "unsupported assignment"
		case *ast.IfStmt:
			if v.Init != nil {
				e.run([]ast.Stmt{v.Init})
			}
			if e.evalBool(v.Cond) {
				if res, ret := e.run(v.Body.List); ret {
					return res, true
				}
			} else if v.Else != nil {
				var res, ret bool
				switch el := v.Else.(type) {
				case *ast.BlockStmt:
					res, ret = e.run(el.List)
				case *ast.IfStmt:
					res, ret = e.run([]ast.Stmt{el})
				}
				if ret {
					return res, true
				}
			}
		case *ast.BlockStmt:
			if res, ret := e.run(v.List); ret {
				return res, true
			}
		case *ast.SwitchStmt:
			// a tagless switch is an if-chain; with a tag, each case value is compared with it
			if v.Init != nil {
				e.run([]ast.Stmt{v.Init})
			}
			var deflt *ast.CaseClause
			taken := false
			for _, cs := range v.Body.List {
				cc := cs.(*ast.CaseClause)
				if cc.List == nil {
					deflt = cc
					continue
				}
				hit := false
				for _, x := range cc.List {
					if v.Tag == nil {
						hit = hit || e.evalBool(x)
					} else {
						hit = hit || e.evalInt(v.Tag) == e.evalInt(x)
					}
				}
				if e.err != "" {
					return false, true
				}
				if hit {
					taken = true
					if res, ret := e.run(cc.Body); ret {
						return res, true
					}
					break
				}
			}
			if !taken && deflt != nil {
				if res, ret := e.run(deflt.Body); ret {
					return res, true
				}
			}
		default:
			e.err = fmt.Sprintf("unsupported statement %T", s)
		}
	}
	return false, false
}

func c13Sort(p *core.Program, r *core.Report, t *types.Named) {
	tn := "util/list." + t.Obj().Name()
	for _, fi := range p.MethodsOf(t) {
		name := fi.Obj.Name()
		if (name != "Sorting" && name != "SortingAnyList") || fi.Decl.Body == nil {
			continue
		}
		info := fi.Pkg.TypesInfo
		pos := p.Pos(fi.Decl.Pos())
		c := tn + "." + name
		// the comparator closure: a literal func(a, b <element>) bool over the sort's own element
		// records (not over ints), in the method itself or in the unexported helper the method
		// hands the work to (whose parameters are then bound to the method's arguments)
		var lit *ast.FuncLit
		bind := map[types.Object]ast.Expr{}
		isCmp := func(fl *ast.FuncLit) bool {
			if fl.Type.Results == nil || len(fl.Type.Results.List) != 1 || types.ExprString(fl.Type.Results.List[0].Type) != "bool" {
				return false
			}
			n := 0
			for _, f := range fl.Type.Params.List {
				pt := info.TypeOf(f.Type)
				if pp, ok := pt.(*types.Pointer); ok {
					pt = pp.Elem()
				}
				if _, isStruct := pt.Underlying().(*types.Struct); !isStruct {
					return false
				}
				n += len(f.Names)
			}
			return n == 2
		}
		ast.Inspect(fi.Decl.Body, func(n ast.Node) bool {
			if fl, ok := n.(*ast.FuncLit); ok && lit == nil && isCmp(fl) {
				lit = fl
			}
			return true
		})
		if lit == nil {
			ast.Inspect(fi.Decl.Body, func(n ast.Node) bool {
				call, ok := n.(*ast.CallExpr)
				if !ok || lit != nil {
					return true
				}
				var id *ast.Ident
				switch f := ast.Unparen(call.Fun).(type) {
				case *ast.Ident:
					id = f
				case *ast.SelectorExpr:
					id = f.Sel
				}
				if id == nil {
					return true
				}
				fn, _ := info.Uses[id].(*types.Func)
				if fn == nil || fn.Exported() || fn.Pkg() != fi.Obj.Pkg() {
					return true
				}
				hf := p.FuncOf(fn)
				if hf == nil || hf.Decl.Body == nil {
					return true
				}
				ast.Inspect(hf.Decl.Body, func(m ast.Node) bool {
					if fl, ok := m.(*ast.FuncLit); ok && lit == nil && isCmp(fl) {
						lit = fl
					}
					return true
				})
				if lit != nil {
					i := 0
					for _, f := range hf.Decl.Type.Params.List {
						for _, nm := range f.Names {
							if i < len(call.Args) {
								bind[info.Defs[nm]] = call.Args[i]
							}
							i++
						}
					}
				}
				return true
			})
		}
		if lit == nil {
			// older spelling: the first boolean literal of the method
			ast.Inspect(fi.Decl.Body, func(n ast.Node) bool {
				if fl, ok := n.(*ast.FuncLit); ok && lit == nil && fl.Type.Results != nil && len(fl.Type.Results.List) == 1 && types.ExprString(fl.Type.Results.List[0].Type) == "bool" {
					lit = fl
				}
				return true
			})
		}
		if lit == nil || len(lit.Type.Params.List) == 0 {
			r.Undec("C13.sort", c, pos, "comparator closure not found")
			continue
		}
		var pn []string
		var pobjs []types.Object
		for _, f := range lit.Type.Params.List {
			for _, n := range f.Names {
				pn = append(pn, n.Name)
				pobjs = append(pobjs, info.Defs[n])
			}
		}
		// two element records (a, b), or the records spread out as (index1, value1, index2, value2)
		var elemOf func(e ast.Expr) (int, string)
		if len(pn) == 4 {
			it := func(k int) bool {
				b, ok := info.TypeOf(lit.Type.Params.List[0].Type).Underlying().(*types.Basic)
				_ = k
				return ok && b.Kind() == types.Int
			}
			_ = it
			elemOf = func(e ast.Expr) (int, string) {
				id, ok := ast.Unparen(stripConvs(info, e)).(*ast.Ident)
				if !ok {
					return 0, ""
				}
				obj := info.ObjectOf(id)
				for k, po := range pobjs {
					if po != nil && po == obj {
						role := "key"
						if k%2 == 1 {
							role = "value"
						}
						return k/2 + 1, role
					}
				}
				return 0, ""
			}
			pn = []string{pn[1], pn[3]}
		}
		if len(pn) != 2 {
			r.Undec("C13.sort", c, pos, "comparator does not take two elements")
			continue
		}
		withChild := name == "SortingAnyList"
		var probs []string
		nonStrict := false
		evals := 0
		for _, asc := range []bool{true, false} {
			for _, P := range []int{-1, 0, 1} {
				cs := []int{0}
				if withChild {
					cs = []int{-1, 0, 1}
				}
				for _, C := range cs {
					env := &cmpEnv{info: info, P: P, C: C, bools: map[string]bool{"asc": asc, "childAsc": true}, ints: map[types.Object]int{}, o1: pn[0], o2: pn[1],
						inl: newInliner(p, fi, func(fn *types.Func) bool { return fn.Name() == "CompareChild" }), bind: bind, elemOf: elemOf}
					// integer locals of the enclosing function the comparator closes over (dir := 1;
					// if !asc { dir = -1 }): the simple statements before the closure are run first
					for _, st := range fi.Decl.Body.List {
						if st.Pos() >= lit.Pos() {
							break
						}
						if !intOnlyStmt(info, st) {
							continue
						}
						env.runInt([]ast.Stmt{st})
						env.err = ""
					}
					got, ret := env.run(lit.Body.List)
					evals++
					if env.err != "" || !ret {
						probs = append(probs, "comparator outside the interpretable fragment: "+env.err)
						continue
					}
					D := P
					if !asc {
						D = -P
					}
					var want, any bool
					switch {
					case D < 0:
						want = true
					case D > 0:
						want = false
					case withChild && C < 0:
						want = true
					case withChild && C > 0:
						want = false
					default:
						any = true
					}
					if any {
						if got {
							nonStrict = true
						}
						continue
					}
					if got != want {
						probs = append(probs, fmt.Sprintf("asc=%v primary=%s child=%s: less(a,b) is %v, want %v", asc, sgn(P), sgn(C), got, want))
					}
				}
			}
		}
		r.Stats["comparator_evaluations"] += evals
		if len(probs) > 0 {
			r.Viol("C13.sort", c, pos, strings.Join(uniq(probs), "; "))
		} else {
			d := fmt.Sprintf("%d orderings agree", evals)
			if nonStrict {
				d += " (less is true on full ties: non-strict, tolerated by sort.Sort for this use)"
			}
			r.OK("C13.sort", c, pos, d)
		}
		// permutation by construction, in the method or in the unexported helpers it is split into
		var build, outk bool
		bodies := []*core.FuncInfo{fi}
		seenF := map[*core.FuncInfo]bool{fi: true}
		for k := 0; k < len(bodies) && k < 8; k++ {
			b := bodies[k]
			binfo := b.Pkg.TypesInfo
			ast.Inspect(b.Decl.Body, func(n ast.Node) bool {
				if call, ok := n.(*ast.CallExpr); ok {
					var id *ast.Ident
					switch f := ast.Unparen(call.Fun).(type) {
					case *ast.Ident:
						id = f
					case *ast.SelectorExpr:
						id = f.Sel
					}
					if id != nil {
						if fn, _ := binfo.Uses[id].(*types.Func); fn != nil && !fn.Exported() && fn.Pkg() == fi.Obj.Pkg() {
							if cfi := p.FuncOf(fn); cfi != nil && cfi.Decl.Body != nil && !seenF[cfi] {
								seenF[cfi] = true
								bodies = append(bodies, cfi)
							}
						}
					}
				}
				return true
			})
		}
		for _, b := range bodies {
			binfo := b.Pkg.TypesInfo
			// loop variables: index (and value) objects of for/range statements
			idxVars := map[types.Object]bool{}
			valOf := map[types.Object]ast.Expr{} // range value variable -> ranged expression
			keyOf := map[types.Object]types.Object{} // range value variable -> the key variable of the same range
			ast.Inspect(b.Decl.Body, func(n ast.Node) bool {
				switch v := n.(type) {
				case *ast.ForStmt:
					if as, ok := v.Init.(*ast.AssignStmt); ok && len(as.Lhs) == 1 {
						if id, ok := as.Lhs[0].(*ast.Ident); ok {
							idxVars[binfo.ObjectOf(id)] = true
						}
					}
				case *ast.RangeStmt:
					if id, ok := v.Key.(*ast.Ident); ok && id.Name != "_" {
						idxVars[binfo.ObjectOf(id)] = true
					}
					if id, ok := v.Value.(*ast.Ident); ok && id.Name != "_" {
						valOf[binfo.ObjectOf(id)] = v.X
						if kid, ok := v.Key.(*ast.Ident); ok && kid.Name != "_" {
							keyOf[binfo.ObjectOf(id)] = binfo.ObjectOf(kid)
						}
					}
				}
				return true
			})
			isIdx := func(e ast.Expr) types.Object {
				if id, ok := ast.Unparen(e).(*ast.Ident); ok {
					if o := binfo.ObjectOf(id); o != nil && idxVars[o] {
						return o
					}
				}
				return nil
			}
			fieldNamed := func(e ast.Expr, name string) ast.Expr {
				if sel, ok := ast.Unparen(e).(*ast.SelectorExpr); ok && sel.Sel.Name == name {
					if fv, ok := binfo.ObjectOf(sel.Sel).(*types.Var); ok && fv.IsField() {
						return sel.X
					}
				}
				return nil
			}
			ast.Inspect(b.Decl.Body, func(n ast.Node) bool {
				as, ok := n.(*ast.AssignStmt)
				if !ok || len(as.Lhs) != 1 || len(as.Rhs) != 1 {
					return true
				}
				// pairs[i] = &KeyVal{i, this.get(i)}
				if ix, ok := ast.Unparen(as.Lhs[0]).(*ast.IndexExpr); ok {
					if io := isIdx(ix.Index); io != nil {
						rhs := ast.Unparen(as.Rhs[0])
						if u, ok := rhs.(*ast.UnaryExpr); ok && u.Op == token.AND {
							rhs = ast.Unparen(u.X)
						}
						if cl, ok := rhs.(*ast.CompositeLit); ok && len(cl.Elts) == 2 {
							k, v := cl.Elts[0], cl.Elts[1]
							if kv, ok := k.(*ast.KeyValueExpr); ok {
								k = kv.Value
							}
							if kv, ok := v.(*ast.KeyValueExpr); ok {
								v = kv.Value
							}
							if isIdx(k) == io {
								if call, ok := ast.Unparen(v).(*ast.CallExpr); ok && len(call.Args) == 1 && isIdx(call.Args[0]) == io {
									if sel, ok := call.Fun.(*ast.SelectorExpr); ok && strings.EqualFold(sel.Sel.Name, "get") {
										build = true
									}
								}
								// {i, v} with i, v the key and value of one range over the list's own table
								// (cut to its size or not): v is the element at i
								if vid, ok := ast.Unparen(v).(*ast.Ident); ok {
									vo := binfo.ObjectOf(vid)
									if src := valOf[vo]; src != nil && keyOf[vo] == io {
										base := ast.Unparen(src)
										if sl, ok := base.(*ast.SliceExpr); ok && sl.Low == nil {
											base = ast.Unparen(sl.X)
										}
										if sel, ok := base.(*ast.SelectorExpr); ok && sel.Sel.Name == "table" {
											if rid, ok := ast.Unparen(sel.X).(*ast.Ident); ok && rid.Name == recvName(b) {
												build = true
											}
										}
									}
								}
							}
						}
						// out[i] = pairs[i].key  |  out[i] = kv.key (kv the range value at i)
						if x := fieldNamed(as.Rhs[0], "key"); x != nil {
							if ix2, ok := ast.Unparen(x).(*ast.IndexExpr); ok && isIdx(ix2.Index) == io {
								outk = true
							}
							if id, ok := ast.Unparen(x).(*ast.Ident); ok && valOf[binfo.ObjectOf(id)] != nil {
								outk = true
							}
						}
					}
				}
				// out = append(out, kv.key) inside a range over the pairs
				if call, ok := ast.Unparen(as.Rhs[0]).(*ast.CallExpr); ok && len(call.Args) == 2 {
					if id, ok := call.Fun.(*ast.Ident); ok && id.Name == "append" {
						if x := fieldNamed(call.Args[1], "key"); x != nil {
							if vid, ok := ast.Unparen(x).(*ast.Ident); ok && valOf[binfo.ObjectOf(vid)] != nil {
								outk = true
							}
						}
					}
				}
				return true
			})
		}
		if !(build && outk) && c13ColumnsPerm(p, fi, bodies) {
			build, outk = true, true
		}
		// no way round the sort: every path that returns has gone through the sort call (an
		// "already ordered" shortcut has to know the direction, the ties and the child column too)
		{
			sin := newInliner(p, fi, nil)
			sps, over := paths.Enumerate(fi.Decl.Body, paths.Config{Info: info, Inline: sin.Body,
				Classify: func(n ast.Node) []paths.Event {
					var out []paths.Event
					ast.Inspect(n, func(m ast.Node) bool {
						if _, isLit := m.(*ast.FuncLit); isLit {
							return false
						}
						if call, ok := m.(*ast.CallExpr); ok {
							if isCallTo(info, call, "sort", "Sort") || isCallTo(info, call, "sort", "Stable") || isCallTo(info, call, "sort", "Slice") || isCallTo(info, call, "sort", "SliceStable") {
								out = append(out, paths.Event{Kind: "SORTCALL", Pos: call.Pos()})
							}
						}
						return true
					})
					return out
				}})
			if !over {
				for _, pa := range sps {
					if len(pa) == 0 || pa[len(pa)-1].Kind != "RET" {
						continue
					}
					if !pa.Has("SORTCALL") {
						build = false
						r.Viol("C13.sort", c+" shortcut", p.Pos(pa[len(pa)-1].Pos), "a path returns an order without having sorted: a shortcut (already-ordered input, cached result) decides the order without the comparator — direction, ties and the child column are not looked at")
						break
					}
				}
			}
		}
		r.Check(build && outk, "C13.perm", c, pos, "table[i] = {i, get(i)} for every i; out[i] = table[i].key", "the result is not built from one (index, value) pair per index read back by position")
	}
}

func sgn(n int) string {
	switch {
	case n < 0:
		return "<"
	case n > 0:
		return ">"
	}
	return "="
}

func c13Filter(p *core.Program, r *core.Report, t *types.Named) {
	fi := p.Method("util/list", t.Obj().Name(), "Filtering")
	if fi == nil || fi.Decl.Body == nil || fi.Decl.Type.Params.NumFields() != 1 {
		return
	}
	// Filtering(index) = [ this.get(index[0]), this.get(index[1]), ... ]: one loop over the index list
	// in ascending position order (counted from 0 or `range index`) whose body appends to the result
	// exactly the receiver's element at the index found at that position.
	info := fi.Pkg.TypesInfo
	rn := recvName(fi)
	pobj := info.Defs[fi.Decl.Type.Params.List[0].Names[0]]
	isParam := func(e ast.Expr) bool {
		id, ok := ast.Unparen(e).(*ast.Ident)
		return ok && info.ObjectOf(id) == pobj
	}
	localDef := func(id *ast.Ident) ast.Expr {
		var def ast.Expr
		n := 0
		ast.Inspect(fi.Decl.Body, func(m ast.Node) bool {
			if as, ok := m.(*ast.AssignStmt); ok && len(as.Lhs) == len(as.Rhs) {
				for i, l := range as.Lhs {
					if lid, ok := l.(*ast.Ident); ok && info.ObjectOf(lid) == info.ObjectOf(id) {
						def = as.Rhs[i]
						n++
					}
				}
			}
			return true
		})
		if n == 1 {
			return def
		}
		return nil
	}
	ok := false
	var selLoop ast.Node
	why := "no loop over the index list that appends this.get(index[i])"
	ast.Inspect(fi.Decl.Body, func(n ast.Node) bool {
		var body *ast.BlockStmt
		// elem(e): does e denote "the index at the current position"?
		var elem func(e ast.Expr) bool
		switch loop := n.(type) {
		case *ast.ForStmt:
			init, ok1 := loop.Init.(*ast.AssignStmt)
			cond, ok2 := loop.Cond.(*ast.BinaryExpr)
			if !ok1 || !ok2 || len(init.Lhs) != 1 || len(init.Rhs) != 1 || cond.Op != token.LSS {
				return true
			}
			if v, isC := constIntOf(info, init.Rhs[0]); !isC || v != 0 {
				return true
			}
			asc := false
			switch post := loop.Post.(type) {
			case *ast.IncDecStmt:
				asc = post.Tok == token.INC
			case *ast.AssignStmt:
				asc = post.Tok == token.ADD_ASSIGN
			}
			if !asc {
				return true
			}
			// bound: len(index) directly or through a local
			bound := ast.Unparen(cond.Y)
			if id, isId := bound.(*ast.Ident); isId {
				if d := localDef(id); d != nil {
					bound = ast.Unparen(d)
				}
			}
			call, isCall := bound.(*ast.CallExpr)
			if !isCall || len(call.Args) != 1 || !isParam(call.Args[0]) {
				return true
			}
			if fid, isId := call.Fun.(*ast.Ident); !isId || fid.Name != "len" {
				return true
			}
			iobj := info.ObjectOf(init.Lhs[0].(*ast.Ident))
			elem = func(e ast.Expr) bool {
				ix, isIx := ast.Unparen(e).(*ast.IndexExpr)
				if !isIx || !isParam(ix.X) {
					return false
				}
				id, isId := ast.Unparen(ix.Index).(*ast.Ident)
				return isId && info.ObjectOf(id) == iobj
			}
			body = loop.Body
		case *ast.RangeStmt:
			if !isParam(loop.X) {
				return true
			}
			var kobj, vobj types.Object
			if kid, isId := loop.Key.(*ast.Ident); isId && kid.Name != "_" {
				kobj = info.ObjectOf(kid)
			}
			if loop.Value != nil {
				if vid, isId := loop.Value.(*ast.Ident); isId && vid.Name != "_" {
					vobj = info.ObjectOf(vid)
				}
			}
			elem = func(e ast.Expr) bool {
				e = ast.Unparen(e)
				if id, isId := e.(*ast.Ident); isId && vobj != nil && info.ObjectOf(id) == vobj {
					return true
				}
				if ix, isIx := e.(*ast.IndexExpr); isIx && isParam(ix.X) && kobj != nil {
					id, isId := ast.Unparen(ix.Index).(*ast.Ident)
					return isId && info.ObjectOf(id) == kobj
				}
				return false
			}
			body = loop.Body
		default:
			return true
		}
		adds := 0
		good := 0
		ast.Inspect(body, func(m ast.Node) bool {
			call, isC := m.(*ast.CallExpr)
			if !isC || len(call.Args) != 1 {
				return true
			}
			sel, isS := call.Fun.(*ast.SelectorExpr)
			if !isS || (sel.Sel.Name != "add" && sel.Sel.Name != "Add") {
				return true
			}
			if xid, isId := ast.Unparen(sel.X).(*ast.Ident); !isId || xid.Name == rn {
				return true
			}
			adds++
			arg := ast.Unparen(call.Args[0])
			if aid, isId := arg.(*ast.Ident); isId {
				if d := localDef(aid); d != nil {
					arg = ast.Unparen(d)
				}
			}
			// this.get(E) / this.Get(E) / this.table[E]
			var inner ast.Expr
			switch a := arg.(type) {
			case *ast.CallExpr:
				if gs, isS := a.Fun.(*ast.SelectorExpr); isS && len(a.Args) == 1 && (gs.Sel.Name == "get" || strings.HasPrefix(gs.Sel.Name, "Get")) {
					if gid, isId := ast.Unparen(gs.X).(*ast.Ident); isId && gid.Name == rn {
						inner = a.Args[0]
					}
				}
			case *ast.IndexExpr:
				if strings.ReplaceAll(stripSpaces(types.ExprString(a.X)), rn+".", "") == "table" {
					inner = a.Index
				}
			}
			if inner != nil {
				if iid, isId := ast.Unparen(inner).(*ast.Ident); isId && !elem(inner) {
					if d := localDef(iid); d != nil {
						inner = d
					}
				}
				if elem(inner) {
					good++
				}
			}
			return true
		})
		if adds == 1 && good == 1 {
			ok = true
			selLoop = n
		} else if adds > 0 {
			why = "the loop over the index list does not append exactly this.get(<index at that position>) once per position"
		}
		return true
	})
	// nothing reaches the result except through that loop: no second filling of the result (a bulk copy
	// of a window, an AddAll) and no return before the loop other than for an empty index list
	if ok && selLoop != nil {
		var res types.Object
		ast.Inspect(fi.Decl.Body, func(n ast.Node) bool {
			if rs, isR := n.(*ast.ReturnStmt); isR && len(rs.Results) == 1 && res == nil {
				if id, isId := ast.Unparen(rs.Results[0]).(*ast.Ident); isId {
					res = info.ObjectOf(id)
				}
			}
			return true
		})
		ast.Inspect(fi.Decl.Body, func(n ast.Node) bool {
			if n == selLoop {
				return false
			}
			switch v := n.(type) {
			case *ast.CallExpr:
				if sel, isSel := v.Fun.(*ast.SelectorExpr); isSel && res != nil {
					if id, isId := ast.Unparen(sel.X).(*ast.Ident); isId && info.ObjectOf(id) == res {
						ln := strings.ToLower(sel.Sel.Name)
						if strings.HasPrefix(ln, "add") || strings.HasPrefix(ln, "set") || strings.HasPrefix(ln, "put") || strings.HasPrefix(ln, "insert") {
							ok = false
							why = "the result is also filled outside the loop over the index list (" + stripSpaces(types.ExprString(v.Fun)) + " at " + p.Pos(v.Pos()) + "): on that path the elements are not the selected ones in index-list order"
						}
					}
				}
				if id, isId := v.Fun.(*ast.Ident); isId && id.Name == "copy" && len(v.Args) == 2 && res != nil {
					if root := rootOf(v.Args[0]); root != nil && info.ObjectOf(root) == res {
						ok = false
						why = "the result's storage is filled by copy() outside the loop over the index list"
					}
				}
			case *ast.ReturnStmt:
				if v.Pos() < selLoop.Pos() {
					ok = false
					why = "a return at " + p.Pos(v.Pos()) + " leaves before the loop over the index list has run"
				}
			}
			return true
		})
	}
	r.Check(ok, "C13.filter", "util/list."+t.Obj().Name()+".Filtering", p.Pos(fi.Decl.Pos()), "out.add(get(index[i])) for i ascending", "filtering does not append the selected elements in index-list order: "+why)
}

// c13Linked: pointer/size consistency of the linked list on every path.
func c13Linked(p *core.Program, r *core.Report, t *types.Named, rule string) {
	tn := "util/list." + t.Obj().Name()
	// methods of the list, and package functions of its package that take the list as a parameter
	// (remove() written as unlink(o, x) is the same operation)
	cands := p.MethodsOf(t)
	ownerName := map[*core.FuncInfo]string{}
	for _, fi := range p.Funcs {
		if fi.Obj.Pkg() != t.Obj().Pkg() || core.RecvNamed(fi.Obj) != nil || fi.Decl.Body == nil || core.IsCanaryFile(p.Fset.Position(fi.Decl.Pos()).Filename) {
			continue
		}
		sig := fi.Obj.Type().(*types.Signature)
		for i := 0; i < sig.Params().Len(); i++ {
			pt := sig.Params().At(i).Type()
			if pp, ok := pt.(*types.Pointer); ok {
				pt = pp.Elem()
			}
			if n, ok := pt.(*types.Named); ok && n.Obj() == t.Obj() && sig.Params().At(i).Name() != "" {
				ownerName[fi] = sig.Params().At(i).Name()
				cands = append(cands, fi)
				break
			}
		}
	}
	// the element counter is the list's only integer field, whatever it is called
	sizeField := "size"
	if st, ok := t.Underlying().(*types.Struct); ok {
		var ints []string
		for i := 0; i < st.NumFields(); i++ {
			if b, ok := st.Field(i).Type().Underlying().(*types.Basic); ok && b.Info()&types.IsInteger != 0 {
				ints = append(ints, st.Field(i).Name())
			}
		}
		if len(ints) == 1 {
			sizeField = ints[0]
		}
	}
	// the two ends kept in a fixed array (ends[front], ends[back]) instead of two fields: the slot a new
	// node takes as its `next` is the first end, the one it takes as its `prev` the last
	endsField := ""
	endRole := map[int64]string{}
	if st, ok := t.Underlying().(*types.Struct); ok {
		for i := 0; i < st.NumFields(); i++ {
			if at, ok := st.Field(i).Type().Underlying().(*types.Array); ok && at.Len() == 2 {
				if _, isPtr := at.Elem().(*types.Pointer); isPtr {
					endsField = st.Field(i).Name()
				}
			}
		}
	}
	if endsField != "" {
		for _, fi := range cands {
			if fi.Decl.Body == nil {
				continue
			}
			finfo := fi.Pkg.TypesInfo
			ast.Inspect(fi.Decl.Body, func(n ast.Node) bool {
				cl, ok := n.(*ast.CompositeLit)
				if !ok {
					return true
				}
				for _, el := range cl.Elts {
					kv, ok := el.(*ast.KeyValueExpr)
					if !ok {
						continue
					}
					key, _ := kv.Key.(*ast.Ident)
					ix, ok := ast.Unparen(kv.Value).(*ast.IndexExpr)
					if key == nil || !ok {
						continue
					}
					if sel, ok := ast.Unparen(ix.X).(*ast.SelectorExpr); !ok || sel.Sel.Name != endsField {
						continue
					}
					if k, ok := constIntOf(finfo, ix.Index); ok {
						switch key.Name {
						case "next":
							endRole[k] = "first"
						case "prev":
							endRole[k] = "last"
						}
					}
				}
				return true
			})
		}
	}
	checkedFns := map[*types.Func]bool{}
	for _, fi := range cands {
		if fi.Decl.Body == nil {
			continue
		}
		rn := recvName(fi)
		if on, ok := ownerName[fi]; ok {
			rn = on
		}
		// ends[k] with k constant reads as the end it stands for, wherever it occurs
		endText := map[string]string{}
		if endsField != "" {
			finfoN := fi.Pkg.TypesInfo
			ast.Inspect(fi.Decl.Body, func(n ast.Node) bool {
				if ix, ok := n.(*ast.IndexExpr); ok {
					if sel, ok := ast.Unparen(ix.X).(*ast.SelectorExpr); ok && sel.Sel.Name == endsField {
						if k, ok := constIntOf(finfoN, ix.Index); ok && endRole[k] != "" {
							endText[stripSpaces(types.ExprString(ix))] = stripSpaces(types.ExprString(sel.X)) + "." + endRole[k]
						}
					}
				}
				return true
			})
		}
		norm := func(e ast.Expr) string {
			s := stripSpaces(types.ExprString(e))
			for from, to := range endText {
				s = strings.ReplaceAll(s, from, to)
			}
			s = strings.ReplaceAll(s, rn+".", "")
			if s == sizeField {
				return "size"
			}
			return s
		}
		touches := false
		ps, over := simplePaths(fi, func(n ast.Node) []paths.Event {
			var out []paths.Event
			switch v := n.(type) {
			case *ast.AssignStmt:
				for i, l := range v.Lhs {
					ls := norm(l)
					rs := ""
					if i < len(v.Rhs) {
						rs = norm(v.Rhs[i])
					}
					switch {
					case endsField != "" && ls == endsField:
						// the whole pair replaced by an empty literal: both ends nil
						if cl, ok := ast.Unparen(v.Rhs[i]).(*ast.CompositeLit); ok && len(cl.Elts) == 0 {
							touches = true
							out = append(out, paths.Event{Kind: "SET", Arg: "first=nil", Pos: v.Pos()}, paths.Event{Kind: "SET", Arg: "last=nil", Pos: v.Pos()})
						}
					case ls == "first" || ls == "last":
						touches = true
						out = append(out, paths.Event{Kind: "SET", Arg: ls + "=" + rs, Pos: v.Pos()})
					case ls == "size" && rs == "0":
						out = append(out, paths.Event{Kind: "SIZE", Arg: "=0", Pos: v.Pos()})
					case strings.HasSuffix(ls, ".next") || strings.HasSuffix(ls, ".prev"):
						out = append(out, paths.Event{Kind: "LINKSET", Arg: ls + "=" + rs, Pos: v.Pos()})
					default:
						// where a local node comes from on this path (a literal, or a node kept from earlier)
						if id, ok := l.(*ast.Ident); ok && i < len(v.Rhs) {
							if _, isPtr := fi.Pkg.TypesInfo.TypeOf(id).(*types.Pointer); isPtr {
								out = append(out, paths.Event{Kind: "NODEDEF", Arg: id.Name + "=" + rs, Pos: v.Pos()})
							}
						}
					}
				}
			case *ast.IncDecStmt:
				if norm(v.X) == "size" {
					out = append(out, paths.Event{Kind: "SIZE", Arg: v.Tok.String(), Pos: v.Pos()})
				}
			}
			return out
		})
		// a function that builds a list node links it in, whether or not it touches first/last itself
		buildsNode := false
		ast.Inspect(fi.Decl.Body, func(n ast.Node) bool {
			if cl, ok := n.(*ast.CompositeLit); ok {
				if st, ok := fi.Pkg.TypesInfo.TypeOf(cl).Underlying().(*types.Struct); ok {
					hp, hn := false, false
					for k := 0; k < st.NumFields(); k++ {
						switch st.Field(k).Name() {
						case "prev":
							hp = true
						case "next":
							hn = true
						}
					}
					if hp && hn {
						buildsNode = true
					}
				}
			}
			return true
		})
		if (!touches && !buildsNode) || over {
			continue
		}
		c := tn + "." + fi.Obj.Name()
		pos := p.Pos(fi.Decl.Pos())
		var probs []string
		// the node being inserted: a local defined as &Entity{prev: P, next: S}; what P and S are
		info := fi.Pkg.TypesInfo
		fresh := map[string][2]string{} // local name -> {norm(P), norm(S)}
		ast.Inspect(fi.Decl.Body, func(n ast.Node) bool {
			as, ok := n.(*ast.AssignStmt)
			if !ok || len(as.Lhs) != len(as.Rhs) {
				return true
			}
			for i, rhs := range as.Rhs {
				lid, ok := as.Lhs[i].(*ast.Ident)
				if !ok {
					continue
				}
				x := ast.Unparen(rhs)
				if u, ok := x.(*ast.UnaryExpr); ok && u.Op == token.AND {
					x = ast.Unparen(u.X)
				}
				cl, ok := x.(*ast.CompositeLit)
				if !ok {
					continue
				}
				st, ok := info.TypeOf(cl).Underlying().(*types.Struct)
				if !ok {
					continue
				}
				ps := [2]string{"nil", "nil"}
				for k, el := range cl.Elts {
					name, val := "", el
					if kv, ok := el.(*ast.KeyValueExpr); ok {
						if kid, ok := kv.Key.(*ast.Ident); ok {
							name, val = kid.Name, kv.Value
						}
					} else if k < st.NumFields() {
						name = st.Field(k).Name()
					}
					switch name {
					case "prev":
						ps[0] = norm(val)
					case "next":
						ps[1] = norm(val)
					}
				}
				fresh[lid.Name] = ps
			}
			return true
		})
		// same: x denotes the neighbour expression nb (the expression itself, or a local defined as it)
		same := func(x, nb string) bool {
			if x == nb {
				return true
			}
			found := false
			ast.Inspect(fi.Decl.Body, func(n ast.Node) bool {
				if as, ok := n.(*ast.AssignStmt); ok && len(as.Lhs) == len(as.Rhs) {
					for i, l := range as.Lhs {
						if lid, ok := l.(*ast.Ident); ok && lid.Name == x && norm(as.Rhs[i]) == nb {
							found = true
						}
					}
				}
				return true
			})
			return found
		}
		for _, pa := range ps {
			if !linkedConsistent(pa) {
				continue // a test repeated with the other outcome while nothing it reads was written
			}
			var setFirst, setLast string
			for _, e := range pa {
				if e.Kind == "SET" {
					if strings.HasPrefix(e.Arg, "first=") {
						setFirst = strings.TrimPrefix(e.Arg, "first=")
					} else {
						setLast = strings.TrimPrefix(e.Arg, "last=")
					}
				}
			}
			headRemoved := strings.HasSuffix(setFirst, ".next")
			tailRemoved := strings.HasSuffix(setLast, ".prev")
			_, f1 := fresh[setFirst]
			_, f2 := fresh[setLast]
			inserted := f1 || f2
			nodeName := setFirst
			if !f1 {
				nodeName = setLast
			}
			if !inserted && len(fresh) == 1 && !headRemoved && !tailRemoved && !(setFirst == "nil" && setLast == "nil") {
				// the path builds a node and sets neither end: still an insertion (in the middle, or a broken one)
				for k := range fresh {
					nodeName = k
				}
				inserted = true
			}
			cleared := setFirst == "nil" && setLast == "nil"
			emptyKnown := func(neg bool) bool {
				// the path knows whether the list becomes empty / the node had no neighbour on that side
				for _, e := range pa {
					if e.Kind == "COND" && (strings.Contains(e.Arg, "nil")) {
						return true
					}
				}
				return false
			}
			switch {
			case (setFirst == "nil") != (setLast == "nil") && !headRemoved && !tailRemoved:
				probs = append(probs, "one end of the list is reset to nil while the other keeps pointing at a dropped node: later insertions are linked behind the dead node and can never be reached from the head")
			case cleared:
				// Clear(): size = 0. Removal of the only node: the path knows the node has neither
				// neighbour and counts it off once
				onlyNode := pa.CountArg("SIZE", "--") == 1 && linkedKnows(pa, ".prev==nil", true) && linkedKnows(pa, ".next==nil", true)
				if !pa.HasArg("SIZE", "=0") && !onlyNode {
					probs = append(probs, "first/last cleared without size = 0")
				}
			case inserted:
				if pa.CountArg("SIZE", "++") != 1 {
					probs = append(probs, "a node is linked in without exactly one size++: "+pa.String())
				}
				// a node without a predecessor becomes the first, one without a successor the last; a
				// neighbour that exists is pointed at the node
				nb := fresh[nodeName]
				// on this path the node may not be the literal at all but a node kept from earlier
				// (a free list): what its links hold is then whatever they held
				reused := false
				for _, e := range pa {
					if e.Kind == "NODEDEF" && strings.HasPrefix(e.Arg, nodeName+"=") {
						reused = !strings.HasPrefix(strings.TrimPrefix(e.Arg, nodeName+"="), "&")
					}
				}
				if reused {
					nb = [2]string{"?", "?"}
				}
				// neighbours given to the node after it was built (n := &Entity{Value: v}; n.next = first)
				for _, e := range pa {
					if e.Kind != "LINKSET" {
						continue
					}
					if strings.HasPrefix(e.Arg, nodeName+".prev=") {
						nb[0] = strings.TrimPrefix(e.Arg, nodeName+".prev=")
					}
					if strings.HasPrefix(e.Arg, nodeName+".next=") {
						nb[1] = strings.TrimPrefix(e.Arg, nodeName+".next=")
					}
				}
				if reused {
					if setLast == nodeName && nb[1] == "?" {
						probs = append(probs, "a node taken from earlier use becomes the last node while its `next` still holds what it held: the list runs on into nodes that are not part of it")
					}
					if setFirst == nodeName && nb[0] == "?" {
						probs = append(probs, "a node taken from earlier use becomes the first node while its `prev` still holds what it held")
					}
				}
				for side, want := range [2]string{setFirst, setLast} {
					endName := [2]string{"first", "last"}[side]
					link := [2]string{".next=", ".prev="}[side]
					none := nb[side] == "nil"
					has := false
					for _, e := range pa {
						if e.Kind != "COND" || !strings.HasSuffix(strings.TrimSuffix(strings.TrimSuffix(e.Arg, "=true"), "=false"), "==nil") {
							continue
						}
						x := strings.TrimSuffix(strings.TrimSuffix(strings.TrimSuffix(e.Arg, "=true"), "=false"), "==nil")
						if !same(x, nb[side]) {
							continue
						}
						if strings.HasSuffix(e.Arg, "=true") {
							none = true
						} else {
							has = true
						}
					}
					if none && want != nodeName {
						probs = append(probs, "a node inserted with no neighbour on the "+endName+" side does not become `"+endName+"`: it is unreachable from that end (insertion into an empty list must set both ends)")
					}
					if has {
						linked := false
						for _, e := range pa {
							if e.Kind == "LINKSET" && strings.HasSuffix(e.Arg, link+nodeName) {
								linked = true
							}
						}
						if !linked {
							probs = append(probs, "the existing neighbour on the "+endName+" side is not pointed at the new node")
						}
					}
				}
			case headRemoved || tailRemoved:
				if pa.CountArg("SIZE", "--") != 1 {
					probs = append(probs, "a node is unlinked without exactly one size--: "+pa.String())
				}
				if headRemoved && setLast == "" {
					// legitimate only when the path established that a successor exists
					succ := false
					for _, e := range pa {
						if e.Kind == "COND" && (strings.HasSuffix(e.Arg, ".next==nil=false") || strings.HasSuffix(e.Arg, ".next!=nil=true")) {
							succ = true
						}
					}
					if !succ {
						probs = append(probs, "the head is unlinked and, when it was the only node, `last` keeps pointing at the removed node: "+pa.String())
					}
				}
				if tailRemoved && setFirst == "" {
					pred := false
					for _, e := range pa {
						if e.Kind == "COND" && (strings.HasSuffix(e.Arg, ".prev==nil=false") || strings.HasSuffix(e.Arg, ".prev!=nil=true")) {
							pred = true
						}
					}
					if !pred {
						probs = append(probs, "the tail is unlinked and, when it was the only node, `first` keeps pointing at the removed node: "+pa.String())
					}
				}
				_ = emptyKnown
			}
		}
		checkedFns[fi.Obj] = true
		if len(probs) > 0 {
			r.Viol(rule, c, pos, strings.Join(uniq(probs), "; "))
		} else {
			r.OK(rule, c, pos, fmt.Sprintf("%d paths keep first/last/size consistent", len(ps)))
		}
	}
	// exported operations that do their surgery through one of the functions judged above (AddFirst ->
	// link, RemoveFirst -> remove): recorded so that merging several operations into one helper does
	// not look like anchors that went missing
	for _, fi := range p.MethodsOf(t) {
		if fi.Decl.Body == nil || !fi.Obj.Exported() || checkedFns[fi.Obj] {
			continue
		}
		via := ""
		ast.Inspect(fi.Decl.Body, func(n ast.Node) bool {
			if call, ok := n.(*ast.CallExpr); ok {
				if fn := calleeFunc(fi.Pkg.TypesInfo, call); fn != nil && checkedFns[fn] && via == "" {
					via = fn.Name()
				}
			}
			return true
		})
		if via != "" {
			// an operation that is handed a node to remove removes it: a way out that skips the surgery
			// must have found that there is no node (the parameter is nil), not merely that the node's own
			// links are nil — the only node of a list has no neighbours either
			bad := ""
			if strings.HasPrefix(fi.Obj.Name(), "Remove") && fi.Decl.Type.Params.NumFields() == 1 && len(fi.Decl.Type.Params.List[0].Names) == 1 {
				pn := fi.Decl.Type.Params.List[0].Names[0].Name
				if _, isPtr := fi.Pkg.TypesInfo.TypeOf(fi.Decl.Type.Params.List[0].Type).(*types.Pointer); isPtr {
					ps, over := simplePaths(fi, func(n ast.Node) []paths.Event {
						var out []paths.Event
						ast.Inspect(n, func(m ast.Node) bool {
							if call, ok := m.(*ast.CallExpr); ok {
								if fn := calleeFunc(fi.Pkg.TypesInfo, call); fn != nil && checkedFns[fn] {
									out = append(out, paths.Event{Kind: "SURGERY", Pos: call.Pos()})
								}
							}
							return true
						})
						return out
					})
					if !over {
						for _, pa := range ps {
							if pa.Has("SURGERY") || pa.Has("PANIC") {
								continue
							}
							isNil, byLinks := false, false
							for _, e := range pa {
								if e.Kind != "COND" {
									continue
								}
								if e.Arg == cc(pn, "==", "nil", true) {
									isNil = true
								}
								if strings.Contains(e.Arg, pn+".prev") || strings.Contains(e.Arg, pn+".next") {
									byLinks = true
								}
							}
							if !isNil && byLinks {
								bad = "a path returns without unlinking the node it was handed because the node's own links are nil (" + pa.String() + "): the only node of a list has no neighbours either, so it stays in the list"
							}
						}
					}
				}
			}
			r.Check(bad == "", rule, tn+"."+fi.Obj.Name()+" (through "+via+")", p.Pos(fi.Decl.Pos()), "delegates the list surgery to a function judged by this rule", bad)
		}
	}
}

// localDefIn: the single definition of a local inside body (nil if none or several).
func localDefIn(info *types.Info, body *ast.BlockStmt, id *ast.Ident) ast.Expr {
	obj := info.ObjectOf(id)
	var def ast.Expr
	n := 0
	ast.Inspect(body, func(m ast.Node) bool {
		if as, ok := m.(*ast.AssignStmt); ok && len(as.Lhs) == len(as.Rhs) {
			for i, l := range as.Lhs {
				if lid, ok := l.(*ast.Ident); ok && info.ObjectOf(lid) == obj {
					def = as.Rhs[i]
					n++
				}
			}
		}
		return true
	})
	if n == 1 {
		return def
	}
	return nil
}

func calleeFunc(info *types.Info, call *ast.CallExpr) *types.Func {
	var id *ast.Ident
	switch f := ast.Unparen(call.Fun).(type) {
	case *ast.Ident:
		id = f
	case *ast.SelectorExpr:
		id = f.Sel
	}
	if id == nil {
		return nil
	}
	fn, _ := info.Uses[id].(*types.Func)
	return fn
}

// c13ReturnsAtLeast: on every returning path of the function the result is at least the value the
// given parameter had on entry: it returns the parameter itself (only ever raised: p = max(..) or
// p = c under p < c), or a local that was last set to it or was tested `local < p` false afterwards.
func c13ReturnsAtLeast(fi *core.FuncInfo, param types.Object) (bool, string) {
	info := fi.Pkg.TypesInfo
	pn := param.Name()
	norm := func(e ast.Expr) string { return stripSpaces(types.ExprString(e)) }
	ps, over := simplePaths(fi, func(m ast.Node) []paths.Event {
		var out []paths.Event
		if v, ok := m.(*ast.AssignStmt); ok && len(v.Lhs) == len(v.Rhs) {
			for i, l := range v.Lhs {
				if _, isId := l.(*ast.Ident); isId {
					out = append(out, paths.Event{Kind: "ASSIGN", Arg: norm(l) + "=" + norm(v.Rhs[i]), Pos: v.Pos()})
				}
			}
		}
		return out
	})
	if over {
		return false, "too many paths"
	}
	_ = info
	n := 0
	for _, pa := range ps {
		if pa.Has("PANIC") {
			continue
		}
		var ret *ast.ReturnStmt
		ri := -1
		for i, e := range pa {
			if e.Kind == "RET" {
				if rs, ok := e.Node.(*ast.ReturnStmt); ok {
					ret, ri = rs, i
				}
			}
		}
		if ret == nil || len(ret.Results) != 1 {
			return false, "a path without a single result"
		}
		n++
		for _, e := range pa[:ri] {
			if e.Kind == "ASSIGN" && strings.HasPrefix(e.Arg, pn+"=") {
				rhs := strings.TrimPrefix(e.Arg, pn+"=")
				if !(strings.Contains(rhs, "math.Max(") || strings.HasPrefix(rhs, "max(") || hasCmp(pa, pn, "<", rhs, true)) {
					return false, "the parameter is overwritten with " + rhs
				}
			}
		}
		rs := norm(ret.Results[0])
		ok := rs == pn
		if !ok {
			last := -1
			for i, e := range pa[:ri] {
				if e.Kind == "ASSIGN" && strings.HasPrefix(e.Arg, rs+"=") {
					rhs := strings.TrimPrefix(e.Arg, rs+"=")
					if hasCmp(pa, rs, ">", rhs, true) {
						continue
					}
					last = i
					ok = rhs == pn
				}
			}
			for i, e := range pa[:ri] {
				if i > last && e.Kind == "COND" && e.Arg == cc(rs, "<", pn, false) {
					ok = true
				}
			}
		}
		if !ok {
			return false, "returns " + rs + " on a path that never establishes " + rs + " >= " + pn
		}
	}
	return n > 0, ""
}

// c13ColumnsPerm: the permutation kept as parallel columns instead of (index, value) records. Some
// body initialises an index column to the identity (K[i] = i for the loop index i), the sorter handed
// to sort.Sort swaps every slice column of its struct at the same two positions, and the method
// returns an index column. The result is then a permutation of 0..n-1 by construction, moved in step
// with the values.
func c13ColumnsPerm(p *core.Program, fi *core.FuncInfo, bodies []*core.FuncInfo) bool {
	identity := false
	for _, b := range bodies {
		binfo := b.Pkg.TypesInfo
		ast.Inspect(b.Decl.Body, func(n ast.Node) bool {
			var idx types.Object
			var body *ast.BlockStmt
			switch v := n.(type) {
			case *ast.ForStmt:
				if as, ok := v.Init.(*ast.AssignStmt); ok && len(as.Lhs) == 1 {
					if id, ok := as.Lhs[0].(*ast.Ident); ok {
						idx, body = binfo.ObjectOf(id), v.Body
					}
				}
			case *ast.RangeStmt:
				if id, ok := v.Key.(*ast.Ident); ok && id.Name != "_" {
					idx, body = binfo.ObjectOf(id), v.Body
				}
			}
			if idx == nil || body == nil {
				return true
			}
			for _, st := range body.List {
				as, ok := st.(*ast.AssignStmt)
				if !ok || len(as.Lhs) != 1 || len(as.Rhs) != 1 {
					continue
				}
				ix, ok := ast.Unparen(as.Lhs[0]).(*ast.IndexExpr)
				if !ok {
					continue
				}
				li, ok1 := ast.Unparen(ix.Index).(*ast.Ident)
				ri, ok2 := ast.Unparen(stripConvs(binfo, as.Rhs[0])).(*ast.Ident)
				if ok1 && ok2 && binfo.ObjectOf(li) == idx && binfo.ObjectOf(ri) == idx {
					identity = true
				}
			}
			return true
		})
	}
	if !identity {
		return false
	}
	// the sorter: the argument of sort.Sort; its Swap exchanges every slice field at (i, j)
	info := fi.Pkg.TypesInfo
	swapsAll := false
	ast.Inspect(fi.Decl.Body, func(n ast.Node) bool {
		call, ok := n.(*ast.CallExpr)
		if !ok || len(call.Args) != 1 || !isCallTo(info, call, "sort", "Sort") {
			return true
		}
		nt := namedOf(info.TypeOf(call.Args[0]))
		if nt == nil {
			return true
		}
		st, ok := nt.Underlying().(*types.Struct)
		if !ok {
			return true
		}
		var cols []string
		for k := 0; k < st.NumFields(); k++ {
			if _, isSlice := st.Field(k).Type().Underlying().(*types.Slice); isSlice {
				cols = append(cols, st.Field(k).Name())
			}
		}
		for _, m := range p.MethodsOf(nt) {
			if m.Obj.Name() != "Swap" || m.Decl.Body == nil || m.Decl.Type.Params.NumFields() == 0 {
				continue
			}
			swapped := map[string]bool{}
			ast.Inspect(m.Decl.Body, func(k ast.Node) bool {
				as, ok := k.(*ast.AssignStmt)
				if !ok || len(as.Lhs) != 2 || len(as.Rhs) != 2 {
					return true
				}
				l0, l1 := stripSpaces(types.ExprString(as.Lhs[0])), stripSpaces(types.ExprString(as.Lhs[1]))
				r0, r1 := stripSpaces(types.ExprString(as.Rhs[0])), stripSpaces(types.ExprString(as.Rhs[1]))
				if l0 == r1 && l1 == r0 && l0 != l1 {
					if ix, ok := ast.Unparen(as.Lhs[0]).(*ast.IndexExpr); ok {
						if sel, ok := ast.Unparen(ix.X).(*ast.SelectorExpr); ok {
							swapped[sel.Sel.Name] = true
						}
					}
				}
				return true
			})
			all := len(cols) >= 2
			for _, cn := range cols {
				if !swapped[cn] {
					all = false
				}
			}
			swapsAll = all
		}
		return true
	})
	if !swapsAll {
		return false
	}
	// the method returns an []int column
	returnsCol := false
	ast.Inspect(fi.Decl.Body, func(n ast.Node) bool {
		if rs, ok := n.(*ast.ReturnStmt); ok && len(rs.Results) == 1 {
			if _, isId := ast.Unparen(rs.Results[0]).(*ast.Ident); isId {
				if sl, ok := info.TypeOf(rs.Results[0]).Underlying().(*types.Slice); ok {
					if b, ok := sl.Elem().Underlying().(*types.Basic); ok && b.Kind() == types.Int {
						returnsCol = true
					}
				}
			}
		}
		return true
	})
	return returnsCol
}

// linkedKnows: the path tested an atom ending in suffix with that outcome.
func linkedKnows(pa paths.Path, suffix string, val bool) bool {
	for _, e := range pa {
		if e.Kind == "COND" && strings.HasSuffix(e.Arg, suffix+"="+map[bool]string{true: "true", false: "false"}[val]) {
			return true
		}
	}
	return false
}

// linkedConsistent: no comparison is found true and false on the same path while none of the
// locations it mentions was assigned in between.
func linkedConsistent(pa paths.Path) bool {
	seen := map[string]bool{}
	for _, e := range pa {
		switch e.Kind {
		case "SET", "LINKSET":
			lhs := e.Arg
			if i := strings.Index(lhs, "="); i > 0 {
				lhs = lhs[:i]
			}
			for k := range seen {
				if strings.Contains(k, lhs) {
					delete(seen, k)
				}
			}
		case "COND":
			i := strings.LastIndex(e.Arg, "=")
			if i < 0 {
				continue
			}
			atom, val := e.Arg[:i], e.Arg[i+1:] == "true"
			if prev, ok := seen[atom]; ok && prev != val {
				return false
			}
			seen[atom] = val
		}
	}
	return true
}

// intOnlyStmt: a statement that only defines or assigns integer locals (possibly under an if on
// booleans): safe to pre-run before a comparator closure.
func intOnlyStmt(info *types.Info, st ast.Stmt) bool {
	isIntIdent := func(e ast.Expr) bool {
		id, ok := e.(*ast.Ident)
		if !ok {
			return false
		}
		o := info.ObjectOf(id)
		if o == nil {
			return false
		}
		b, ok := o.Type().Underlying().(*types.Basic)
		return ok && b.Info()&types.IsInteger != 0
	}
	switch v := st.(type) {
	case *ast.AssignStmt:
		for _, l := range v.Lhs {
			if !isIntIdent(l) {
				return false
			}
		}
		for _, r := range v.Rhs {
			if _, isCall := ast.Unparen(r).(*ast.CallExpr); isCall {
				return false
			}
		}
		return true
	case *ast.DeclStmt:
		gd, ok := v.Decl.(*ast.GenDecl)
		if !ok {
			return false
		}
		for _, sp := range gd.Specs {
			vs, ok := sp.(*ast.ValueSpec)
			if !ok {
				return false
			}
			for _, nm := range vs.Names {
				if !isIntIdent(nm) {
					return false
				}
			}
		}
		return true
	case *ast.IfStmt:
		if v.Init != nil {
			return false
		}
		for _, b := range v.Body.List {
			if !intOnlyStmt(info, b) {
				return false
			}
		}
		if v.Else != nil {
			if blk, ok := v.Else.(*ast.BlockStmt); ok {
				for _, b := range blk.List {
					if !intOnlyStmt(info, b) {
						return false
					}
				}
			} else if !intOnlyStmt(info, v.Else) {
				return false
			}
		}
		return true
	}
	return false
}

// c13CopyOut: a method of a typed list that hands out its elements as a slice hands out the sequence,
// not the backing table: the table is longer than the list whenever capacity and size differ, and the
// slots beyond size hold zero values or removed elements. In every parameterless method returning a
// slice of the table's element type, the table is not returned as it is, not expanded whole into an
// append, and not the measure of a make (len(table) / cap(table)); table[:size], make(size)+copy and
// loops below size are the forms that stop at size.
func c13CopyOut(p *core.Program, r *core.Report, t *types.Named) {
	st, ok := t.Underlying().(*types.Struct)
	if !ok {
		return
	}
	var elem types.Type
	tableName := ""
	for i := 0; i < st.NumFields(); i++ {
		if sl, ok := st.Field(i).Type().Underlying().(*types.Slice); ok && (st.Field(i).Name() == "table" || tableName == "") {
			elem, tableName = sl.Elem(), st.Field(i).Name()
		}
	}
	if elem == nil {
		return
	}
	for _, fi := range p.MethodsOf(t) {
		if fi.Decl.Body == nil || fi.Decl.Type.Params.NumFields() != 0 {
			continue
		}
		sig := fi.Obj.Type().(*types.Signature)
		if sig.Results().Len() != 1 {
			continue
		}
		rs, ok := sig.Results().At(0).Type().Underlying().(*types.Slice)
		if !ok || !types.Identical(rs.Elem(), elem) {
			continue
		}
		rn := recvName(fi)
		isTable := func(e ast.Expr) bool {
			sel, ok := ast.Unparen(e).(*ast.SelectorExpr)
			if !ok || sel.Sel.Name != tableName {
				return false
			}
			id, ok := ast.Unparen(sel.X).(*ast.Ident)
			return ok && id.Name == rn
		}
		bad := ""
		ast.Inspect(fi.Decl.Body, func(n ast.Node) bool {
			switch v := n.(type) {
			case *ast.ReturnStmt:
				if len(v.Results) == 1 && isTable(v.Results[0]) {
					bad = "returns the backing table itself (" + p.Pos(v.Pos()) + ")"
				}
			case *ast.CallExpr:
				id, ok := ast.Unparen(v.Fun).(*ast.Ident)
				if !ok {
					return true
				}
				switch id.Name {
				case "append":
					if v.Ellipsis.IsValid() && len(v.Args) >= 2 && isTable(v.Args[len(v.Args)-1]) {
						bad = "appends the whole backing table (" + p.Pos(v.Pos()) + ")"
					}
				case "make":
					for _, a := range v.Args[1:] {
						if c, ok := ast.Unparen(a).(*ast.CallExpr); ok && len(c.Args) == 1 && isTable(c.Args[0]) {
							if f, ok := c.Fun.(*ast.Ident); ok && (f.Name == "len" || f.Name == "cap") {
								bad = "sizes the result by " + f.Name + "(" + tableName + ") (" + p.Pos(v.Pos()) + ")"
							}
						}
					}
				}
			}
			return true
		})
		if bad != "" {
			bad += ": the result has one element per slot of the table, the size elements of the list followed by the unused and stale slots"
		}
		r.Check(bad == "", "C13.copy-out", core.FuncName(fi.Obj), p.Pos(fi.Decl.Pos()), "stops at size", bad)
	}
}

// c13OwnTable: a list's backing table is its own. No method installs a slice it was handed as a
// parameter (or a re-slice of one) as the table: the caller keeps writing to that array, and every
// other list built from it shares it — the list's contents then change without any operation on it.
func c13OwnTable(p *core.Program, r *core.Report, t *types.Named) {
	for _, fi := range p.MethodsOf(t) {
		if fi.Decl.Body == nil || fi.Decl.Type.Params.NumFields() == 0 {
			continue
		}
		info := fi.Pkg.TypesInfo
		params := map[types.Object]bool{}
		hasSlice := false
		for _, f := range fi.Decl.Type.Params.List {
			for _, n := range f.Names {
				if o := info.Defs[n]; o != nil {
					if _, isSl := o.Type().Underlying().(*types.Slice); isSl {
						params[o] = true
						hasSlice = true
					}
				}
			}
		}
		if !hasSlice {
			continue
		}
		rn := recvName(fi)
		bad := ""
		ast.Inspect(fi.Decl.Body, func(n ast.Node) bool {
			as, ok := n.(*ast.AssignStmt)
			if !ok || len(as.Lhs) != len(as.Rhs) {
				return true
			}
			for i, l := range as.Lhs {
				sel, ok := ast.Unparen(l).(*ast.SelectorExpr)
				if !ok {
					continue
				}
				if id, ok := ast.Unparen(sel.X).(*ast.Ident); !ok || id.Name != rn {
					continue
				}
				if _, isSl := info.TypeOf(sel).Underlying().(*types.Slice); !isSl {
					continue
				}
				rhs := ast.Unparen(as.Rhs[i])
				for {
					if se, ok := rhs.(*ast.SliceExpr); ok {
						rhs = ast.Unparen(se.X)
						continue
					}
					break
				}
				if id, ok := rhs.(*ast.Ident); ok && params[info.ObjectOf(id)] {
					bad = "installs the caller's slice " + id.Name + " as " + types.ExprString(l) + " at " + p.Pos(as.Pos()) + ": the list shares its storage with the caller (and with any other list built from the same slice), so its contents change without an operation on it"
				}
			}
			return true
		})
		r.Check(bad == "", "C13.own-table", core.FuncName(fi.Obj), p.Pos(fi.Decl.Pos()), "elements are copied in, the table stays the list's own", bad)
	}
}
