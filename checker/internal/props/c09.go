package props

import (
	"strings"
	"go/types"

	"golibcheck/internal/core"
	"golibcheck/internal/locks"
)

// C09 — linked hash maps/sets behave as bounded insertion-ordered dictionaries.
// C12 — plain hash maps and sets behave as mathematical maps and sets.
// Behavioural equivalence with a model over all histories is not decidable statically; what is
// decided are the structural invariants of the ported algorithm, uniformly over the sibling types.
func init() {
	register(&Checker{ID: "C09", Canaries: c09Canaries, Run: runC09})
	register(&Checker{ID: "C12", Run: runC12})
}

var c09Types = []string{"LinkedMap", "IntKeyLinkedMap", "LongKeyLinkedMap", "StringKeyLinkedMap", "IntIntLinkedMap", "IntFloatLinkedMap",
	"LongFloatLinkedMap", "LongLongLinkedMap", "StringIntLinkedMap", "StringLongLinkedMap", "LinkedSet", "IntLinkedSet", "StringLinkedSet"}
var c12Types = []string{"IntIntMap", "IntKeyMap", "IntSet", "StringSet"}

func c09Canaries() []core.Canary {
	return []core.Canary{{RelDir: "util/hmap", Name: "c09", Src: `package hmap

type zzCanaryEntry struct {
	key                  int32
	value                int32
	next                 *zzCanaryEntry
	link_next, link_prev *zzCanaryEntry
}

type zzCanaryLinked struct {
	table      []*zzCanaryEntry
	header     *zzCanaryEntry
	count      int
	threshold  int
	loadFactor float32
	max        int
}

func (this *zzCanaryLinked) hash(key int32) uint { return uint(key) }
func (this *zzCanaryLinked) rehash() {
	oldCapacity := len(this.table)
	oldMap := this.table
	newCapacity := oldCapacity*2 + 1
	newMap := make([]*zzCanaryEntry, newCapacity)
	this.threshold = int(float32(newCapacity) * this.loadFactor)
	this.table = newMap
	for i := oldCapacity; i > 0; i-- {
		for old := oldMap[i]; old != nil; {
			e := old
			old = old.next
			index := uint(uint32(e.key)) % uint(newCapacity)
			e.next = newMap[index]
			newMap[index] = e
		}
	}
}
func (this *zzCanaryLinked) chain(a, b, e *zzCanaryEntry) {}
func (this *zzCanaryLinked) unchain(e *zzCanaryEntry)     {}
func (this *zzCanaryLinked) remove(k int32) int32          { return 0 }

// evicts with '>' (holds max+1), inserts at the wrong end for FIRST, no growth check
func (this *zzCanaryLinked) put(key int32, value int32, m PUT_MODE) int32 {
	tab := this.table
	index := this.hash(key) % uint(len(tab))
	for e := tab[index]; e != nil; e = e.next {
		if e.key == key {
			old := e.value
			e.value = value
			this.count++
			return old
		}
	}
	if this.max > 0 {
		for this.count > this.max {
			k := this.header.link_next.key
			this.remove(k)
		}
	}
	e := &zzCanaryEntry{key: key, value: value, next: tab[index]}
	tab[index] = e
	this.chain(this.header.link_prev, this.header, e)
	this.count++
	return 0
}
`, Expect: []core.CanaryExpect{{Rule: "C09.insert", Sub: "zzCanaryLinked.put[PUT_FIRST]"}, {Rule: "C09.update", Sub: "zzCanaryLinked.put"},
		{Rule: "C09.bound", Sub: "zzCanaryLinked.put"}, {Rule: "C09.growth", Sub: "zzCanaryLinked.put"}, {Rule: "C09.rehash", Sub: "zzCanaryLinked"}}}}
}

func hmapNamed(p *core.Program, name string) *types.Named {
	pk := p.Pkg("util/hmap")
	if pk == nil {
		return nil
	}
	if o := pk.Types.Scope().Lookup(name); o != nil {
		n, _ := o.Type().(*types.Named)
		return n
	}
	return nil
}

func runC09(p *core.Program, r *core.Report) {
	defer setLinkCanon(nil)
	hmapProg = p
	r.Explanation = "Structural invariants of the 13 linked hash collections, instantiated uniformly (siblings cross-checked by one rule table). Every insertion helper is enumerated as event paths per PUT_MODE (mode switches folded, bucket scan and eviction loops taken zero times or once). New-key paths: exactly one bucket insertion chained in front of the *current* bucket head, one link at the mode's end, one size increment; with a maximum, eviction from the opposite end in a `count >= max` loop (under max > 0) before inserting; growth test `count >= threshold` before inserting, and after rehash() the local table and index are recomputed. Existing-key paths: no size change, no eviction, no bucket insertion; a move to the stated end exactly for the forced modes, guarded by not-already-there. remove(): one bucket unlink, one size decrement, one order unlink on the found path and nothing otherwise. rehash(): 2n+1 buckets, threshold from the new capacity, every old bucket visited, re-bucketing with the same hash as lookups (or the hash cached at insertion from hash(key)). Whole-table walks cover exactly buckets 0..len-1. Enumerator constructors carry the discriminator of the constructing method. Sort = collect, sort.Sort, clear, re-insert at the tail. Bucket indices are non-negative."
	r.NotDecided = []string{"equivalence with the reference dictionary over operation histories (return values, order after arbitrary histories)", "correctness of chain/unchain pointer surgery beyond being called with the right neighbours", "comparator laws of user-supplied sort functions"}
	r.Assumptions = []string{"locking (C10) is separate", "entry types are the package's own"}
	r.Rule("C09.insert", "new key: one bucket insertion before the current head, one link at the mode's end, one size increment", 60)
	r.Rule("C09.update", "existing key: size/buckets unchanged, nothing evicted; moved to the stated end iff forced mode and not already there", 60)
	r.Rule("C09.bound", "with max set: evict from the opposite end while count >= max, before inserting; never otherwise", 60)
	r.Rule("C09.growth", "rehash iff count >= threshold before inserting; table and index recomputed afterwards", 60)
	r.Rule("C09.remove", "remove: found = bucket unlink + size-1 + order unlink; not found = no change", 12)
	r.Rule("C09.rehash", "rehash: 2n+1, threshold from new capacity, all old buckets re-bucketed with the lookup hash", 12)
	r.Rule("C09.walks", "whole-table walks visit buckets 0..len-1 exactly", 12)
	r.Rule("C09.enumer", "Keys/Values/Entries construct their enumerator with the matching discriminator", 30)
	r.Rule("C09.own-entries", "the bucket table is filled only with entries of this instance: no bucket array or bucket of another instance of the type is copied or installed (shared chains are rewritten under the other's feet)", 8)
	r.Rule("C09.elem-assert", "a type assertion on an element of the collection's own enumeration names a type the enumerator yields", 10)
	r.Rule("C09.sentinel", "the header of the order ring is not taken for an element: a method that compares the key of header.link_prev/link_next with a key it was given, or stores into that entry, has ruled the header (the empty collection) out first", 20)
	r.Rule("C09.read-only", "look-ups (Contains*, Get, Size, IsEmpty) store into no field of the collection, of an entry, or into a bucket", 20)
	r.Rule("C09.clear", "emptying a collection zeroes its count on every path that drops the buckets", 8)
	r.Rule("C09.no-reentry", "every operation returns: no method of the linked collections calls, with its mutex held, a same-receiver method that acquires it again", 10)
	noReentryRule(p, r, "C09.no-reentry", c09Types)
	r.Rule("C09.sort", "Sort: collect, sort.Sort, clear, re-insert all at the tail", 12)
	r.Rule("C09.key-domain", "operations of one collection agree on which keys exist: no lookup/removal rejects a key the insertion path stores", 1)
	r.Rule("C09.ctor", "every constructor leaves the collection with at least one bucket, whatever initial capacity it is given (lookups take the hash modulo the table length)", 13)
	r.Rule("C09.index", "bucket indices are non-negative (unsigned modulo or masked hash)", 40)
	modes := hmapModes(p)
	names := append([]string{}, c09Types...)
	if hmapNamed(p, "zzCanaryLinked") != nil {
		names = append(names, "zzCanaryLinked")
	}
	for _, n := range names {
		t := hmapNamed(p, n)
		if t == nil {
			r.Undec("C09.insert", "util/hmap."+n, "-", "type not found")
			continue
		}
		setLinkCanon(t)
		h := &hmapType{p: p, r: r, pre: "C09", t: t, name: "util/hmap." + n, linked: true, hasMax: structHasField(t, "max"), modes: modes}
		h.checkInsertHelpers()
		h.checkRemove()
		h.checkMoves()
		h.checkRehash()
		h.checkWalks()
		h.checkEnumer()
		h.checkElemAsserts()
		h.checkForeign()
		h.checkSort()
		h.checkIndexSign()
		h.checkKeyDomain()
		h.checkCtor()
		h.checkEntryCache()
		h.checkTableInstall()
		h.checkSentinel()
		h.checkReadOnly()
		h.checkClear()
		h.checkNoBlindReject()
	}
}

func runC12(p *core.Program, r *core.Report) {
	defer setLinkCanon(nil)
	hmapProg = p
	r.Explanation = "Structural invariants of the four plain hash collections (IntIntMap, IntKeyMap, IntSet, StringSet), same rule table as C09 without the order list: insertion helpers (one bucket insertion in front of the current head, one size increment, growth test and recomputation after rehash), update-in-place without size change, remove (one unlink, one decrement on the found path only), rehash (2n+1, threshold, coverage, same hash as lookups), whole-table walks, non-negative bucket indices, and the serialised form of IntIntMap (ToBytes~ToObject wire agreement)."
	r.NotDecided = []string{"equivalence with the mathematical map/set over histories", "enumeration completeness beyond the walk-coverage rule"}
	r.Rule("C12.insert", "new key: one bucket insertion before the current head, one size increment", 4)
	r.Rule("C12.update", "existing key: size and buckets unchanged", 4)
	r.Rule("C12.growth", "rehash iff count >= threshold before inserting; table and index recomputed", 4)
	r.Rule("C12.remove", "remove: found = bucket unlink + size-1; not found = no change", 3)
	r.Rule("C12.rehash", "rehash: 2n+1, threshold from new capacity, all old buckets re-bucketed with the lookup hash", 3)
	r.Rule("C12.walks", "whole-table walks visit buckets 0..len-1 exactly", 3)
	r.Rule("C12.enumer", "enumerator constructors carry the matching discriminator and start index", 3)
	r.Rule("C12.own-entries", "the bucket table is filled only with entries of this instance: no bucket array or bucket of another instance of the type is copied or installed", 2)
	r.Rule("C12.elem-assert", "a type assertion on an element of the collection's own enumeration names a type the enumerator yields", 1)
	r.Rule("C12.key-domain", "operations of one collection agree on which keys exist: no lookup/removal rejects a key the insertion path stores", 1)
	r.Rule("C12.ctor", "every constructor leaves the collection with at least one bucket, whatever initial capacity it is given (lookups take the hash modulo the table length)", 4)
	r.Rule("C12.index", "bucket indices are non-negative (unsigned modulo or masked hash)", 8)
	r.Rule("C12.clear", "emptying a collection zeroes its count on every path that drops the buckets", 2)
	r.Rule("C12.read-only", "look-ups (Contains*, Get, Size, IsEmpty) store into no field of the collection, of an entry, or into a bucket: an enumeration in progress is not disturbed by queries", 6)
	r.Rule("C12.serial", "IntIntMap.ToBytes ~ ToObject agree on the layout", 1)
	modes := hmapModes(p)
	for _, n := range c12Types {
		t := hmapNamed(p, n)
		if t == nil {
			r.Undec("C12.insert", "util/hmap."+n, "-", "type not found")
			continue
		}
		setLinkCanon(t)
		h := &hmapType{p: p, r: r, pre: "C12", t: t, name: "util/hmap." + n, linked: false, hasMax: false, modes: modes} // plain types never evict (max only feeds IsFull)
		h.checkInsertHelpers()
		h.checkRemove()
		h.checkMoves()
		h.checkRehash()
		h.checkWalks()
		h.checkEnumer()
		h.checkElemAsserts()
		h.checkForeign()
		h.checkIndexSign()
		h.checkKeyDomain()
		h.checkCtor()
		h.checkEntryCache()
		h.checkTableInstall()
		h.checkReadOnly()
		h.checkClear()
		h.checkNoBlindReject()
	}
	c12Serial(p, r)
	c12EnumWalk(p, r)
	// an operation that never returns answers nothing: no method of the plain collections calls, with
	// its mutex held, a method of the same instance that takes it again (C10's re-entry rule on these
	// four types; KeyArray/ToString/Sort go through the enumerator constructors)
	r.Rule("C12.no-reentry", "no method of the plain maps and sets calls, with its mutex held, a same-receiver method that acquires it again: every operation returns", 4)
	noReentryRule(p, r, "C12.no-reentry", c12Types)
}

// noReentryRule: C10's re-entry rule on the given hash collections.
func noReentryRule(p *core.Program, r *core.Report, rule string, typeNames []string) {
	for _, n := range typeNames {
		t := hmapNamed(p, n)
		if t == nil {
			continue
		}
		tl := locks.Analyze(p, t)
		may := tl.MayLock()
		bad := 0
		for _, fl := range tl.Order {
			for _, cs := range fl.Calls {
				if cs.Held == locks.No {
					continue
				}
				if path, ok := may[cs.Callee]; ok {
					bad++
					short := make([]string, len(path))
					for i, sname := range path {
						short[i] = locks.ShortName(sname)
					}
					r.Viol(rule, "util/hmap."+n+"."+fl.FI.Obj.Name()+" -> "+cs.Callee.Name(), p.Pos(cs.Pos), "called with the mutex held, and "+strings.Join(short, " -> ")+" locks the same non-reentrant mutex: the call never returns")
				}
			}
		}
		if bad == 0 {
			r.OK(rule, "util/hmap."+n, "-", "no call made with the mutex held reaches Lock() of that mutex")
		}
	}
}
