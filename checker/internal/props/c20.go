package props

import (
	"fmt"
	"go/ast"
	"go/token"
	"go/types"
	"regexp"
	"sort"
	"strings"

	"golibcheck/internal/core"
	"golibcheck/internal/paths"
)

// C20 — value equality and comparison are total and lawful.
func init() { register(&Checker{ID: "C20", Canaries: c20Canaries, Run: runC20}) }

func c20Canaries() []core.Canary {
	return []core.Canary{{RelDir: "lang/value", Name: "c20", Src: `package value

import "github.com/whatap/golib/io"

type zzCanaryCmp struct {
	A, B int64
	m    *MapValue
}

func (this *zzCanaryCmp) GetValueType() byte       { return 99 }
func (this *zzCanaryCmp) Write(o *io.DataOutputX)  {}
func (this *zzCanaryCmp) Read(in *io.DataInputX)   {}
func (this *zzCanaryCmp) ToString() string         { return "" }

// unchecked assertion, byte difference, non-antisymmetric tie handling
func (this *zzCanaryCmp) CompareTo(o Value) int {
	that := o.(*zzCanaryCmp)
	if o.GetValueType() != this.GetValueType() {
		return int(this.GetValueType() - o.GetValueType())
	}
	if this.A == that.A && this.B == that.B {
		return 0
	}
	if this.A < that.A {
		return 1
	}
	return -1
}
func (this *zzCanaryCmp) Equals(o Value) bool {
	if o == nil || o.GetValueType() != this.GetValueType() {
		return false
	}
	that := o.(*zzCanaryCmp)
	v := that.m.table.Get("k").(Value)
	return this.A == that.A && v != nil
}
`, Expect: []core.CanaryExpect{{Rule: "C20.total", Sub: "zzCanaryCmp.CompareTo"}, {Rule: "C20.total", Sub: "zzCanaryCmp.Equals"},
		{Rule: "C20.mixed", Sub: "zzCanaryCmp"}, {Rule: "C20.same", Sub: "zzCanaryCmp"}}},
		{RelDir: "lang/value", Name: "c20keyed", Src: `package value

import (
	"github.com/whatap/golib/io"
	"github.com/whatap/golib/util/hmap"
)

type zzCanaryKeyed struct {
	table *hmap.StringKeyLinkedMap
}

func (this *zzCanaryKeyed) GetValueType() byte      { return 98 }
func (this *zzCanaryKeyed) Write(o *io.DataOutputX) {}
func (this *zzCanaryKeyed) Read(in *io.DataInputX)  {}
func (this *zzCanaryKeyed) ToString() string        { return "" }
func (this *zzCanaryKeyed) Equals(o Value) bool     { return this.CompareTo(o) == 0 }

// walks the receiver's insertion order, never orders the keys of the two operands
func (this *zzCanaryKeyed) CompareTo(o Value) int {
	if o == nil || o.GetValueType() != this.GetValueType() {
		return 1
	}
	that := o.(*zzCanaryKeyed)
	if this.table.Size() != that.table.Size() {
		return this.table.Size() - that.table.Size()
	}
	keys := this.table.Keys()
	for keys.HasMoreElements() {
		key := keys.NextString()
		v1, _ := this.table.Get(key).(Value)
		v2, _ := that.table.Get(key).(Value)
		if v1 == nil || v2 == nil {
			return 1
		}
		if c := v1.CompareTo(v2); c != 0 {
			return c
		}
	}
	return 0
}
`, Expect: []core.CanaryExpect{{Rule: "C20.canon", Sub: "zzCanaryKeyed.CompareTo walk"}, {Rule: "C20.canon", Sub: "zzCanaryKeyed.CompareTo keys"}}}, {RelDir: "lang/value", Name: "c20lock", Src: `package value

import "sync"

type zzCanaryLockedList struct {
	mu    sync.Mutex
	table []int
}

// locks both operands: x.zzEquals(x) never returns
func (this *zzCanaryLockedList) zzEquals(o interface{}) bool {
	that, ok := o.(*zzCanaryLockedList)
	if !ok {
		return false
	}
	this.mu.Lock()
	defer this.mu.Unlock()
	that.mu.Lock()
	defer that.mu.Unlock()
	return len(this.table) == len(that.table)
}
`, Expect: []core.CanaryExpect{{Rule: "C20.reflexive", Sub: "zzCanaryLockedList).zzEquals"}}}}
}

func valueImplementers(p *core.Program) []*types.Named {
	pk := p.Pkg("lang/value")
	if pk == nil {
		return nil
	}
	var iface *types.Interface
	if o := pk.Types.Scope().Lookup("Value"); o != nil {
		iface, _ = o.Type().Underlying().(*types.Interface)
	}
	var out []*types.Named
	names := pk.Types.Scope().Names()
	sort.Strings(names)
	for _, nm := range names {
		tn, ok := pk.Types.Scope().Lookup(nm).(*types.TypeName)
		if !ok {
			continue
		}
		n, ok := tn.Type().(*types.Named)
		if !ok {
			continue
		}
		if _, isI := n.Underlying().(*types.Interface); isI {
			continue
		}
		hasCmp := false
		for _, m := range p.MethodsOf(n) {
			if m.Obj.Name() == "CompareTo" {
				hasCmp = true
			}
		}
		if hasCmp && (iface == nil || types.Implements(types.NewPointer(n), iface) || strings.HasPrefix(nm, "zzCanary")) {
			out = append(out, n)
		}
	}
	return out
}

func runC20(p *core.Program, r *core.Report) {
	r.Explanation = "Totality and lawfulness of Equals/CompareTo of every value type, decided structurally. C20.total: on every path of Equals/CompareTo, each single-result type assertion on the other operand is preceded by the checks that fix its dynamic type (non-nil and equal type code), and results of look-ups in the OTHER container are never asserted without comma-ok (a missing key yields nil). C20.mixed: the mixed-type fallback is a signed difference of the two type codes (a difference of bytes converted afterwards is never negative). C20.same: the same-type branch of every loop-free value type is interpreted over all orderings of its compared fields ({<,=,>}^k): it returns 0 exactly when all fields are equal, reverses sign when the operands are swapped, and Equals is true exactly where CompareTo is 0. C20.helpers: the scalar compare helpers return -1/0/+1 for </=/>, and the slice helpers, interpreted over {nil, empty, one element}^2 x {<,=,>}, return 0 whenever both are empty (a nil payload equals its decoded empty copy), are antisymmetric, and decide elements only through comparisons. C20.canon: the comparison of a keyed container (MapValue, IntMapValue) walks sorted key sequences only and orders the sorted keys of the two operands against each other, so that its sign does not depend on which operand is the receiver or on insertion order (an insertion-order walk with a one-sided missing-key answer returns the same sign in both directions)."
	r.NotDecided = []string{"transitivity for containers", "content comparison inside MapValue/IntMapValue/ListValue loops beyond totality", "float NaN (unordered) cases"}
	r.Rule("C20.total", "type assertions in Equals/CompareTo cannot fail: other operand checked first; look-ups in the other container use comma-ok", 38)
	r.Rule("C20.mixed", "mixed-type comparison is a signed difference of type codes", 18)
	r.Rule("C20.same", "same-type comparison: 0 iff equal, sign reverses on swap, Equals <=> CompareTo == 0 (all orderings)", 14)
	r.Rule("C20.sizes", "container Equals/CompareTo reach their element loop only after the two sizes compared equal (a one-sided walk over the receiver's elements cannot see extra elements on the other side)", 6)
	r.Rule("C20.canon", "comparison of a keyed container walks sorted key sequences and orders the two operands' keys against each other: the result does not depend on which operand is the receiver or on insertion order", 4)
	r.Rule("C20.cache", "what a keyed container remembers for its comparison (a sorted key list) is reset by every method that changes its table", 2)
	r.Rule("C20.reflexive", "comparing a value with itself comes back: no method of a value type holds the non-re-entrant lock of its receiver while taking the same lock of the other operand without an identity test first", 0)
	selfLockRule(p, r, "C20.reflexive", []string{"lang/value"})
	r.Rule("C20.fresh", "every value the factory hands out for decoding is freshly allocated: a decoded value is not overwritten by the next decode (it stays equal to what was encoded)", 20)
	checkFactoryFresh(p, r, "C20.fresh", "lang/value", "CreateValue")
	r.Rule("C20.width", "a payload written without a length and read back with a fixed one has that width wherever it is stored: a value equals its own decoded encoding", 1)
	rawWidthInvariant(p, r, "C20.width", "lang/value")
	r.Rule("C20.helpers", "compare helpers: -1/0/+1; slice helpers 0 when both empty (nil == empty), antisymmetric, comparison-only", 11)

	for _, t := range valueImplementers(p) {
		c20Total(p, r, t)
		c20Mixed(p, r, t)
		c20Same(p, r, t)
		c20Sizes(p, r, t)
		c20Empty(p, r, t)
		c20Canon(p, r, t)
		c20Cache(p, r, t)
	}
	c20Helpers(p, r)
}

// rootOf returns the root identifier of a selector/index/call chain.
func rootOf(e ast.Expr) *ast.Ident {
	for {
		switch v := ast.Unparen(e).(type) {
		case *ast.Ident:
			return v
		case *ast.SelectorExpr:
			e = v.X
		case *ast.IndexExpr:
			e = v.X
		case *ast.CallExpr:
			e = v.Fun
		case *ast.TypeAssertExpr:
			e = v.X
		case *ast.StarExpr:
			e = v.X
		default:
			return nil
		}
	}
}

// passedAsArg: lit is an argument of a call inside n (not the function being called).
func passedAsArg(n ast.Node, lit *ast.FuncLit) bool {
	found := false
	ast.Inspect(n, func(m ast.Node) bool {
		if call, ok := m.(*ast.CallExpr); ok {
			for _, a := range call.Args {
				if ast.Unparen(a) == ast.Expr(lit) {
					found = true
				}
			}
		}
		return true
	})
	return found
}

func c20Total(p *core.Program, r *core.Report, t *types.Named) {
	for _, fi := range p.MethodsOf(t) {
		name := fi.Obj.Name()
		if (name != "Equals" && name != "CompareTo") || fi.Decl.Body == nil {
			continue
		}
		info := fi.Pkg.TypesInfo
		rn := recvName(fi)
		if fi.Decl.Type.Params == nil || len(fi.Decl.Type.Params.List) == 0 {
			continue
		}
		other := fi.Decl.Type.Params.List[0].Names[0].Name
		otherObj := info.Defs[fi.Decl.Type.Params.List[0].Names[0]]
		// locals aliasing the other operand: that := o.(*T)
		aliases := map[types.Object]bool{otherObj: true}
		ast.Inspect(fi.Decl.Body, func(n ast.Node) bool {
			if as, ok := n.(*ast.AssignStmt); ok && len(as.Lhs) >= 1 && len(as.Rhs) == 1 {
				if root := rootOf(as.Rhs[0]); root != nil && aliases[info.ObjectOf(root)] {
					if _, isCall := ast.Unparen(as.Rhs[0]).(*ast.CallExpr); !isCall {
						if id, ok := as.Lhs[0].(*ast.Ident); ok {
							aliases[info.ObjectOf(id)] = true
						}
					}
				}
			}
			return true
		})
		commaOK := map[*ast.TypeAssertExpr]bool{}
		ast.Inspect(fi.Decl.Body, func(n ast.Node) bool {
			if as, ok := n.(*ast.AssignStmt); ok && len(as.Lhs) == 2 && len(as.Rhs) == 1 {
				if ta, ok := ast.Unparen(as.Rhs[0]).(*ast.TypeAssertExpr); ok {
					commaOK[ta] = true
				}
			}
			return true
		})
		norm := func(e ast.Expr) string {
			s := stripSpaces(types.ExprString(e))
			s = strings.ReplaceAll(s, rn+".", "this.")
			return strings.ReplaceAll(s, other+".", "o.")
		}
		// unexported helpers (a `valueOf(key)` accessor, say) are followed with the receiver they are
		// called on, so an assertion on the OTHER map's look-up is seen wherever it is written
		in := newInliner(p, fi, nil)
		ps, over := paths.Enumerate(fi.Decl.Body, paths.Config{Info: info, Inline: in.Body, Expand: in.Expand,
			Cond: func(c ast.Expr, v bool) *paths.Event {
				s := norm(c)
				s = strings.ReplaceAll(s, other+"==nil", "o==nil")
				s = strings.ReplaceAll(s, other+"!=nil", "o!=nil")
				return &paths.Event{Kind: "COND", Arg: fmt.Sprintf("%s=%v", s, v), Pos: c.Pos()}
			},
			Classify: func(n ast.Node) []paths.Event {
				var out []paths.Event
				// (inlined helper bodies are rewritten copies: recognise v, ok := x.(T) on the copy too)
				ast.Inspect(n, func(m ast.Node) bool {
					if as, ok := m.(*ast.AssignStmt); ok && len(as.Lhs) == 2 && len(as.Rhs) == 1 {
						if ta, ok := ast.Unparen(as.Rhs[0]).(*ast.TypeAssertExpr); ok {
							commaOK[ta] = true
						}
					}
					return true
				})
				ast.Inspect(n, func(m ast.Node) bool {
					if lit, isLit := m.(*ast.FuncLit); isLit && passedAsArg(n, lit) {
						return false // a callback handed to a helper runs where the helper calls it, not here
					}
					ta, ok := m.(*ast.TypeAssertExpr)
					if !ok || ta.Type == nil || commaOK[ta] {
						return true
					}
					root := rootOf(ta.X)
					kind := "own"
					if root != nil && aliases[info.ObjectOf(root)] {
						kind = "other"
						if _, isCall := ast.Unparen(ta.X).(*ast.CallExpr); isCall {
							kind = "other-lookup"
						}
					}
					out = append(out, paths.Event{Kind: "ASSERT", Arg: kind, Pos: ta.Pos()})
					return true
				})
				return out
			}})
		c := "lang/value." + t.Obj().Name() + "." + name
		pos := p.Pos(fi.Decl.Pos())
		if over {
			r.Undec("C20.total", c, pos, "too many paths")
			continue
		}
		var probs []string
		nAssert := 0
		for _, pa := range ps {
			if !pa.Consistent() {
				continue
			}
			for i, e := range pa {
				if e.Kind != "ASSERT" {
					continue
				}
				nAssert++
				switch e.Arg {
				case "other-lookup":
					probs = append(probs, "the result of a look-up in the other value's container is asserted without comma-ok at "+p.Pos(e.Pos)+": a key present here but missing there yields nil and the assertion panics")
				case "other":
					typed, nonnil := false, false
					for _, g := range pa[:i] {
						if g.Kind != "COND" {
							continue
						}
						switch g.Arg {
						case "o.GetValueType()==this.GetValueType()=true", "o.GetValueType()!=this.GetValueType()=false", "this.GetValueType()==o.GetValueType()=true", "this.GetValueType()!=o.GetValueType()=false":
							typed = true
						case "o!=nil=true", "o==nil=false":
							nonnil = true
						}
					}
					if !typed || !nonnil {
						probs = append(probs, "the other operand is asserted to the own type at "+p.Pos(e.Pos)+" without first establishing that it is non-nil and has the same type code")
					}
				}
			}
		}
		if len(probs) > 0 {
			r.Viol("C20.total", c, pos, strings.Join(uniq(probs), "; "))
		} else {
			r.OK("C20.total", c, pos, fmt.Sprintf("%d paths, every assertion guarded", len(ps)))
		}
	}
}

func c20Mixed(p *core.Program, r *core.Report, t *types.Named) {
	fi := p.Method("lang/value", t.Obj().Name(), "CompareTo")
	if fi == nil || fi.Decl.Body == nil {
		return
	}
	info := fi.Pkg.TypesInfo
	c := "lang/value." + t.Obj().Name() + ".CompareTo mixed types"
	pos := p.Pos(fi.Decl.Pos())
	var found []string
	okAll := true
	// every return statement of CompareTo, including those of unexported helpers it returns through
	// (compareMixed(this.GetValueType(), o)), with the helper's parameters replaced by the arguments
	var rets []*ast.ReturnStmt
	seenRet := map[string]bool{}
	in := newInliner(p, fi, nil)
	ps, _ := paths.Enumerate(fi.Decl.Body, paths.Config{Info: info, Inline: in.Body, Expand: in.Expand})
	for _, pa := range ps {
		for _, e := range pa {
			if e.Kind == "RET" {
				if rs, ok := e.Node.(*ast.ReturnStmt); ok {
					k := fmt.Sprintf("%d|%s", rs.Pos(), types.ExprString(&ast.CallExpr{Fun: ast.NewIdent("r"), Args: rs.Results}))
					if !seenRet[k] {
						seenRet[k] = true
						rets = append(rets, rs)
					}
				}
			}
		}
	}
	if len(rets) == 0 {
		ast.Inspect(fi.Decl.Body, func(n ast.Node) bool {
			if rs, ok := n.(*ast.ReturnStmt); ok {
				rets = append(rets, rs)
			}
			return true
		})
	}
	for _, rs0 := range rets {
		func(n ast.Node) bool {
			rs, ok := n.(*ast.ReturnStmt)
			if !ok || len(rs.Results) != 1 {
				return true
			}
			s := stripSpaces(types.ExprString(rs.Results[0]))
			if strings.Count(s, "GetValueType()") < 2 {
				return true
			}
			found = append(found, s)
			// locate the subtraction
			var sub *ast.BinaryExpr
			ast.Inspect(rs.Results[0], func(m ast.Node) bool {
				if be, ok := m.(*ast.BinaryExpr); ok && be.Op == token.SUB && sub == nil {
					sub = be
				}
				return true
			})
			if sub == nil {
				okAll = false
				return true
			}
			if b, ok := info.TypeOf(sub).Underlying().(*types.Basic); !ok || b.Info()&types.IsUnsigned != 0 {
				okAll = false
			}
			return true
		}(rs0)
	}
	if len(found) == 0 {
		r.Viol("C20.mixed", c, pos, "no type-code difference for operands of different types: every other type compares the same way (comparison does not reverse sign when swapped)")
		return
	}
	r.Check(okAll, "C20.mixed", c, pos, "signed difference of the type codes", "the type codes are subtracted as unsigned bytes and converted afterwards ("+strings.Join(found, ", ")+"): the result is never negative, so compare(a,b) and compare(b,a) are both positive")
}

func c20Same(p *core.Program, r *core.Report, t *types.Named) {
	cmp := p.Method("lang/value", t.Obj().Name(), "CompareTo")
	eq := p.Method("lang/value", t.Obj().Name(), "Equals")
	if cmp == nil || eq == nil || cmp.Decl.Body == nil || eq.Decl.Body == nil {
		return
	}
	hasLoop := hasLoopDeep(p, cmp, 0) || hasLoopDeep(p, eq, 0)
	c := "lang/value." + t.Obj().Name() + " same-type order"
	pos := p.Pos(cmp.Decl.Pos())
	if hasLoop {
		r.Info("C20.same", c, pos, "container: content comparison loops are outside the finite-domain fragment (totality is decided by C20.total)")
		return
	}
	mk := func(fi *core.FuncInfo) (*ordEval, []string) {
		info := fi.Pkg.TypesInfo
		rn := recvName(fi)
		otherObj := info.Defs[fi.Decl.Type.Params.List[0].Names[0]]
		other := otherObj.Name()
		aliases := map[types.Object]bool{otherObj: true}
		ast.Inspect(fi.Decl.Body, func(n ast.Node) bool {
			if as, ok := n.(*ast.AssignStmt); ok && len(as.Lhs) == 1 && len(as.Rhs) == 1 {
				if ta, ok := ast.Unparen(as.Rhs[0]).(*ast.TypeAssertExpr); ok {
					if root := rootOf(ta.X); root != nil && aliases[info.ObjectOf(root)] {
						if id, ok := as.Lhs[0].(*ast.Ident); ok {
							aliases[info.ObjectOf(id)] = true
						}
					}
				}
			}
			return true
		})
		keys := map[string]bool{}
		side := func(e ast.Expr) (string, string) {
			// a hoisted operand (other := o.(*T).Val) stands for what it was defined as
			if id, ok := ast.Unparen(e).(*ast.Ident); ok {
				if d := expandLocals(info, fi.Decl.Body, id); d != ast.Expr(id) {
					e = d
				}
			}
			e = stripWidening(info, e) // int64(this.Val) orders like this.Val when the conversion only widens
			sel, ok := ast.Unparen(e).(*ast.SelectorExpr)
			if !ok {
				return "", ""
			}
			if _, isField := info.Uses[sel.Sel].(*types.Var); !isField {
				return "", ""
			}
			x := ast.Unparen(sel.X)
			if ta, ok := x.(*ast.TypeAssertExpr); ok {
				x = ast.Unparen(ta.X)
			}
			id, ok := x.(*ast.Ident)
			if !ok {
				return "", ""
			}
			switch {
			case id.Name == rn:
				return "l", sel.Sel.Name
			case aliases[info.ObjectOf(id)]:
				return "r", sel.Sel.Name
			}
			return "", ""
		}
		// a record of compared fields built by a method of the type (this.key() returning
		// keyT{this.Sum, this.Count}): its fields are the fields of the value the method is called on
		recordOf := func(x ast.Expr) *ordRecord {
			call, ok := ast.Unparen(x).(*ast.CallExpr)
			if !ok || len(call.Args) != 0 {
				return nil
			}
			sel, ok := ast.Unparen(call.Fun).(*ast.SelectorExpr)
			if !ok {
				return nil
			}
			fn, _ := info.Uses[sel.Sel].(*types.Func)
			if fn == nil {
				return nil
			}
			cf := p.FuncOf(fn)
			if cf == nil || cf.Decl.Body == nil || len(cf.Decl.Body.List) != 1 || cf.Decl.Recv == nil || len(cf.Decl.Recv.List) == 0 || len(cf.Decl.Recv.List[0].Names) == 0 {
				return nil
			}
			rs, ok := cf.Decl.Body.List[0].(*ast.ReturnStmt)
			if !ok || len(rs.Results) != 1 {
				return nil
			}
			lit, ok := ast.Unparen(rs.Results[0]).(*ast.CompositeLit)
			if !ok {
				return nil
			}
			st, ok := cf.Pkg.TypesInfo.TypeOf(lit).Underlying().(*types.Struct)
			if !ok || len(lit.Elts) != st.NumFields() {
				return nil
			}
			crecv := cf.Pkg.TypesInfo.Defs[cf.Decl.Recv.List[0].Names[0]]
			rec := &ordRecord{exprs: map[string]ast.Expr{}}
			for i, el := range lit.Elts {
				name := st.Field(i).Name()
				val := el
				if kv, ok := el.(*ast.KeyValueExpr); ok {
					kid, ok := kv.Key.(*ast.Ident)
					if !ok {
						return nil
					}
					name, val = kid.Name, kv.Value
				}
				fs, ok := ast.Unparen(val).(*ast.SelectorExpr)
				if !ok {
					return nil
				}
				rid, ok := ast.Unparen(fs.X).(*ast.Ident)
				if !ok || cf.Pkg.TypesInfo.ObjectOf(rid) != crecv {
					return nil
				}
				rec.names = append(rec.names, name)
				rec.exprs[name] = &ast.SelectorExpr{X: sel.X, Sel: fs.Sel}
			}
			return rec
		}
		ast.Inspect(fi.Decl.Body, func(n ast.Node) bool {
			if e, ok := n.(ast.Expr); ok {
				if s, k := side(e); s != "" {
					keys[k] = true
				}
				if rec := recordOf(e); rec != nil {
					for _, fx := range rec.exprs {
						if s, k := side(fx); s != "" {
							keys[k] = true
						}
					}
				}
			}
			return true
		})
		var ks []string
		for k := range keys {
			ks = append(ks, k)
		}
		sort.Strings(ks)
		ev := &ordEval{info: info, side: side, ints: map[types.Object]int64{}, bools: map[string]bool{}, inl: newInliner(p, fi, nil), recordOf: recordOf}
		for _, v := range []string{other + "!=nil", other + "==nil"} {
			ev.bools[v] = v == other+"!=nil"
		}
		for _, v := range []string{other + ".GetValueType()==" + rn + ".GetValueType()", rn + ".GetValueType()==" + other + ".GetValueType()"} {
			ev.bools[v] = true
		}
		for _, v := range []string{other + ".GetValueType()!=" + rn + ".GetValueType()", rn + ".GetValueType()!=" + other + ".GetValueType()"} {
			ev.bools[v] = false
		}
		return ev, ks
	}
	evC, keysC := mk(cmp)
	evE, keysE := mk(eq)
	keys := uniq(append(append([]string{}, keysC...), keysE...))
	if len(keys) == 0 {
		// no compared field (NullValue): same type => equal
		keys = nil
	}
	if len(keys) > 4 {
		r.Undec("C20.same", c, pos, "more than four compared fields")
		return
	}
	// enumerate orderings
	n := 1
	for range keys {
		n *= 3
	}
	results := map[string]int{}
	var probs []string
	evals := 0
	assign := func(idx int) map[string]int {
		m := map[string]int{}
		for _, k := range keys {
			m[k] = idx%3 - 1
			idx /= 3
		}
		return m
	}
	keyOf := func(m map[string]int) string {
		s := ""
		for _, k := range keys {
			s += k + sgn(m[k]) + " "
		}
		return strings.TrimSpace(s)
	}
	for idx := 0; idx < n; idx++ {
		w := assign(idx)
		evC.ord, evC.err, evC.steps = w, "", 0
		evC.ints = map[types.Object]int64{}
		res, ret := evC.run(cmp.Decl.Body.List)
		evals++
		if evC.err != "" || !ret || res.isBool {
			probs = append(probs, "CompareTo outside the comparison-only fragment: "+evC.err)
			break
		}
		results[keyOf(w)] = sign64(res.n)
		allEq := true
		for _, k := range keys {
			if w[k] != 0 {
				allEq = false
			}
		}
		if allEq && res.n != 0 {
			probs = append(probs, "equal values compare as "+fmt.Sprint(res.n))
		}
		if !allEq && res.n == 0 {
			probs = append(probs, "values differing in ["+keyOf(w)+"] compare as 0")
		}
		evE.ord, evE.err, evE.steps = w, "", 0
		evE.ints = map[types.Object]int64{}
		er, eret := evE.run(eq.Decl.Body.List)
		evals++
		if evE.err != "" || !eret || !er.isBool {
			probs = append(probs, "Equals outside the comparison-only fragment: "+evE.err)
			break
		}
		if er.b != allEq {
			probs = append(probs, fmt.Sprintf("Equals is %v for [%s]", er.b, keyOf(w)))
		}
		if er.b != (res.n == 0) {
			probs = append(probs, fmt.Sprintf("Equals (%v) disagrees with CompareTo (%d) for [%s]", er.b, res.n, keyOf(w)))
		}
	}
	// antisymmetry: result(w) == -result(-w)
	for idx := 0; idx < n && len(results) == n; idx++ {
		w := assign(idx)
		nw := map[string]int{}
		for k, v := range w {
			nw[k] = -v
		}
		if results[keyOf(w)] != -results[keyOf(nw)] {
			probs = append(probs, fmt.Sprintf("compare(a,b)=%+d for [%s] but compare(b,a)=%+d: sign does not reverse on swap", results[keyOf(w)], keyOf(w), results[keyOf(nw)]))
		}
	}
	r.Stats["ordering_evaluations"] += evals
	if len(probs) > 0 {
		r.Viol("C20.same", c, pos, strings.Join(uniq(probs), "; "))
	} else {
		r.OK("C20.same", c, pos, fmt.Sprintf("%d orderings of %v", n, keys))
	}
}

func c20Helpers(p *core.Program, r *core.Report) {
	pk := p.Pkg("util/compare")
	if pk == nil {
		r.Undec("C20.helpers", "util/compare", "-", "package not found")
		return
	}
	for _, fi := range p.Funcs {
		if fi.Pkg != pk || fi.Decl.Body == nil || !strings.HasPrefix(fi.Obj.Name(), "CompareTo") {
			continue
		}
		info := fi.Pkg.TypesInfo
		params := fi.Decl.Type.Params.List
		var names []string
		for _, f := range params {
			for _, n := range f.Names {
				names = append(names, n.Name)
			}
		}
		if len(names) != 2 {
			continue
		}
		lobj, robj := info.Defs[paramIdent(fi, 0)], info.Defs[paramIdent(fi, 1)]
		_, isSlice := lobj.Type().Underlying().(*types.Slice)
		side := func(e ast.Expr) (string, string) {
			e = ast.Unparen(e)
			key := "v"
			if ix, ok := e.(*ast.IndexExpr); ok {
				e = ast.Unparen(ix.X)
				key = "elem"
			} else if isSlice {
				key = "slice"
			}
			id, ok := e.(*ast.Ident)
			if !ok {
				return "", ""
			}
			switch info.ObjectOf(id) {
			case lobj:
				return "l", key
			case robj:
				return "r", key
			}
			return "", ""
		}
		c := "util/compare." + fi.Obj.Name()
		pos := p.Pos(fi.Decl.Pos())
		var probs []string
		evals := 0
		// unexported helpers of the package (a shared nil/empty prelude, say) are interpreted too
		callee := func(call *ast.CallExpr) ([]types.Object, *ast.BlockStmt) {
			id, ok := ast.Unparen(call.Fun).(*ast.Ident)
			if !ok {
				return nil, nil
			}
			fnObj, _ := info.Uses[id].(*types.Func)
			if fnObj == nil || fnObj.Exported() {
				return nil, nil
			}
			cfi := p.FuncOf(fnObj)
			if cfi == nil || cfi.Decl.Body == nil || cfi.Pkg != fi.Pkg {
				return nil, nil
			}
			var ps []types.Object
			for _, f := range cfi.Decl.Type.Params.List {
				for _, n := range f.Names {
					ps = append(ps, info.Defs[n])
				}
			}
			return ps, cfi.Decl.Body
		}
		if !isSlice {
			for _, w := range []int{-1, 0, 1} {
				ev := &ordEval{info: info, side: side, ord: map[string]int{"v": w}, ints: map[types.Object]int64{}, bools: map[string]bool{}, callee: callee}
				res, ret := ev.run(fi.Decl.Body.List)
				evals++
				if ev.err != "" || !ret {
					probs = append(probs, "outside the comparison-only fragment: "+ev.err)
					break
				}
				if sign64(res.n) != w {
					probs = append(probs, fmt.Sprintf("l %s r yields %d", sgn(w), res.n))
				}
			}
		} else {
			type shape struct {
				name string
				s    absSlice
			}
			shapes := []shape{{"nil", absSlice{true, 0}}, {"empty", absSlice{false, 0}}, {"one", absSlice{false, 1}}}
			res := map[string]int{}
			bad := false
			for _, ls := range shapes {
				for _, rs := range shapes {
					for _, w := range []int{-1, 0, 1} {
						if (ls.s.n == 0 || rs.s.n == 0) && w != 0 {
							continue
						}
						ev := &ordEval{info: info, side: side, ord: map[string]int{"elem": w, "slice": 0}, ints: map[types.Object]int64{}, bools: map[string]bool{},
							slices: map[string]absSlice{"l:slice": ls.s, "r:slice": rs.s}, callee: callee}
						out, ret := ev.run(fi.Decl.Body.List)
						evals++
						if ev.err != "" || !ret {
							probs = append(probs, "outside the comparison-only fragment: "+ev.err)
							bad = true
							break
						}
						res[fmt.Sprintf("%s|%s|%d", ls.name, rs.name, w)] = sign64(out.n)
						if ls.s.n == 0 && rs.s.n == 0 && out.n != 0 {
							probs = append(probs, fmt.Sprintf("%s vs %s compares as %d although both are empty: a nil payload differs from its decoded (empty) copy", ls.name, rs.name, out.n))
						}
						if ls.s.n == 1 && rs.s.n == 1 && sign64(out.n) != w {
							probs = append(probs, fmt.Sprintf("single elements with l %s r compare as %d", sgn(w), out.n))
						}
					}
					if bad {
						break
					}
				}
				if bad {
					break
				}
			}
			if !bad {
				for k, v := range res {
					var a, b string
					var w int
					parts := strings.Split(k, "|")
					a, b = parts[0], parts[1]
					fmt.Sscanf(parts[2], "%d", &w)
					if o, ok := res[fmt.Sprintf("%s|%s|%d", b, a, -w)]; ok && o != -v {
						probs = append(probs, fmt.Sprintf("compare(%s,%s)=%+d but compare(%s,%s)=%+d", a, b, v, b, a, o))
					}
				}
			}
		}
		r.Stats["ordering_evaluations"] += evals
		if len(probs) > 0 {
			r.Viol("C20.helpers", c, pos, strings.Join(uniq(probs), "; "))
		} else {
			r.OK("C20.helpers", c, pos, fmt.Sprintf("%d abstract evaluations", evals))
		}
	}
}

func paramIdent(fi *core.FuncInfo, i int) *ast.Ident {
	k := 0
	for _, f := range fi.Decl.Type.Params.List {
		for _, n := range f.Names {
			if k == i {
				return n
			}
			k++
		}
	}
	return nil
}

var c20SizeName = regexp.MustCompile(`(?i)^(size|len|length|count)$`)

// c20Sizes: the element loop of a container's Equals/CompareTo walks the receiver's elements only, so
// "equal" is a sound verdict only when both sizes were compared equal before the loop is reached.
func c20Sizes(p *core.Program, r *core.Report, t *types.Named) {
	for _, fi := range p.MethodsOf(t) {
		name := fi.Obj.Name()
		if (name != "Equals" && name != "CompareTo") || fi.Decl.Body == nil {
			continue
		}
		if fi.Decl.Type.Params == nil || len(fi.Decl.Type.Params.List) == 0 || len(fi.Decl.Type.Params.List[0].Names) == 0 {
			continue
		}
		if !hasLoopDeep(p, fi, 0) {
			continue
		}
		info := fi.Pkg.TypesInfo
		var recv types.Object
		if fi.Decl.Recv != nil && len(fi.Decl.Recv.List) > 0 && len(fi.Decl.Recv.List[0].Names) > 0 {
			recv = info.Defs[fi.Decl.Recv.List[0].Names[0]]
		}
		otherObj := info.Defs[fi.Decl.Type.Params.List[0].Names[0]]
		aliases := map[types.Object]bool{otherObj: true}
		ast.Inspect(fi.Decl.Body, func(n ast.Node) bool {
			if as, ok := n.(*ast.AssignStmt); ok && len(as.Lhs) >= 1 && len(as.Rhs) == 1 {
				if root := rootOf(as.Rhs[0]); root != nil && aliases[info.ObjectOf(root)] {
					if _, isCall := ast.Unparen(as.Rhs[0]).(*ast.CallExpr); !isCall {
						if id, ok := as.Lhs[0].(*ast.Ident); ok {
							aliases[info.ObjectOf(id)] = true
						}
					}
				}
			}
			return true
		})
		// side: 1 = a size of the receiver, 2 = a size of the other operand, 0 = neither
		side := func(e ast.Expr) int {
			e = stripConvs(info, expandLocals(info, fi.Decl.Body, e))
			call, ok := ast.Unparen(e).(*ast.CallExpr)
			if !ok {
				return 0
			}
			var of ast.Expr
			if id, ok := call.Fun.(*ast.Ident); ok && id.Name == "len" && len(call.Args) == 1 {
				of = call.Args[0]
			} else if sel, ok := call.Fun.(*ast.SelectorExpr); ok && len(call.Args) == 0 && c20SizeName.MatchString(sel.Sel.Name) {
				of = sel.X
			}
			if of == nil {
				return 0
			}
			root := rootOf(of)
			if root == nil {
				return 0
			}
			switch o := info.ObjectOf(root); {
			case o == recv && recv != nil:
				return 1
			case aliases[o]:
				return 2
			}
			return 0
		}
		// a walk over the OTHER operand's elements as well (a two-sided comparison) needs no size test
		twoSided := false
		// locals holding an enumeration (or a collected sequence) of the other operand's elements
		otherSeq := map[types.Object]bool{}
		ast.Inspect(fi.Decl.Body, func(n ast.Node) bool {
			as, ok := n.(*ast.AssignStmt)
			if !ok || len(as.Lhs) != len(as.Rhs) {
				return true
			}
			for i, rhs := range as.Rhs {
				v, ok := ast.Unparen(rhs).(*ast.CallExpr)
				if !ok {
					continue
				}
				if sel, ok := v.Fun.(*ast.SelectorExpr); ok && len(v.Args) == 0 {
					if root := rootOf(sel.X); root != nil && aliases[info.ObjectOf(root)] {
						if rt := info.TypeOf(v); rt != nil && !isBasicType(rt) && !c20SizeName.MatchString(sel.Sel.Name) && sel.Sel.Name != "GetValueType" {
							if id, ok := as.Lhs[i].(*ast.Ident); ok {
								if o := info.ObjectOf(id); o != nil {
									otherSeq[o] = true // that.Keys(), that.table.Entries(), that.sortedKeys()
								}
							}
						}
					}
				}
			}
			return true
		})
		isOtherSeq := func(e ast.Expr) bool {
			root := rootOf(e)
			if root == nil {
				return false
			}
			o := info.ObjectOf(root)
			return aliases[o] || otherSeq[o]
		}
		ast.Inspect(fi.Decl.Body, func(n ast.Node) bool {
			switch v := n.(type) {
			case *ast.RangeStmt:
				// a loop that runs over all of the other operand's elements
				if isOtherSeq(v.X) {
					twoSided = true
				}
				if call, ok := ast.Unparen(v.X).(*ast.CallExpr); ok {
					if sel, ok := call.Fun.(*ast.SelectorExpr); ok && isOtherSeq(sel.X) {
						twoSided = true
					}
				}
			case *ast.ForStmt:
				// for en.HasMoreElements() { … } with en an enumeration of the other operand
				if call, ok := ast.Unparen(v.Cond).(*ast.CallExpr); ok && v.Cond != nil {
					if sel, ok := call.Fun.(*ast.SelectorExpr); ok && len(call.Args) == 0 {
						if id, ok := sel.X.(*ast.Ident); ok && otherSeq[info.ObjectOf(id)] {
							twoSided = true
						}
					}
				}
			}
			return true
		})
		if twoSided {
			r.Info("C20.sizes", "lang/value."+t.Obj().Name()+"."+name, p.Pos(fi.Decl.Pos()), "the other operand's elements are enumerated too: a two-sided walk, not judged by the size rule")
			continue
		}
		in := newInliner(p, fi, nil)
		ps, over := paths.Enumerate(fi.Decl.Body, paths.Config{Info: info, Expand: in.Expand, Inline: in.Body,
			Cond: func(c ast.Expr, v bool) *paths.Event {
				arg := ""
				if be, ok := ast.Unparen(c).(*ast.BinaryExpr); ok {
					// d := own - other; d != 0  is the comparison own != other
					if tv, ok := info.Types[be.Y]; ok && tv.Value != nil && tv.Value.String() == "0" {
						if sub, ok := ast.Unparen(stripConvs(info, expandLocals(info, fi.Decl.Body, be.X))).(*ast.BinaryExpr); ok && sub.Op == token.SUB {
							be = &ast.BinaryExpr{X: sub.X, Op: be.Op, Y: sub.Y}
						}
					}
					l, rr := side(be.X), side(be.Y)
					op := be.Op
					if l == 2 && rr == 1 {
						l, rr = 1, 2
						switch op {
						case token.LSS:
							op = token.GTR
						case token.GTR:
							op = token.LSS
						case token.LEQ:
							op = token.GEQ
						case token.GEQ:
							op = token.LEQ
						}
					}
					if l == 1 && rr == 2 {
						// the orderings of (own size, other size) this outcome leaves possible
						set := map[token.Token]string{token.EQL: "=", token.NEQ: "<>", token.LSS: "<", token.GTR: ">", token.LEQ: "<=", token.GEQ: "=>"}[op]
						if !v {
							set = map[string]string{"=": "<>", "<>": "=", "<": "=>", ">": "<=", "<=": ">", "=>": "<"}[set]
						}
						arg = set
					}
				}
				if arg == "" {
					return nil
				}
				return &paths.Event{Kind: "SIZES", Arg: arg, Pos: c.Pos()}
			}})
		c := "lang/value." + t.Obj().Name() + "." + name
		pos := p.Pos(fi.Decl.Pos())
		if over {
			r.Undec("C20.sizes", c, pos, "too many paths")
			continue
		}
		bad := ""
		n := 0
		for _, pa := range ps {
			poss := "<=>"
			for _, e := range pa {
				if e.Kind == "SIZES" {
					keep := ""
					for _, ch := range poss {
						if strings.ContainsRune(e.Arg, ch) {
							keep += string(ch)
						}
					}
					poss = keep
				}
				if e.Kind == "LOOP" {
					n++
					if poss != "=" {
						bad = p.Pos(e.Pos)
					}
					break
				}
			}
		}
		if n == 0 {
			continue
		}
		r.Check(bad == "", "C20.sizes", c, pos, fmt.Sprintf("%d path(s) reach the element loop, each after the sizes compared equal", n),
			"the element loop at "+bad+" is reached on a path that has not established equal sizes: it walks the receiver's elements only, so a value compares equal to any value that contains it (equality is not symmetric, Equals disagrees with CompareTo == 0)")
	}
}

func isBasicType(t types.Type) bool {
	_, ok := t.Underlying().(*types.Basic)
	return ok
}

// hasLoopDeep: the function, or an unexported helper of its package that it calls (depth 3), contains a loop.
func hasLoopDeep(p *core.Program, fi *core.FuncInfo, depth int) bool {
	found := false
	info := fi.Pkg.TypesInfo
	ast.Inspect(fi.Decl.Body, func(n ast.Node) bool {
		switch v := n.(type) {
		case *ast.ForStmt, *ast.RangeStmt:
			found = true
		case *ast.CallExpr:
			if depth >= 3 || found {
				return true
			}
			var id *ast.Ident
			switch f := ast.Unparen(v.Fun).(type) {
			case *ast.Ident:
				id = f
			case *ast.SelectorExpr:
				id = f.Sel
			}
			if id == nil {
				return true
			}
			if fn, _ := info.Uses[id].(*types.Func); fn != nil && !fn.Exported() && fn.Pkg() == fi.Obj.Pkg() {
				if cfi := p.FuncOf(fn); cfi != nil && cfi != fi && cfi.Decl.Body != nil && hasLoopDeep(p, cfi, depth+1) {
					found = true
				}
			}
		}
		return true
	})
	return found
}

// stripWidening removes integer conversions that keep the order of all values: to a type at least as
// wide with the same signedness, or from unsigned to a strictly wider signed type. A narrowing or
// sign-changing conversion is kept (it changes the order).
func stripWidening(info *types.Info, e ast.Expr) ast.Expr {
	for {
		e = ast.Unparen(e)
		call, ok := e.(*ast.CallExpr)
		if !ok || len(call.Args) != 1 {
			return e
		}
		tv, ok := info.Types[call.Fun]
		if !ok || !tv.IsType() {
			return e
		}
		dst, ok1 := tv.Type.Underlying().(*types.Basic)
		src, ok2 := info.TypeOf(call.Args[0]).Underlying().(*types.Basic)
		if ok1 && ok2 && dst.Info()&types.IsFloat != 0 && src.Info()&types.IsFloat != 0 {
			// float32 -> float64 is exact and keeps the order; the other way round rounds
			if dst.Kind() == types.Float64 || dst.Kind() == src.Kind() {
				e = call.Args[0]
				continue
			}
			return e
		}
		if !ok1 || !ok2 || dst.Info()&types.IsInteger == 0 || src.Info()&types.IsInteger == 0 {
			return e
		}
		dw, sw := typeBits(dst), typeBits(src)
		du, su := dst.Info()&types.IsUnsigned != 0, src.Info()&types.IsUnsigned != 0
		switch {
		case du == su && dw >= sw:
		case su && !du && dw > sw:
		default:
			return e
		}
		e = call.Args[0]
	}
}

// c20Empty: a container without elements equals a container of its type without elements (itself,
// another empty one, its own decoded encoding). Equals is walked with both sizes taken as zero, the
// other operand taken as non-nil and of the receiver's type: every way out that returns a literal
// must return true (for CompareTo: 0). Conditions that mention neither size are left open.
func c20Empty(p *core.Program, r *core.Report, t *types.Named) {
	for _, fi := range p.MethodsOf(t) {
		name := fi.Obj.Name()
		if (name != "Equals" && name != "CompareTo") || fi.Decl.Body == nil {
			continue
		}
		if fi.Decl.Type.Params == nil || len(fi.Decl.Type.Params.List) == 0 || len(fi.Decl.Type.Params.List[0].Names) == 0 {
			continue
		}
		if !hasLoopDeep(p, fi, 0) {
			continue
		}
		info := fi.Pkg.TypesInfo
		other := fi.Decl.Type.Params.List[0].Names[0].Name
		isSize := func(e ast.Expr) bool {
			e = stripConvs(info, expandLocals(info, fi.Decl.Body, e))
			call, ok := ast.Unparen(e).(*ast.CallExpr)
			if !ok {
				return false
			}
			if id, ok := call.Fun.(*ast.Ident); ok && id.Name == "len" && len(call.Args) == 1 {
				return true
			}
			if sel, ok := call.Fun.(*ast.SelectorExpr); ok && len(call.Args) == 0 && c20SizeName.MatchString(sel.Sel.Name) {
				return true
			}
			return false
		}
		in := newInliner(p, fi, nil)
		ps, over := paths.Enumerate(fi.Decl.Body, paths.Config{Info: info, Expand: in.Expand, Inline: in.Body,
			Fold: func(c ast.Expr) (bool, bool) {
				s := stripSpaces(types.ExprString(c))
				switch s {
				case other + "==nil":
					return true, false
				case other + "!=nil":
					return true, true
				}
				if strings.Contains(s, "GetValueType()") && strings.Contains(s, other+".") {
					if strings.Contains(s, "!=") {
						return true, false
					}
					if strings.Contains(s, "==") {
						return true, true
					}
				}
				be, ok := ast.Unparen(c).(*ast.BinaryExpr)
				if !ok {
					return false, false
				}
				val := func(e ast.Expr) (int64, bool) {
					if isSize(e) {
						return 0, true
					}
					return constIntOf(info, e)
				}
				a, oka := val(be.X)
				b, okb := val(be.Y)
				if oka && okb {
					switch be.Op {
					case token.EQL:
						return true, a == b
					case token.NEQ:
						return true, a != b
					case token.LSS:
						return true, a < b
					case token.LEQ:
						return true, a <= b
					case token.GTR:
						return true, a > b
					case token.GEQ:
						return true, a >= b
					}
				}
				// a counter that starts at zero is not below a size of zero
				if be.Op == token.LSS && isSize(be.Y) {
					return true, false
				}
				if be.Op == token.GTR && isSize(be.X) {
					return true, false
				}
				return false, false
			},
			Classify: func(n ast.Node) []paths.Event {
				var out []paths.Event
				if rs, ok := n.(*ast.ReturnStmt); ok && len(rs.Results) == 1 {
					arg := "?"
					if tv, ok := info.Types[rs.Results[0]]; ok && tv.Value != nil {
						arg = tv.Value.ExactString()
					}
					out = append(out, paths.Event{Kind: "RETLIT", Arg: arg, Pos: rs.Pos()})
				}
				return out
			}})
		if over {
			continue
		}
		want := "true"
		if name == "CompareTo" {
			want = "0"
		}
		bad := ""
		n := 0
		for _, pa := range ps {
			if pa.Has("PANIC") || pa.Has("CUT") {
				continue
			}
			last := ""
			inLoop := false
			for _, e := range pa {
				switch e.Kind {
				case "LOOP":
					inLoop = true
				case "ENDLOOP":
					inLoop = false
				case "RETLIT":
					last = e.Arg
					if inLoop {
						last = "?" // a way out from inside a loop body needs an element to be there
					}
				}
			}
			if last == "" || last == "?" {
				continue
			}
			n++
			if last != want {
				bad = "with both containers empty a path returns " + last + " (" + pa.String() + "): an empty " + t.Obj().Name() + " does not equal an empty " + t.Obj().Name() + " (itself, or its own decoded encoding)"
			}
		}
		if n > 0 {
			r.Check(bad == "", "C20.sizes", "lang/value."+t.Obj().Name()+"."+name+" empty", p.Pos(fi.Decl.Pos()), "two empty containers compare equal", bad)
		}
	}
}
