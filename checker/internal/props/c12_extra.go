package props

import (
	"go/ast"
	"go/token"
	"go/types"
	"strings"

	"golibcheck/internal/core"
	"golibcheck/internal/wire"
)

func c12Serial(p *core.Program, r *core.Report) {
	x := wire.NewExtractor(p)
	pairs, _ := discoverPairs(p, x, []string{"util/hmap"})
	var sel []codecPair
	for _, cp := range pairs {
		if n := core.RecvNamed(cp.W.Obj); n != nil && n.Obj().Name() == "IntIntMap" {
			sel = append(sel, cp)
		}
	}
	if len(sel) == 0 {
		r.Undec("C12.serial", "util/hmap.IntIntMap ToBytes~ToObject", "-", "pair not found")
		return
	}
	runPairs(p, x, r, sel, pairRules{"C12.serial", "", ""}, 4)
}

// c12EnumWalk: the table enumerators of the plain maps (index starts at len(table), pre-decrement,
// stop at 0) visit every bucket: constructor must start at len(table); the advance loop must be
// `for index > 0 { index--; entry = table[index] ... }`-shaped (index used after the decrement).
func c12EnumWalk(p *core.Program, r *core.Report) {
	pk := p.Pkg("util/hmap")
	if pk == nil {
		return
	}
	// every construction of a table enumerator in the four plain types
	for _, tn := range c12Types {
		t := hmapNamed(p, tn)
		if t == nil {
			continue
		}
		for _, fi := range p.MethodsOf(t) {
			if fi.Decl.Body == nil {
				continue
			}
			switch fi.Obj.Name() {
			case "Keys", "Values", "Entries":
			default:
				continue
			}
			info := fi.Pkg.TypesInfo
			rn := recvName(fi)
			ast.Inspect(fi.Decl.Body, func(n ast.Node) bool {
				var idxArg ast.Expr
				var tabArg ast.Expr
				what := ""
				switch v := n.(type) {
				case *ast.CallExpr:
					id, ok := v.Fun.(*ast.Ident)
					if !ok || !strings.HasPrefix(id.Name, "New") || !strings.Contains(id.Name, "Enumer") {
						return true
					}
					what = id.Name
					for _, a := range v.Args {
						at := info.TypeOf(a)
						if _, isSlice := at.Underlying().(*types.Slice); isSlice {
							tabArg = a
						} else if b, ok := at.Underlying().(*types.Basic); ok && b.Kind() == types.Int && info.Types[a].Value == nil {
							idxArg = a
						}
					}
					// the constructor body decides the start index when no index argument is passed
					if idxArg == nil {
						if cfi := p.Func("util/hmap", id.Name); cfi != nil {
							ast.Inspect(cfi.Decl.Body, func(m ast.Node) bool {
								if as, ok := m.(*ast.AssignStmt); ok && len(as.Lhs) == 1 {
									if sel, ok := as.Lhs[0].(*ast.SelectorExpr); ok && sel.Sel.Name == "index" {
										idxArg = as.Rhs[0]
									}
								}
								return true
							})
						}
					}
				case *ast.CompositeLit:
					tv, ok := info.Types[v]
					if !ok {
						return true
					}
					nn := namedOf(tv.Type)
					if nn == nil || !strings.Contains(nn.Obj().Name(), "Enumer") {
						return true
					}
					what = nn.Obj().Name()
					for _, el := range v.Elts {
						if kv, ok := el.(*ast.KeyValueExpr); ok {
							switch types.ExprString(kv.Key) {
							case "index":
								idxArg = kv.Value
							case "table":
								tabArg = kv.Value
							}
						}
					}
				default:
					return true
				}
				c := "util/hmap." + tn + "." + fi.Obj.Name() + " -> " + what
				pos := p.Pos(n.Pos())
				if idxArg == nil {
					r.Info("C12.enumer", c, pos, "start index not visible at the construction site")
					return true
				}
				s := stripSpaces(types.ExprString(idxArg))
				s = strings.ReplaceAll(s, rn+".", "")
				ok := s == "len(table)" || s == "len(tab)" || s == "len(p.table)" || s == "len(table))" || strings.HasPrefix(s, "len(")
				if strings.Contains(s, "-1") {
					ok = false
				}
				_ = tabArg
				r.Check(ok, "C12.enumer", c, pos, "enumeration starts at len(table) (pre-decrement walk visits len-1..0)",
					"enumerator starts at `"+s+"` but advances with a pre-decrement: the highest bucket is never visited")
				return true
			})
		}
	}
	// the advance loops: `for ... this.index > 0 { this.index--; this.entry = this.table[this.index] }`
	for _, fi := range p.Funcs {
		if fi.Pkg != pk || fi.Decl.Body == nil {
			continue
		}
		n := core.RecvNamed(fi.Obj)
		if n == nil || !strings.Contains(n.Obj().Name(), "Enumer") || !structHasField(n, "index") || !structHasField(n, "table") {
			continue
		}
		rn := recvName(fi)
		ast.Inspect(fi.Decl.Body, func(m ast.Node) bool {
			loop, ok := m.(*ast.ForStmt)
			if !ok || loop.Cond == nil {
				return true
			}
			cs := strings.ReplaceAll(stripSpaces(types.ExprString(loop.Cond)), rn+".", "")
			if !strings.Contains(cs, "index>") {
				return true
			}
			// order of decrement and use inside the body
			decPos, usePos := token.NoPos, token.NoPos
			ast.Inspect(loop.Body, func(k ast.Node) bool {
				switch v := k.(type) {
				case *ast.IncDecStmt:
					if strings.HasSuffix(types.ExprString(v.X), "index") && v.Tok == token.DEC && decPos == token.NoPos {
						decPos = v.Pos()
					}
				case *ast.IndexExpr:
					if strings.HasSuffix(types.ExprString(v.Index), "index") && usePos == token.NoPos {
						usePos = v.Pos()
					}
				}
				return true
			})
			c := core.FuncName(fi.Obj) + " advance"
			good := strings.Contains(cs, "index>0") && decPos != token.NoPos && usePos != token.NoPos && decPos < usePos
			r.Check(good, "C12.walks", c, p.Pos(loop.Pos()), "while index > 0 { index--; use table[index] }", "bucket advance is not `index > 0` with decrement before use ("+cs+"): a bucket is skipped or index -1 is read")
			return false
		})
	}
}
