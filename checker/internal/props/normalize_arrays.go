package props

import (
	"fmt"
	"go/ast"
	"go/constant"
	"go/token"
	"go/types"

	"golibcheck/internal/core"
)

// normalizeLocalArrays: a local array of fixed, small length that is only filled slot by slot in one
// `for i := range a { a[i] = <expr without i> }` loop and read as a[<constant>] afterwards is N
// scalar locals in disguise. The loop is replaced by N assignments a_0 := <expr>, …, a_{N-1} := <expr>
// and every a[k] by a_k, so that the engines, which follow values through locals, see which read each
// later use stands for (`ver := int32(body[2])` is the third value read). Arrays used in any other
// way (passed on, sliced, indexed by a variable elsewhere, assigned as a whole) are left alone.
func normalizeLocalArrays(p *core.Program) {
	for _, fi := range p.Funcs {
		if fi.Decl.Body == nil {
			continue
		}
		info := fi.Pkg.TypesInfo
		// candidates: var a [N]T
		type cand struct {
			obj  types.Object
			n    int64
			elem types.Type
		}
		var cands []cand
		ast.Inspect(fi.Decl.Body, func(n ast.Node) bool {
			ds, ok := n.(*ast.DeclStmt)
			if !ok {
				return true
			}
			gd, ok := ds.Decl.(*ast.GenDecl)
			if !ok || gd.Tok != token.VAR {
				return true
			}
			for _, sp := range gd.Specs {
				vs := sp.(*ast.ValueSpec)
				if len(vs.Values) != 0 {
					continue
				}
				for _, nm := range vs.Names {
					o := info.Defs[nm]
					if o == nil {
						continue
					}
					at, ok := o.Type().Underlying().(*types.Array)
					if !ok || at.Len() < 1 || at.Len() > 32 {
						continue
					}
					if _, isBasic := at.Elem().Underlying().(*types.Basic); !isBasic {
						continue
					}
					cands = append(cands, cand{o, at.Len(), at.Elem()})
				}
			}
			return true
		})
		for _, c := range cands {
			// every use: the fill loop (once), or a[const]
			var fill *ast.RangeStmt
			ok := true
			inFill := map[*ast.Ident]bool{}
			ast.Inspect(fi.Decl.Body, func(n ast.Node) bool {
				rs, isRange := n.(*ast.RangeStmt)
				if !isRange {
					return true
				}
				xid, isId := ast.Unparen(rs.X).(*ast.Ident)
				if !isId || info.ObjectOf(xid) != c.obj {
					return true
				}
				kid, _ := rs.Key.(*ast.Ident)
				if fill != nil || rs.Value != nil || kid == nil || len(rs.Body.List) != 1 {
					ok = false
					return true
				}
				as, isAs := rs.Body.List[0].(*ast.AssignStmt)
				if !isAs || len(as.Lhs) != 1 || len(as.Rhs) != 1 || as.Tok != token.ASSIGN {
					ok = false
					return true
				}
				ix, isIx := ast.Unparen(as.Lhs[0]).(*ast.IndexExpr)
				if !isIx {
					ok = false
					return true
				}
				aid, _ := ast.Unparen(ix.X).(*ast.Ident)
				iid, _ := ast.Unparen(ix.Index).(*ast.Ident)
				if aid == nil || iid == nil || info.ObjectOf(aid) != c.obj || info.ObjectOf(iid) != info.ObjectOf(kid) {
					ok = false
					return true
				}
				mentionsKey := false
				ast.Inspect(as.Rhs[0], func(m ast.Node) bool {
					if id, isId := m.(*ast.Ident); isId && info.ObjectOf(id) == info.ObjectOf(kid) {
						mentionsKey = true
					}
					return true
				})
				if mentionsKey {
					ok = false
					return true
				}
				fill = rs
				inFill[xid], inFill[aid] = true, true
				return true
			})
			if !ok || fill == nil {
				continue
			}
			var reads []*ast.IndexExpr
			ast.Inspect(fi.Decl.Body, func(n ast.Node) bool {
				switch v := n.(type) {
				case *ast.IndexExpr:
					if id, isId := ast.Unparen(v.X).(*ast.Ident); isId && info.ObjectOf(id) == c.obj && !inFill[id] {
						if tv, has := info.Types[v.Index]; has && tv.Value != nil && v.Pos() > fill.End() {
							reads = append(reads, v)
							inFill[id] = true
						} else {
							ok = false
						}
					}
				case *ast.Ident:
					if info.Uses[v] == c.obj && !inFill[v] {
						// looked at again after its IndexExpr parent was recorded: fine; otherwise a bare use
						bare := true
						for _, rd := range reads {
							if rid, _ := ast.Unparen(rd.X).(*ast.Ident); rid == v {
								bare = false
							}
						}
						if bare {
							ok = false
						}
					}
				}
				return true
			})
			if !ok {
				continue
			}
			// the scalars
			as := fill.Body.List[0].(*ast.AssignStmt)
			vars := make([]*types.Var, c.n)
			var stmts []ast.Stmt
			for k := int64(0); k < c.n; k++ {
				name := fmt.Sprintf("%s_%d", c.obj.Name(), k)
				v := types.NewVar(fill.Pos(), c.obj.Pkg(), name, c.elem)
				vars[k] = v
				id := &ast.Ident{NamePos: fill.Pos(), Name: name}
				info.Defs[id] = v
				rhs := as.Rhs[0]
				if call, isCall := ast.Unparen(rhs).(*ast.CallExpr); isCall {
					cp := *call // one call node per slot: each slot is its own read
					if tv, has := info.Types[call]; has {
						info.Types[&cp] = tv
					}
					rhs = &cp
				}
				stmts = append(stmts, &ast.AssignStmt{Lhs: []ast.Expr{id}, Tok: token.DEFINE, TokPos: fill.Pos(), Rhs: []ast.Expr{rhs}})
			}
			replaced := replaceStmt(fi.Decl.Body, fill, &ast.BlockStmt{Lbrace: fill.Pos(), List: stmts, Rbrace: fill.End()})
			if !replaced {
				continue
			}
			for _, rd := range reads {
				tv := info.Types[rd.Index]
				k, _ := constant.Int64Val(constant.ToInt(tv.Value))
				if k < 0 || k >= c.n {
					continue
				}
				id := &ast.Ident{NamePos: rd.Pos(), Name: vars[k].Name()}
				info.Uses[id] = vars[k]
				if rtv, has := info.Types[rd]; has {
					info.Types[id] = types.TypeAndValue{Type: rtv.Type}
				}
				replaceExpr(fi.Decl.Body, rd, id)
			}
		}
	}
}

// replaceStmt replaces old by a statement list spliced into its enclosing block.
func replaceStmt(root *ast.BlockStmt, old ast.Stmt, nu *ast.BlockStmt) bool {
	done := false
	ast.Inspect(root, func(n ast.Node) bool {
		b, ok := n.(*ast.BlockStmt)
		if !ok || done {
			return !done
		}
		for i, s := range b.List {
			if s == old {
				list := append([]ast.Stmt{}, b.List[:i]...)
				list = append(list, nu.List...)
				list = append(list, b.List[i+1:]...)
				b.List = list
				done = true
				return false
			}
		}
		return true
	})
	return done
}

// replaceExpr replaces the expression node old by nu wherever it is held (the common holders).
func replaceExpr(root ast.Node, old, nu ast.Expr) {
	ast.Inspect(root, func(n ast.Node) bool {
		switch v := n.(type) {
		case *ast.CallExpr:
			for i, a := range v.Args {
				if a == old {
					v.Args[i] = nu
				}
			}
			if v.Fun == old {
				v.Fun = nu
			}
		case *ast.AssignStmt:
			for i, a := range v.Rhs {
				if a == old {
					v.Rhs[i] = nu
				}
			}
		case *ast.BinaryExpr:
			if v.X == old {
				v.X = nu
			}
			if v.Y == old {
				v.Y = nu
			}
		case *ast.UnaryExpr:
			if v.X == old {
				v.X = nu
			}
		case *ast.ParenExpr:
			if v.X == old {
				v.X = nu
			}
		case *ast.ReturnStmt:
			for i, a := range v.Results {
				if a == old {
					v.Results[i] = nu
				}
			}
		case *ast.IfStmt:
			if v.Cond == old {
				v.Cond = nu
			}
		case *ast.KeyValueExpr:
			if v.Value == old {
				v.Value = nu
			}
		case *ast.CompositeLit:
			for i, a := range v.Elts {
				if a == old {
					v.Elts[i] = nu
				}
			}
		case *ast.ValueSpec:
			for i, a := range v.Values {
				if a == old {
					v.Values[i] = nu
				}
			}
		case *ast.SwitchStmt:
			if v.Tag == old {
				v.Tag = nu
			}
		case *ast.IndexExpr:
			if v.Index == old {
				v.Index = nu
			}
		}
		return true
	})
}
