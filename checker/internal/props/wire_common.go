package props

import (
	"os"
	"fmt"
	"go/ast"
	"go/types"
	"sort"
	"strings"

	"golibcheck/internal/core"
	"golibcheck/internal/wire"
)

// codecPair is one writer/reader pair of functions over one stream each.
type codecPair struct {
	W, R   *core.FuncInfo
	WS, RS types.Object
	Name   string
}

var explicitStems = map[string]string{
	"GetBytes":         "BuildHyperLogLog",
	"SetRecords":       "GetRecords",
	"GetContentBytes":  "SetContentBytes",
	"ToBytesPack":      "ToPack",
	"ToBytesStep":      "ToStep",
}

// stemPair: do the two function names form a writer/reader name pair?
func stemPair(w, r string) bool {
	for _, p := range [][2]string{{"Write", "Read"}, {"write", "read"}, {"ToBytes", "ToObject"}, {"toBytes", "toObject"}, {"encode", "decode"}, {"Encode", "Decode"}} {
		if strings.HasPrefix(w, p[0]) && strings.HasPrefix(r, p[1]) && w[len(p[0]):] == r[len(p[1]):] {
			return true
		}
	}
	if strings.HasSuffix(w, "Bytes") && strings.HasSuffix(r, "Object") && strings.TrimSuffix(w, "Bytes") == strings.TrimSuffix(r, "Object") {
		return true
	}
	if explicitStems[w] == r {
		return true
	}
	// alternative writers of one record buffer: SetRecords, SetRecordsList, SetRecordsArray ~ GetRecords
	if strings.HasPrefix(w, "SetRecords") && r == "GetRecords" {
		return true
	}
	return false
}

// rootStreams: stream parameters (or receiver); failing that, the single local root stream
// (o := io.NewDataOutputX() ... return o.ToByteArray() / in := io.NewDataInputX(param)).
func rootStreams(x *wire.Extractor, fi *core.FuncInfo) (outs, ins []types.Object) {
	outs, ins = x.StreamParams(fi)
	if len(outs)+len(ins) > 0 || fi.Decl.Body == nil {
		return
	}
	return x.LocalRoots(fi)
}

func isCallTo(info *types.Info, call *ast.CallExpr, pkg, name string) bool {
	var id *ast.Ident
	switch f := ast.Unparen(call.Fun).(type) {
	case *ast.Ident:
		id = f
	case *ast.SelectorExpr:
		id = f.Sel
	default:
		return false
	}
	fn, _ := info.Uses[id].(*types.Func)
	return fn != nil && fn.Name() == name && fn.Pkg() != nil && fn.Pkg().Path() == pkg
}

// discoverPairs finds every writer/reader pair declared in the given packages (relative paths).
// It also returns the codec functions (touching a root stream) that belong to no pair.
func discoverPairs(p *core.Program, x *wire.Extractor, relPkgs []string) (pairs []codecPair, unpaired []*core.FuncInfo) {
	inScope := map[string]bool{}
	for _, r := range relPkgs {
		inScope[r] = true
	}
	type cf struct {
		fi   *core.FuncInfo
		outs []types.Object
		ins  []types.Object
	}
	byOwner := map[string][]cf{} // pkg + receiver type name ("" for functions)
	for _, fi := range p.Funcs {
		rel := core.RelPkg(fi.Pkg.PkgPath)
		if !inScope[rel] || fi.Decl.Body == nil {
			continue
		}
		outs, ins := rootStreams(x, fi)
		if len(outs)+len(ins) == 0 {
			continue
		}
		owner := rel + "|"
		if n := core.RecvNamed(fi.Obj); n != nil {
			owner += n.Obj().Name()
		}
		byOwner[owner] = append(byOwner[owner], cf{fi, outs, ins})
	}
	owners := make([]string, 0, len(byOwner))
	for k := range byOwner {
		owners = append(owners, k)
	}
	sort.Strings(owners)
	for _, o := range owners {
		fs := byOwner[o]
		used := map[*core.FuncInfo]bool{}
		for _, w := range fs {
			if len(w.outs) == 0 {
				continue
			}
			for _, r := range fs {
				if len(r.ins) == 0 || !stemPair(w.fi.Obj.Name(), r.fi.Obj.Name()) {
					continue
				}
				pairs = append(pairs, codecPair{W: w.fi, R: r.fi, WS: w.outs[0], RS: r.ins[0],
					Name: core.FuncName(w.fi.Obj) + " ~ " + core.FuncName(r.fi.Obj)})
				used[w.fi], used[r.fi] = true, true
			}
		}
		for _, f := range fs {
			if !used[f.fi] {
				unpaired = append(unpaired, f.fi)
			}
		}
	}
	return
}

// isPairFunc: call-level pairing used by the matcher (agreement of the callee pair is its own obligation).
func isPairFunc(w, r *types.Func) bool {
	if w == nil || r == nil || !stemPair(w.Name(), r.Name()) {
		return false
	}
	wn, rn := core.RecvNamed(w), core.RecvNamed(r)
	wsig, rsig := w.Type().(*types.Signature), r.Type().(*types.Signature)
	wm, rm := wsig.Recv() != nil, rsig.Recv() != nil
	if wm != rm {
		return false
	}
	if !wm {
		return w.Pkg() == r.Pkg()
	}
	_, wi := wsig.Recv().Type().Underlying().(*types.Interface)
	ri := false
	var riface *types.Interface
	if it, ok := rsig.Recv().Type().Underlying().(*types.Interface); ok {
		ri, riface = true, it
	}
	switch {
	case wi && ri:
		return types.Identical(wsig.Recv().Type(), rsig.Recv().Type())
	case !wi && !ri:
		return wn != nil && rn != nil && wn.Obj() == rn.Obj()
	case !wi && ri:
		// concrete writer, reader dispatches through the interface the concrete type implements
		return types.Implements(wsig.Recv().Type(), riface) || types.Implements(types.NewPointer(wn), riface)
	default:
		if it, ok := wsig.Recv().Type().Underlying().(*types.Interface); ok {
			return types.Implements(rsig.Recv().Type(), it) || (rn != nil && types.Implements(types.NewPointer(rn), it))
		}
	}
	return false
}

type pairRules struct {
	Pairs     string // rule id for layout agreement
	Fields    string // rule id for label / dropped findings
	CountLink string // rule id for count-link findings
}

// runPairs matches every pair and files obligations: one OK obligation per pair and rule when the
// whole pair agrees; otherwise one violation per distinct disagreement, keyed by the pair and the
// disagreement's own text (kinds, labels) — never by line — so that a known finding suppresses only itself.
func runPairs(p *core.Program, x *wire.Extractor, r *core.Report, pairs []codecPair, rules pairRules, depth int) {
	for _, cp := range pairs {
		res := x.MatchFuncs(cp.W, cp.WS, cp.R, cp.RS, isPairFunc, depth)
		pos := p.Pos(cp.W.Decl.Pos())
		r.Stats["steps"] += res.Steps
		r.Stats["prims_matched"] += res.Prims
		r.Stats["worlds"] += res.Worlds
		r.Stats["labels_compared"] += res.Labels
		bad := map[string]bool{}
		for _, f := range res.Failures {
			where := fmt.Sprintf("writer %s | reader %s", p.Pos(f.WPos), p.Pos(f.RPos))
			rule := rules.Pairs
			switch f.Kind {
			case "label", "dropped", "omission":
				if rules.Fields != "" {
					rule = rules.Fields
				}
			case "countlink":
				if rules.CountLink != "" {
					rule = rules.CountLink
				}
			}
			bad[rule] = true
			construct := cp.Name + " :: " + f.Msg
			if f.Kind == "undecided" {
				r.Undec(rule, construct, pos, where)
			} else {
				r.Viol(rule, construct, pos, where)
			}
		}
		// computed values in field positions: the reader restores field F from a position where the
		// writer passes the result of a function that is not a conversion or a known transparent wrapper
		{
			seenO := map[string]bool{}
			for _, o := range res.Opaque {
				k := cp.Name + " :: field " + o.Field + " is written through `" + o.Arg + "`"
				if seenO[k] {
					continue
				}
				seenO[k] = true
				rule := rules.Pairs
				if rules.Fields != "" {
					rule = rules.Fields
				}
				bad[rule] = true
				r.Viol(rule, k, p.Pos(o.WPos), "the value on the wire is computed from the field by something other than a conversion: the analysis cannot show that what is written is the field's value (a clamping/normalising helper changes what the peer decodes)")
			}
		}
		if os.Getenv("WIRE_OPAQUE") != "" {
			seenO := map[string]bool{}
			for _, o := range res.Opaque {
				k := fmt.Sprintf("%s field=%s arg=%s", cp.Name, o.Field, o.Arg)
				if !seenO[k] {
					seenO[k] = true
					fmt.Fprintln(os.Stderr, "OPAQUE", k)
				}
			}
		}
		for _, n := range res.Notes {
			r.Info(rules.Pairs, cp.Name+" :: "+n, pos, "")
		}
		anyLayout := bad[rules.Pairs]
		if !anyLayout {
			r.OK(rules.Pairs, cp.Name, pos, fmt.Sprintf("%d primitive positions agree over %d joint paths", res.Prims, res.Worlds))
		}
		if rules.Fields != "" && !bad[rules.Fields] && !anyLayout {
			r.OK(rules.Fields, cp.Name, pos, fmt.Sprintf("%d field correspondences", res.Labels))
		}
		if rules.CountLink != "" && !bad[rules.CountLink] && !anyLayout {
			r.OK(rules.CountLink, cp.Name, pos, "")
		}
	}
}
