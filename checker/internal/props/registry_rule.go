package props

import (
	"fmt"
	"go/ast"
	"go/constant"
	"go/token"
	"go/types"
	"sort"

	"golibcheck/internal/core"
)

// registryResult summarises a factory switch.
type registryResult struct {
	Cases      map[string]*types.Named // constant (exact string) -> concrete type
	Registered map[*types.TypeName]string
	DefaultPanics bool
	DefaultNil    bool
}

// constGetter returns the constant a method `func (T) getter() X { return CONST }` returns.
func constGetter(p *core.Program, n *types.Named, getter string) (constant.Value, *core.FuncInfo) {
	for _, fi := range p.MethodsOf(n) {
		if fi.Obj.Name() != getter || fi.Decl.Body == nil {
			continue
		}
		var val constant.Value
		nret := 0
		ast.Inspect(fi.Decl.Body, func(m ast.Node) bool {
			if rs, ok := m.(*ast.ReturnStmt); ok && len(rs.Results) == 1 {
				nret++
				if tv, ok := fi.Pkg.TypesInfo.Types[rs.Results[0]]; ok && tv.Value != nil {
					val = tv.Value
				} else {
					val = nil
					nret += 100
				}
			}
			return true
		})
		if nret == 1 {
			return val, fi
		}
		return nil, fi
	}
	return nil, nil
}

func namedOf(t types.Type) *types.Named {
	if pt, ok := t.(*types.Pointer); ok {
		t = pt.Elem()
	}
	n, _ := t.(*types.Named)
	return n
}

// regEntry is one registration of a factory: the constant keys and the code that builds the object.
// A factory is either a tag switch (`case K: return NewT()`) or a look-up in a package-level table
// (`var tbl = map[K]func() T{K: func() T { return NewT() }}` / `K: NewT`, used as `tbl[code]`).
type regEntry struct {
	Keys []ast.Expr
	Body ast.Node // clause / function literal / constructor identifier
}

func factoryEntries(p *core.Program, fi *core.FuncInfo) ([]regEntry, string) {
	info := fi.Pkg.TypesInfo
	var sw *ast.SwitchStmt
	ast.Inspect(fi.Decl.Body, func(n ast.Node) bool {
		if s, ok := n.(*ast.SwitchStmt); ok && sw == nil && s.Tag != nil {
			sw = s
		}
		return sw == nil
	})
	if sw != nil {
		var out []regEntry
		for _, st := range sw.Body.List {
			cl := st.(*ast.CaseClause)
			if cl.List != nil {
				out = append(out, regEntry{Keys: cl.List, Body: cl})
			}
		}
		return out, ""
	}
	// if / else-if chain on the code parameter: if code == K1 { ... } else if code == K2 || code == K3 { ... }
	if fi.Decl.Type.Params != nil && len(fi.Decl.Type.Params.List) > 0 && len(fi.Decl.Type.Params.List[0].Names) > 0 {
		pobj := info.Defs[fi.Decl.Type.Params.List[0].Names[0]]
		var out []regEntry
		keysOf := func(c ast.Expr) []ast.Expr {
			var keys []ast.Expr
			ok := true
			var walk func(e ast.Expr)
			walk = func(e ast.Expr) {
				be, isB := ast.Unparen(e).(*ast.BinaryExpr)
				if !isB {
					ok = false
					return
				}
				switch be.Op {
				case token.LOR:
					walk(be.X)
					walk(be.Y)
				case token.EQL:
					x, y := ast.Unparen(stripConvs(info, be.X)), ast.Unparen(stripConvs(info, be.Y))
					if id, isId := x.(*ast.Ident); isId && info.ObjectOf(id) == pobj {
						keys = append(keys, be.Y)
					} else if id, isId := y.(*ast.Ident); isId && info.ObjectOf(id) == pobj {
						keys = append(keys, be.X)
					} else {
						ok = false
					}
				default:
					ok = false
				}
			}
			walk(c)
			if !ok {
				return nil
			}
			return keys
		}
		for _, st := range fi.Decl.Body.List {
			ifs, isIf := st.(*ast.IfStmt)
			for isIf && ifs != nil {
				keys := keysOf(ifs.Cond)
				if keys == nil {
					break
				}
				out = append(out, regEntry{Keys: keys, Body: ifs.Body})
				next, _ := ifs.Else.(*ast.IfStmt)
				ifs = next
			}
		}
		if len(out) >= 2 {
			return out, ""
		}
	}
	// table form
	var lit *ast.CompositeLit
	ast.Inspect(fi.Decl.Body, func(n ast.Node) bool {
		ix, ok := n.(*ast.IndexExpr)
		if !ok || lit != nil {
			return true
		}
		id, ok := ast.Unparen(ix.X).(*ast.Ident)
		if !ok {
			return true
		}
		v, ok := info.Uses[id].(*types.Var)
		if !ok || v.Pkg() == nil || v.Parent() != v.Pkg().Scope() {
			return true
		}
		switch v.Type().Underlying().(type) {
		case *types.Map, *types.Array, *types.Slice: // keyed by the code (map key, or index of a keyed array literal)
		default:
			return true
		}
		// the table's initialiser
		for _, f := range fi.Pkg.Syntax {
			for _, d := range f.Decls {
				gd, ok := d.(*ast.GenDecl)
				if !ok || gd.Tok != token.VAR {
					continue
				}
				for _, sp := range gd.Specs {
					vs := sp.(*ast.ValueSpec)
					for i, nm := range vs.Names {
						if info.Defs[nm] == v && i < len(vs.Values) {
							lit, _ = ast.Unparen(vs.Values[i]).(*ast.CompositeLit)
						}
					}
				}
			}
		}
		return true
	})
	if lit == nil {
		return nil, "neither a tag switch nor a look-up in a package-level table literal"
	}
	// the table must not be written anywhere (it is the registry)
	var out []regEntry
	for _, el := range lit.Elts {
		kv, ok := el.(*ast.KeyValueExpr)
		if !ok {
			return nil, "table literal without keys"
		}
		out = append(out, regEntry{Keys: []ast.Expr{kv.Key}, Body: kv.Value})
	}
	return out, ""
}

// entryCreated: the concrete type an entry constructs.
func entryCreated(info *types.Info, e regEntry) *types.Named {
	var created *types.Named
	note := func(t types.Type) {
		if n := namedOf(t); n != nil {
			if _, isIface := n.Underlying().(*types.Interface); !isIface {
				created = n
			}
		}
	}
	if id, ok := e.Body.(*ast.Ident); ok { // K: NewT
		if fn, ok := info.Uses[id].(*types.Func); ok {
			if sig := fn.Type().(*types.Signature); sig.Results().Len() >= 1 {
				note(sig.Results().At(0).Type())
			}
		}
		return created
	}
	ast.Inspect(e.Body, func(n ast.Node) bool {
		if rs, ok := n.(*ast.ReturnStmt); ok && len(rs.Results) >= 1 {
			if tv, ok := info.Types[rs.Results[0]]; ok {
				note(tv.Type)
			}
		}
		return true
	})
	if created == nil {
		// single-exit factories: case K: p = <concrete>; ... return p after the switch
		ast.Inspect(e.Body, func(n ast.Node) bool {
			as, ok := n.(*ast.AssignStmt)
			if !ok || len(as.Lhs) != 1 || len(as.Rhs) != 1 {
				return true
			}
			id, ok := as.Lhs[0].(*ast.Ident)
			if !ok {
				return true
			}
			if obj := info.ObjectOf(id); obj != nil {
				if _, isIface := obj.Type().Underlying().(*types.Interface); isIface {
					if tv, ok := info.Types[as.Rhs[0]]; ok {
						note(tv.Type)
					}
				}
			}
			return true
		})
	}
	if created == nil {
		// K: &T{} / K: pool variable etc.: the static type of the value expression
		if ex, ok := e.Body.(ast.Expr); ok {
			if tv, ok := info.Types[ex]; ok {
				note(tv.Type)
			}
		}
	}
	return created
}

// checkRegistry verifies a factory `switch code { case K: return NewT() ... }` against T.getter().
// One obligation per case: the created type reports the same constant; no constant twice.
func checkRegistry(p *core.Program, r *core.Report, rule, relPkg, factory, ifaceName, getter string) *registryResult {
	fi := p.Func(relPkg, factory)
	if fi == nil || fi.Decl.Body == nil {
		r.Undec(rule, relPkg+"."+factory, "-", "factory function not found")
		return &registryResult{Cases: map[string]*types.Named{}, Registered: map[*types.TypeName]string{}}
	}
	return checkRegistryFI(p, r, rule, fi, relPkg, factory, relPkg, ifaceName, getter)
}

// checkRegistryFI: checkRegistry for a factory given as a function or method; the interface the
// created types must implement is looked up in ifacePkg.
func checkRegistryFI(p *core.Program, r *core.Report, rule string, fi *core.FuncInfo, relPkg, factory, ifacePkg, ifaceName, getter string) *registryResult {
	res := &registryResult{Cases: map[string]*types.Named{}, Registered: map[*types.TypeName]string{}}
	info := fi.Pkg.TypesInfo
	entries, why := factoryEntries(p, fi)
	if entries == nil {
		r.Undec(rule, relPkg+"."+factory, p.Pos(fi.Decl.Pos()), "registry not recognised: "+why)
		return res
	}
	var iface *types.Interface
	if pk := p.Pkg(ifacePkg); pk != nil {
		if o := pk.Types.Scope().Lookup(ifaceName); o != nil {
			iface, _ = o.Type().Underlying().(*types.Interface)
		}
	}
	for _, ent := range entries {
		cl := ent.Body
		created := entryCreated(info, ent)
		if created == nil {
			created = poolCreated(fi, ent)
		}
		for _, ke := range ent.Keys {
			tv, ok := info.Types[ke]
			name := types.ExprString(ke)
			construct := fmt.Sprintf("%s.%s case %s", relPkg, factory, name)
			pos := p.Pos(ke.Pos())
			if !ok || tv.Value == nil {
				r.Undec(rule, construct, pos, "case label is not a constant")
				continue
			}
			key := tv.Value.ExactString()
			if created == nil {
				r.Undec(rule, construct, pos, "cannot determine the concrete type created by this case")
				continue
			}
			construct += " -> " + created.Obj().Name()
			if prev, dup := res.Cases[key]; dup {
				r.Viol(rule, construct, pos, fmt.Sprintf("constant %s is registered twice (%s and %s)", key, prev.Obj().Name(), created.Obj().Name()))
				continue
			}
			res.Cases[key] = created
			res.Registered[created.Obj()] = key
			gv, gfi := constGetter(p, created, getter)
			if gfi == nil {
				// promoted from an embedded type?
				r.Undec(rule, construct, pos, fmt.Sprintf("%s has no own %s()", created.Obj().Name(), getter))
				continue
			}
			if gv == nil {
				// getter returns a field: the constructor used by this case must set that field to K
				if fv := fieldGetterValue(p, info, cl, gfi); fv != nil {
					gv = fv
				}
			}
			if gv == nil {
				r.Undec(rule, construct, pos, fmt.Sprintf("%s.%s() does not return a single constant", created.Obj().Name(), getter))
				continue
			}
			if !constant.Compare(constant.ToInt(gv), token.EQL, constant.ToInt(tv.Value)) {
				r.Viol(rule, construct, pos, fmt.Sprintf("factory creates %s for code %s but %s.%s() returns %s: a written value is read back as another type",
					created.Obj().Name(), key, created.Obj().Name(), getter, gv.ExactString()))
				continue
			}
			if iface != nil && !types.Implements(types.NewPointer(created), iface) && !types.Implements(created, iface) {
				r.Viol(rule, construct, pos, created.Obj().Name()+" does not implement "+ifaceName)
				continue
			}
			r.OK(rule, construct, pos, fmt.Sprintf("%s() == %s", getter, key))
		}
	}
	// what happens for an unknown code
	last := factoryFallback(fi.Decl.Body.List)
	if last == nil {
		last = fi.Decl.Body.List[len(fi.Decl.Body.List)-1]
	}
	switch v := last.(type) {
	case *ast.ExprStmt:
		if call, ok := v.X.(*ast.CallExpr); ok {
			if id, ok := call.Fun.(*ast.Ident); ok && id.Name == "panic" {
				res.DefaultPanics = true
			}
		}
	case *ast.ReturnStmt:
		if len(v.Results) == 1 {
			if id, ok := v.Results[0].(*ast.Ident); ok && id.Name == "nil" {
				res.DefaultNil = true
			}
		}
	}
	// implementers not registered: information
	if pk := p.Pkg(ifacePkg); iface != nil && pk != nil {
		var names []string
		for _, nm := range pk.Types.Scope().Names() {
			tn, ok := pk.Types.Scope().Lookup(nm).(*types.TypeName)
			if !ok {
				continue
			}
			n, ok := tn.Type().(*types.Named)
			if !ok {
				continue
			}
			if _, isI := n.Underlying().(*types.Interface); isI {
				continue
			}
			if types.Implements(types.NewPointer(n), iface) {
				if _, reg := res.Registered[tn]; !reg {
					names = append(names, nm)
				}
			}
		}
		sort.Strings(names)
		for _, nm := range names {
			r.Info(rule, relPkg+"."+nm+" (implements "+ifaceName+", not registered in "+factory+")", "-", "the property quantifies over registered types; listed for information")
		}
	}
	return res
}

// fieldGetterValue: getter is `return recv.f`; the case returns NewT() whose body assigns `x.f = CONST`.
func fieldGetterValue(p *core.Program, info *types.Info, cl ast.Node, getter *core.FuncInfo) constant.Value {
	if getter.Decl.Body == nil || len(getter.Decl.Body.List) != 1 {
		return nil
	}
	rs, ok := getter.Decl.Body.List[0].(*ast.ReturnStmt)
	if !ok || len(rs.Results) != 1 {
		return nil
	}
	sel, ok := ast.Unparen(rs.Results[0]).(*ast.SelectorExpr)
	if !ok {
		return nil
	}
	field := sel.Sel.Name
	var ctor *core.FuncInfo
	ast.Inspect(cl, func(n ast.Node) bool {
		if r, ok := n.(*ast.ReturnStmt); ok && len(r.Results) == 1 {
			if call, ok := r.Results[0].(*ast.CallExpr); ok {
				var id *ast.Ident
				switch f := call.Fun.(type) {
				case *ast.Ident:
					id = f
				case *ast.SelectorExpr:
					id = f.Sel
				}
				if id != nil {
					if fn, ok := info.Uses[id].(*types.Func); ok {
						ctor = p.FuncOf(fn)
					}
				}
			}
		}
		return true
	})
	if ctor == nil || ctor.Decl.Body == nil {
		return nil
	}
	var val constant.Value
	n := 0
	ast.Inspect(ctor.Decl.Body, func(m ast.Node) bool {
		if as, ok := m.(*ast.AssignStmt); ok {
			for i, l := range as.Lhs {
				if s, ok := l.(*ast.SelectorExpr); ok && s.Sel.Name == field && i < len(as.Rhs) {
					n++
					if tv, ok := ctor.Pkg.TypesInfo.Types[as.Rhs[i]]; ok && tv.Value != nil {
						val = tv.Value
					}
				}
			}
		}
		return true
	})
	if n == 1 {
		return val
	}
	return nil
}

// checkFactoryFresh: every object a decoding factory hands out is freshly allocated. Each `case K:
// return NewT()` (or &T{}, new(T)) of the factory switch must, on every return path of the
// constructor, yield storage allocated in that call; a constructor that returns a package-level
// instance makes every decoded value of that type alias one object, which Read then overwrites.
func checkFactoryFresh(p *core.Program, r *core.Report, rule, rel, factory string) {
	fi := p.Func(rel, factory)
	if fi == nil || fi.Decl.Body == nil {
		r.Undec(rule, rel+"."+factory, "-", "factory not found")
		return
	}
	info := fi.Pkg.TypesInfo
	n := 0
	judge := func(res ast.Expr, pos token.Pos) {
		if id, isId := ast.Unparen(res).(*ast.Ident); isId && id.Name == "nil" {
			return
		}
		n++
		c := rel + "." + factory + " -> " + stripSpaces(types.ExprString(res))
		why := freshExpr(p, info, fi, res, 0)
		if why != "" {
			// a shared instance of a type without any state cannot be overwritten by decoding
			t := info.TypeOf(res)
			if pt, ok := t.(*types.Pointer); ok {
				t = pt.Elem()
			}
			if t != nil {
				if st, ok := t.Underlying().(*types.Struct); ok && st.NumFields() == 0 {
					why = ""
				}
			}
		}
		if why != "" {
			r.Viol(rule, c, p.Pos(pos), "the factory hands out storage that is not allocated by this call ("+why+"): decoded objects of this type alias each other, and decoding one overwrites the others")
		} else {
			r.OK(rule, c, p.Pos(pos), "freshly allocated")
		}
	}
	// variables the factory returns as they stand (`return created`, or a named result)
	returnedVars := map[types.Object]bool{}
	ast.Inspect(fi.Decl.Body, func(m ast.Node) bool {
		if rs, ok := m.(*ast.ReturnStmt); ok && len(rs.Results) >= 1 {
			if id, ok := ast.Unparen(rs.Results[0]).(*ast.Ident); ok && id.Name != "nil" {
				if o := info.ObjectOf(id); o != nil {
					returnedVars[o] = true
				}
			}
		}
		return true
	})
	if fi.Decl.Type.Results != nil {
		for _, f := range fi.Decl.Type.Results.List {
			for _, nm := range f.Names {
				returnedVars[info.Defs[nm]] = true
			}
		}
	}
	entries, _ := factoryEntries(p, fi)
	for _, ent := range entries {
		switch b := ent.Body.(type) {
		case *ast.Ident: // K: NewT  -> what NewT returns
			if fn, ok := info.Uses[b].(*types.Func); ok {
				call := &ast.CallExpr{Fun: b}
				info.Types[call] = types.TypeAndValue{Type: fn.Type().(*types.Signature).Results().At(0).Type()}
				judge(call, b.Pos())
			}
		default:
			ast.Inspect(ent.Body, func(m ast.Node) bool {
				if rs, ok := m.(*ast.ReturnStmt); ok && len(rs.Results) >= 1 {
					judge(rs.Results[0], rs.Pos())
				}
				// single-exit factories: the entry assigns the variable the factory returns at its end
				if as, ok := m.(*ast.AssignStmt); ok && len(as.Lhs) == 1 && len(as.Rhs) == 1 {
					if id, ok := as.Lhs[0].(*ast.Ident); ok && returnedVars[info.ObjectOf(id)] {
						judge(as.Rhs[0], as.Pos())
					}
				}
				return true
			})
		}
	}
	if n == 0 {
		r.Undec(rule, rel+"."+factory, p.Pos(fi.Decl.Pos()), "no constructing return found")
	}
}

// freshExpr returns "" when e denotes storage allocated during this call, else the reason.
func freshExpr(p *core.Program, info *types.Info, fi *core.FuncInfo, e ast.Expr, depth int) string {
	e = ast.Unparen(e)
	if depth > 3 {
		return "constructor chain too deep"
	}
	switch v := e.(type) {
	case *ast.UnaryExpr:
		if _, ok := ast.Unparen(v.X).(*ast.CompositeLit); ok && v.Op == token.AND {
			return ""
		}
	case *ast.CompositeLit:
		return ""
	case *ast.CallExpr:
		if id, ok := v.Fun.(*ast.Ident); ok {
			if _, isB := info.Uses[id].(*types.Builtin); isB && (id.Name == "new" || id.Name == "make") {
				return ""
			}
		}
		var fid *ast.Ident
		switch f := v.Fun.(type) {
		case *ast.Ident:
			fid = f
		case *ast.SelectorExpr:
			fid = f.Sel
		}
		if fid != nil {
			if fn, _ := info.Uses[fid].(*types.Func); fn != nil {
				cfi := p.FuncOf(fn)
				if cfi == nil || cfi.Decl.Body == nil {
					return "constructor " + fn.Name() + " has no body in the module"
				}
				why := ""
				found := false
				ast.Inspect(cfi.Decl.Body, func(m ast.Node) bool {
					if _, isLit := m.(*ast.FuncLit); isLit {
						return false
					}
					if rs, ok := m.(*ast.ReturnStmt); ok && len(rs.Results) >= 1 {
						found = true
						if w := freshExpr(p, cfi.Pkg.TypesInfo, cfi, rs.Results[0], depth+1); w != "" && why == "" {
							why = fn.Name() + " returns " + w
						}
					}
					return true
				})
				if !found {
					return "constructor " + fn.Name() + " has no return"
				}
				return why
			}
		}
		if tv, ok := info.Types[v.Fun]; ok && tv.IsType() && len(v.Args) == 1 {
			return freshExpr(p, info, fi, v.Args[0], depth+1)
		}
	case *ast.Ident:
		obj := info.ObjectOf(v)
		if vr, ok := obj.(*types.Var); ok {
			if vr.Parent() == vr.Pkg().Scope() {
				return "the package-level variable " + v.Name
			}
			// local: every assignment to it must be fresh
			why := ""
			n := 0
			ast.Inspect(fi.Decl.Body, func(m ast.Node) bool {
				switch a := m.(type) {
				case *ast.AssignStmt:
					if len(a.Lhs) == len(a.Rhs) {
						for i, l := range a.Lhs {
							if lid, ok := l.(*ast.Ident); ok && info.ObjectOf(lid) == obj {
								n++
								if w := freshExpr(p, info, fi, a.Rhs[i], depth+1); w != "" && why == "" {
									why = w
								}
							}
						}
					}
				case *ast.ValueSpec:
					for i, nm := range a.Names {
						if info.Defs[nm] == obj {
							n++
							if i < len(a.Values) {
								if w := freshExpr(p, info, fi, a.Values[i], depth+1); w != "" && why == "" {
									why = w
								}
							} else if _, isPtr := obj.Type().Underlying().(*types.Pointer); isPtr {
								why = "a nil pointer variable"
							}
						}
					}
				}
				return true
			})
			if n == 0 {
				return "parameter or captured variable " + v.Name
			}
			return why
		}
	}
	return "`" + stripSpaces(types.ExprString(e)) + "`"
}

// factoryFallback: what a factory does when no case matches — the statement after the dispatch, or
// the last statement of its default / final else arm.
func factoryFallback(list []ast.Stmt) ast.Stmt {
	if len(list) == 0 {
		return nil
	}
	switch l := list[len(list)-1].(type) {
	case *ast.SwitchStmt:
		for _, cs := range l.Body.List {
			if cl := cs.(*ast.CaseClause); cl.List == nil {
				return factoryFallback(cl.Body)
			}
		}
		return l
	case *ast.IfStmt:
		cur := l
		for {
			switch e := cur.Else.(type) {
			case *ast.IfStmt:
				cur = e
				continue
			case *ast.BlockStmt:
				return factoryFallback(e.List)
			}
			return l
		}
	case *ast.BlockStmt:
		return factoryFallback(l.List)
	default:
		return l
	}
}

// poolCreated: an entry that takes its object out of a package-level sync.Pool (directly, or by handing
// &pool to a helper) creates what the pool's New function returns.
func poolCreated(fi *core.FuncInfo, e regEntry) *types.Named {
	info := fi.Pkg.TypesInfo
	var created *types.Named
	ast.Inspect(e.Body, func(n ast.Node) bool {
		id, ok := n.(*ast.Ident)
		if !ok || created != nil {
			return true
		}
		v, ok := info.Uses[id].(*types.Var)
		if !ok || v.Pkg() == nil || v.Parent() != v.Pkg().Scope() {
			return true
		}
		if nt := namedOf(v.Type()); nt == nil || nt.Obj().Name() != "Pool" || nt.Obj().Pkg() == nil || nt.Obj().Pkg().Path() != "sync" {
			return true
		}
		for _, f := range fi.Pkg.Syntax {
			for _, d := range f.Decls {
				gd, ok := d.(*ast.GenDecl)
				if !ok || gd.Tok != token.VAR {
					continue
				}
				for _, sp := range gd.Specs {
					vs := sp.(*ast.ValueSpec)
					for i, nm := range vs.Names {
						if info.Defs[nm] != v || i >= len(vs.Values) {
							continue
						}
						lit, ok := ast.Unparen(vs.Values[i]).(*ast.CompositeLit)
						if !ok {
							continue
						}
						for _, el := range lit.Elts {
							kv, ok := el.(*ast.KeyValueExpr)
							if !ok {
								continue
							}
							if k, ok := kv.Key.(*ast.Ident); !ok || k.Name != "New" {
								continue
							}
							fl, ok := ast.Unparen(kv.Value).(*ast.FuncLit)
							if !ok {
								continue
							}
							ast.Inspect(fl.Body, func(m ast.Node) bool {
								if rs, ok := m.(*ast.ReturnStmt); ok && len(rs.Results) == 1 {
									if tv, ok := info.Types[rs.Results[0]]; ok {
										if nn := namedOf(tv.Type); nn != nil {
											if _, isIface := nn.Underlying().(*types.Interface); !isIface {
												created = nn
											}
										}
									}
								}
								return true
							})
						}
					}
				}
			}
		}
		return true
	})
	return created
}
