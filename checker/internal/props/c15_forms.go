package props

import (
	"fmt"
	"go/ast"
	"go/constant"
	"go/token"
	"go/types"
	"math"
	"os"
	"strconv"
	"strings"

	"golibcheck/internal/core"
)

// c15HexaForms — the text forms of the base-32 identifier codec agree between encoder and decoder.
//
// ToString32 is enumerated over the value classes of its argument, ToLong32 over the classes of the
// first character of its input (partition evaluation, so if-chains, switches and guard clauses read the
// same). Every class of the encoder returns one of
//
//	P + magnitude(±num)   a one-character prefix and the base-32 magnitude (via the package's digit routine)
//	decimal(num)          strconv.Itoa / FormatInt(…, 10)
//	a constant text       (a special value)
//	table[num]            a package-level table of texts, evaluated from its initialiser
//
// and must be read back by the decoder's branch for that first character: P with the magnitude of -num
// needs the negating branch, P with num the plain one, a decimal text (first character a digit or '-')
// the decimal branch; a constant or table text is decoded here from the decoder's forms (prefix, then
// base 32 over 0-9a-v; otherwise base 10) and must give back the value it stands for. It decides the
// agreement of forms; the digit table and the overflow guards are the other C15.hexa obligations.
func c15HexaForms(p *core.Program, r *core.Report) {
	enc, dec := p.Func("util/hexa32", "ToString32"), p.Func("util/hexa32", "ToLong32")
	if enc == nil || dec == nil || enc.Decl.Body == nil || dec.Decl.Body == nil || enc.Decl.Type.Params.NumFields() != 1 || dec.Decl.Type.Params.NumFields() != 1 {
		r.Undec("C15.hexa", "util/hexa32 forms", "-", "ToString32/ToLong32 not found")
		return
	}
	debug := os.Getenv("C15_DEBUG") != ""
	einfo, dinfo := enc.Pkg.TypesInfo, dec.Pkg.TypesInfo
	nobj := einfo.Defs[enc.Decl.Type.Params.List[0].Names[0]]
	sobj := dinfo.Defs[dec.Decl.Type.Params.List[0].Names[0]]
	noPrim := func(string) bool { return false }
	epos := p.Pos(enc.Decl.Pos())
	epaths, err := evalClassesOpt(p, enc, ivl{math.MinInt64, math.MaxInt64}, symParam(nobj), nil, noPrim, func(c *classEval) { c.noRecv = true })
	if err != "" {
		r.Undec("C15.hexa", "util/hexa32 forms: encoder", epos, "cannot enumerate the value classes of ToString32: "+err)
		return
	}
	// S of the decoder: str[0]
	symFirstChar := func(c *classEval, st *ceState, e ast.Expr) bool {
		ix, ok := e.(*ast.IndexExpr)
		if !ok {
			return false
		}
		id, ok := ast.Unparen(ix.X).(*ast.Ident)
		if !ok || c.info.ObjectOf(id) != sobj {
			return false
		}
		k, isC := constIntOf(c.info, ix.Index)
		return isC && k == 0
	}
	dpaths, derr := evalClassesOpt(p, dec, ivl{0, 255}, symFirstChar, nil, noPrim, func(c *classEval) { c.noRecv = true; c.forkUnknown = true })
	dpos := p.Pos(dec.Decl.Pos())
	if derr != "" {
		r.Undec("C15.hexa", "util/hexa32 forms: decoder", dpos, "cannot enumerate the first-character classes of ToLong32: "+derr)
		return
	}
	// decoder branch kinds per first character
	type dkind int
	const (
		dOther dkind = iota
		dZero        // a constant (0 / special)
		dPos         // magnitude of the rest
		dNeg         // negated magnitude of the rest
		dDec         // base-10 parse of the whole text
	)
	samePkgCall := func(info *types.Info, e ast.Expr, pk *types.Package) *ast.CallExpr {
		call, ok := ast.Unparen(e).(*ast.CallExpr)
		if !ok {
			return nil
		}
		if fn := calleeFunc(info, call); fn != nil && fn.Pkg() == pk {
			return call
		}
		return nil
	}
	var classifyDec func(pth *cePath, e ast.Expr, depth int) dkind
	classifyDec = func(pth *cePath, e ast.Expr, depth int) dkind {
		e = ast.Unparen(stripConvs(dinfo, e))
		if tv, ok := dinfo.Types[e]; ok && tv.Value != nil {
			return dZero
		}
		switch v := e.(type) {
		case *ast.UnaryExpr:
			if v.Op == token.SUB {
				switch classifyDec(pth, v.X, depth) {
				case dPos:
					return dNeg
				case dNeg:
					return dPos
				}
			}
		case *ast.BinaryExpr:
			if v.Op == token.MUL {
				for _, pr := range [][2]ast.Expr{{v.X, v.Y}, {v.Y, v.X}} {
					if k, ok := constIntOf(dinfo, pr[0]); ok && (k == -1 || k == 1) {
						in := classifyDec(pth, pr[1], depth)
						if k == 1 {
							return in
						}
						switch in {
						case dPos:
							return dNeg
						case dNeg:
							return dPos
						}
					}
				}
			}
		case *ast.CallExpr:
			if samePkgCall(dinfo, v, dec.Obj.Pkg()) != nil {
				return dPos
			}
		case *ast.Ident:
			// a local: defined on this path by strconv.Atoi/ParseInt(…, 10, …), or by another classified expression
			if depth > 3 {
				return dOther
			}
			obj := dinfo.ObjectOf(v)
			for i := len(pth.Stmts) - 1; i >= 0; i-- {
				as, ok := pth.Stmts[i].(*ast.AssignStmt)
				if !ok {
					continue
				}
				for j, l := range as.Lhs {
					lid, ok := l.(*ast.Ident)
					if !ok || dinfo.ObjectOf(lid) != obj {
						continue
					}
					rhs := as.Rhs[0]
					if len(as.Rhs) == len(as.Lhs) {
						rhs = as.Rhs[j]
					}
					if call, ok := ast.Unparen(rhs).(*ast.CallExpr); ok {
						if isCallTo(dinfo, call, "strconv", "Atoi") {
							return dDec
						}
						if (isCallTo(dinfo, call, "strconv", "ParseInt") || isCallTo(dinfo, call, "strconv", "ParseUint")) && len(call.Args) >= 2 {
							if b, ok := constIntOf(dinfo, call.Args[1]); ok && b == 10 {
								return dDec
							}
						}
					}
					return classifyDec(pth, rhs, depth+1)
				}
			}
		}
		return dOther
	}
	kindsFor := func(ch int64) (map[dkind]bool, string) {
		out := map[dkind]bool{}
		shown := ""
		for i := range dpaths {
			pth := &dpaths[i]
			if !pth.Set.contains(ch) || pth.Ret == nil {
				continue
			}
			k := classifyDec(pth, pth.Ret, 0)
			out[k] = true
			if k == dOther {
				shown = types.ExprString(pth.Ret)
			}
		}
		return out, shown
	}
	if debug {
		for _, pth := range epaths {
			fmt.Fprintf(os.Stderr, "ENC %s -> %s\n", pth.Set, pth.RetS)
		}
		for i := range dpaths {
			fmt.Fprintf(os.Stderr, "DEC %s -> %s kind=%d\n", dpaths[i].Set, dpaths[i].RetS, classifyDec(&dpaths[i], dpaths[i].Ret, 0))
		}
	}
	// static decoding of a constant text by the decoder's forms
	decodeText := func(s string) (int64, string) {
		if s == "" {
			return 0, ""
		}
		ks, shown := kindsFor(int64(s[0]))
		if ks[dOther] {
			return 0, "decoder branch for " + strconv.Quote(s[:1]) + " returns `" + shown + "`, not understood"
		}
		parse32 := func(t string) (int64, bool) {
			var acc uint64
			for _, ch := range []byte(t) {
				var d uint64
				switch {
				case ch >= '0' && ch <= '9':
					d = uint64(ch - '0')
				case ch >= 'a' && ch <= 'v':
					d = uint64(ch-'a') + 10
				default:
					return 0, false
				}
				if acc > (math.MaxInt64-d)/32 {
					return 0, false
				}
				acc = acc*32 + d
			}
			return int64(acc), true
		}
		switch {
		case ks[dPos] && !ks[dNeg] && !ks[dDec]:
			v, ok := parse32(s[1:])
			if !ok {
				return 0, "not a base-32 magnitude after the prefix"
			}
			return v, ""
		case ks[dNeg] && !ks[dPos] && !ks[dDec]:
			v, ok := parse32(s[1:])
			if !ok {
				return 0, "not a base-32 magnitude after the prefix"
			}
			return -v, ""
		case ks[dDec] && !ks[dPos] && !ks[dNeg]:
			v, e := strconv.ParseInt(s, 10, 64)
			if e != nil {
				return 0, "read by the decimal branch, which cannot parse it (and answers 0)"
			}
			return v, ""
		}
		return 0, "no single decoder form for first character " + strconv.Quote(s[:1])
	}
	n := 0
	for i := range epaths {
		pth := &epaths[i]
		if pth.Ret == nil || pth.Set.empty() {
			continue
		}
		n++
		c := fmt.Sprintf("util/hexa32 forms: ToString32 for %s", pth.Set)
		pos := p.Pos(pth.Pos)
		ret := ast.Unparen(pth.Ret)
		// constant text
		if tv, ok := einfo.Types[ret]; ok && tv.Value != nil && tv.Value.Kind() == constant.String {
			sv := constant.StringVal(tv.Value)
			if len(pth.Set) == 1 && pth.Set[0].lo == pth.Set[0].hi {
				if len(sv) > 1 && specialCompared(p, dec, sv) {
					r.OK("C15.hexa", c, pos, "special text, compared explicitly by the decoder")
					continue
				}
				got, why := decodeText(sv)
				r.Check(why == "" && got == pth.Set[0].lo, "C15.hexa", c, pos, fmt.Sprintf("%q reads back as %d", sv, got),
					fmt.Sprintf("the value %d is rendered as %q, which the decoder reads as %d %s", pth.Set[0].lo, sv, got, why))
			} else {
				r.Viol("C15.hexa", c, pos, fmt.Sprintf("every value of this class is rendered by the same text %q", sv))
			}
			continue
		}
		// decimal
		if call, ok := ret.(*ast.CallExpr); ok {
			isDec := isCallTo(einfo, call, "strconv", "Itoa")
			if (isCallTo(einfo, call, "strconv", "FormatInt") || isCallTo(einfo, call, "strconv", "FormatUint")) && len(call.Args) == 2 {
				if b, ok := constIntOf(einfo, call.Args[1]); ok && b == 10 {
					isDec = true
				}
			}
			if isDec {
				bad := ""
				firsts := []int64{}
				if !ivIntersect(pth.Set, ivSet{{math.MinInt64, -1}}).empty() {
					firsts = append(firsts, '-')
				}
				if !ivIntersect(pth.Set, ivSet{{0, math.MaxInt64}}).empty() {
					for ch := int64('0'); ch <= '9'; ch++ {
						firsts = append(firsts, ch)
					}
				}
				for _, ch := range firsts {
					ks, _ := kindsFor(ch)
					if !ks[dDec] || ks[dPos] || ks[dNeg] || ks[dOther] {
						bad = fmt.Sprintf("a decimal text starting with %q is not read by a base-10 branch of the decoder", rune(ch))
					}
				}
				// narrowing inside the call: Itoa(int(num)) is exact on 64-bit; int32 and the like are not
				ast.Inspect(call, func(m ast.Node) bool {
					if cv, ok := m.(*ast.CallExpr); ok && len(cv.Args) == 1 {
						if tv, ok := einfo.Types[cv.Fun]; ok && tv.IsType() {
							if b, ok := tv.Type.Underlying().(*types.Basic); ok && (b.Kind() == types.Int32 || b.Kind() == types.Int16 || b.Kind() == types.Int8 || b.Kind() == types.Uint8 || b.Kind() == types.Uint16 || b.Kind() == types.Uint32) {
								w := map[types.BasicKind]int64{types.Int32: math.MaxInt32, types.Int16: math.MaxInt16, types.Int8: math.MaxInt8, types.Uint8: math.MaxUint8, types.Uint16: math.MaxUint16, types.Uint32: math.MaxUint32}[b.Kind()]
								if !ivIntersect(pth.Set, ivSet{{w + 1, math.MaxInt64}}).empty() {
									bad = "the value is narrowed to " + b.Name() + " before it is printed, and the class holds values beyond it"
								}
							}
						}
					}
					return true
				})
				r.Check(bad == "", "C15.hexa", c, pos, "decimal text, read back by the base-10 branch", bad)
				continue
			}
		}
		// prefix + magnitude
		if be, ok := ret.(*ast.BinaryExpr); ok && be.Op == token.ADD {
			if tv, ok := einfo.Types[be.X]; ok && tv.Value != nil && tv.Value.Kind() == constant.String && len(constant.StringVal(tv.Value)) == 1 {
				if call := samePkgCall(einfo, be.Y, enc.Obj.Pkg()); call != nil && len(call.Args) == 1 {
					prefix := constant.StringVal(tv.Value)
					arg := ast.Unparen(stripConvs(einfo, expandLocalsPath(einfo, pth, call.Args[0])))
					neg := false
					if u, ok := arg.(*ast.UnaryExpr); ok && u.Op == token.SUB {
						neg = true
						arg = ast.Unparen(stripConvs(einfo, u.X))
					}
					id, isId := arg.(*ast.Ident)
					if !isId || einfo.ObjectOf(id) != nobj {
						r.Undec("C15.hexa", c, pos, "magnitude argument `"+types.ExprString(call.Args[0])+"` is neither the value nor its negation")
						continue
					}
					bad := ""
					// which sign the digit writer wants its argument in: the one that negates its parameter
					// before it takes digits wants the magnitude itself (>= 0); the one that takes the digits
					// of the negated remainder of its parameter as it stands wants the magnitude negated (<= 0,
					// so that the most negative number fits)
					wantsNegated := digitWriterWantsNegated(p, calleeFunc(einfo, call))
					classNeg := neg != wantsNegated // the sign of the values this form is written for
					if classNeg && !ivIntersect(pth.Set, ivSet{{0, math.MaxInt64}}).empty() {
						bad = "the magnitude form for negative values (`" + types.ExprString(call.Args[0]) + "`) is used for a class that holds non-negative values"
					}
					if !classNeg && !ivIntersect(pth.Set, ivSet{{math.MinInt64, -1}}).empty() {
						bad = "the magnitude form for non-negative values (`" + types.ExprString(call.Args[0]) + "`) is used for a class that holds negative values"
					}
					if neg && pth.Set.contains(math.MinInt64) {
						bad = "-num overflows for the most negative value, which is in this class"
					}
					ks, shown := kindsFor(int64(prefix[0]))
					want := dPos
					if classNeg {
						want = dNeg
					}
					if bad == "" {
						switch {
						case ks[dOther]:
							r.Undec("C15.hexa", c, pos, "decoder branch for prefix "+strconv.Quote(prefix)+" returns `"+shown+"`, not understood")
							continue
						case !ks[want] || ks[dDec] || (want == dPos && ks[dNeg]) || (want == dNeg && ks[dPos]):
							bad = fmt.Sprintf("prefix %q is written for %s values, but the decoder's branch for it does not return the %s magnitude of the rest", prefix, map[bool]string{true: "negative", false: "non-negative"}[classNeg], map[bool]string{true: "negated", false: "plain"}[classNeg])
						}
					}
					r.Check(bad == "", "C15.hexa", c, pos, fmt.Sprintf("prefix %q + base-32 magnitude, read back by the matching branch", prefix), bad)
					continue
				}
			}
		}
		// table of texts indexed by the value
		if ix, ok := ret.(*ast.IndexExpr); ok {
			if id, ok := ast.Unparen(ix.X).(*ast.Ident); ok {
				if v, ok := einfo.ObjectOf(id).(*types.Var); ok && v.Pkg() != nil && v.Parent() == v.Pkg().Scope() {
					idx := ast.Unparen(stripConvs(einfo, ix.Index))
					iid, isId := idx.(*ast.Ident)
					ce := &constEvaluator{p: p}
					val, okv := ce.evalPkgVar(enc, v)
					if isId && einfo.ObjectOf(iid) == nobj && okv && val.k == 'S' {
						bad := ""
						cnt := 0
						for _, iv := range pth.Set {
							for x := iv.lo; x <= iv.hi && cnt < 100000; x++ {
								cnt++
								if x < 0 || x >= int64(len(val.strs)) {
									bad = fmt.Sprintf("index %d is outside the table of %d texts", x, len(val.strs))
									break
								}
								got, why := decodeText(val.strs[x])
								if why != "" || got != x {
									bad = fmt.Sprintf("the value %d is rendered as %q (from the table `%s`), which the decoder reads as %d %s", x, val.strs[x], id.Name, got, why)
									break
								}
							}
							if bad != "" {
								break
							}
						}
						r.Check(bad == "", "C15.hexa", c, pos, fmt.Sprintf("%d table texts read back as their index", cnt), bad)
						continue
					}
				}
			}
		}
		r.Undec("C15.hexa", c, pos, "returned text `"+strings.TrimSpace(pth.RetS)+"` is none of: prefix + magnitude, decimal, constant, table of texts")
	}
	if n == 0 {
		r.Undec("C15.hexa", "util/hexa32 forms: encoder", epos, "no value class of ToString32 returns a text")
	}
}

// specialCompared: does the decoder (or a same-package helper it calls) compare its input with sv?
func specialCompared(p *core.Program, dec *core.FuncInfo, sv string) bool {
	found := false
	seen := map[*core.FuncInfo]bool{}
	var scan func(f *core.FuncInfo, depth int)
	scan = func(f *core.FuncInfo, depth int) {
		if seen[f] || depth > 2 || f.Decl.Body == nil {
			return
		}
		seen[f] = true
		finfo := f.Pkg.TypesInfo
		isSv := func(e ast.Expr) bool {
			tv, ok := finfo.Types[e]
			return ok && tv.Value != nil && tv.Value.Kind() == constant.String && constant.StringVal(tv.Value) == sv
		}
		ast.Inspect(f.Decl.Body, func(n ast.Node) bool {
			switch v := n.(type) {
			case *ast.BinaryExpr:
				if (v.Op == token.EQL || v.Op == token.NEQ) && (isSv(v.X) || isSv(v.Y)) {
					found = true
				}
			case *ast.CaseClause:
				for _, ce := range v.List {
					if isSv(ce) {
						found = true
					}
				}
			case *ast.CallExpr:
				if fn := calleeFunc(finfo, v); fn != nil && fn.Pkg() == f.Obj.Pkg() {
					if cf := p.FuncOf(fn); cf != nil {
						scan(cf, depth+1)
					}
				}
			}
			return true
		})
	}
	scan(dec, 0)
	return found
}

// expandLocalsPath substitutes a local by its last definition among the simple statements of the path.
func expandLocalsPath(info *types.Info, pth *cePath, e ast.Expr) ast.Expr {
	for depth := 0; depth < 4; depth++ {
		id, ok := ast.Unparen(stripConvs(info, e)).(*ast.Ident)
		if !ok {
			return e
		}
		obj := info.ObjectOf(id)
		var def ast.Expr
		for _, s := range pth.Stmts {
			if as, ok := s.(*ast.AssignStmt); ok && len(as.Lhs) == len(as.Rhs) {
				for j, l := range as.Lhs {
					if lid, ok := l.(*ast.Ident); ok && info.ObjectOf(lid) == obj {
						def = as.Rhs[j]
					}
				}
			}
		}
		if def == nil {
			return e
		}
		e = def
	}
	return e
}


// digitWriterWantsNegated: the digit writer takes digits as -(x % radix) of its parameter x as it
// stands (x <= 0 expected) rather than negating x first (x >= 0 expected).
func digitWriterWantsNegated(p *core.Program, fn *types.Func) bool {
	cf := p.FuncOf(fn)
	if cf == nil || cf.Decl.Body == nil || cf.Decl.Type.Params.NumFields() == 0 {
		return false
	}
	info := cf.Pkg.TypesInfo
	var param types.Object
	for _, f := range cf.Decl.Type.Params.List {
		for _, n := range f.Names {
			if param == nil {
				param = info.Defs[n]
			}
		}
	}
	if param == nil {
		return false
	}
	isParam := func(e ast.Expr) bool {
		id, ok := ast.Unparen(e).(*ast.Ident)
		return ok && info.ObjectOf(id) == param
	}
	negatesFirst, minusOfParam := false, false
	ast.Inspect(cf.Decl.Body, func(n ast.Node) bool {
		switch v := n.(type) {
		case *ast.AssignStmt:
			if len(v.Lhs) == 1 && len(v.Rhs) == 1 && isParam(v.Lhs[0]) {
				if u, ok := ast.Unparen(v.Rhs[0]).(*ast.UnaryExpr); ok && u.Op == token.SUB && isParam(u.X) {
					negatesFirst = true
				}
			}
		case *ast.CallExpr:
			// the parameter handed on negated to a function of the module
			if fn := calleeFunc(info, v); fn != nil && p.FuncOf(fn) != nil {
				for _, a := range v.Args {
					if u, ok := ast.Unparen(a).(*ast.UnaryExpr); ok && u.Op == token.SUB && isParam(u.X) {
						negatesFirst = true
					}
				}
			}
		case *ast.UnaryExpr:
			if v.Op == token.SUB {
				ast.Inspect(v.X, func(m ast.Node) bool {
					if id, ok := m.(*ast.Ident); ok && info.ObjectOf(id) == param {
						minusOfParam = true
					}
					return true
				})
			}
		}
		return true
	})
	return !negatesFirst && minusOfParam
}
