package props

import (
	"fmt"
	"go/ast"
	"go/token"
	"go/types"

	"golibcheck/internal/core"
	"golibcheck/internal/paths"
)

// Shared normalisation used by the path rules so that they state facts about behaviour rather than
// about spelling:
//   * inliner: an unexported helper of the same package (extracted method, boolean predicate) is
//     judged as if its body were written at the call site, parameters replaced by the arguments;
//   * condKey / cc: comparisons are recorded in one canonical spelling (constants right, variable
//     pairs in lexical order, operators >, >=, == only; `x <= c` is `x > c` with the opposite outcome).

type inliner struct {
	p    *core.Program
	fi   *core.FuncInfo
	skip func(fn *types.Func) bool // callees that are events of the rule themselves
	body map[*ast.CallExpr]*ast.BlockStmt
	exp  map[ast.Expr]ast.Expr
}

func newInliner(p *core.Program, fi *core.FuncInfo, skip func(fn *types.Func) bool) *inliner {
	return &inliner{p: p, fi: fi, skip: skip, body: map[*ast.CallExpr]*ast.BlockStmt{}, exp: map[ast.Expr]ast.Expr{}}
}

// callee resolves an inlinable call: unexported function or method of the same package with a body,
// fixed arity, not the function under analysis itself.
func (in *inliner) callee(call *ast.CallExpr) (*core.FuncInfo, map[types.Object]ast.Expr) {
	info := in.fi.Pkg.TypesInfo
	var id *ast.Ident
	var recvExpr ast.Expr
	switch f := ast.Unparen(call.Fun).(type) {
	case *ast.Ident:
		id = f
	case *ast.SelectorExpr:
		id, recvExpr = f.Sel, f.X
	}
	if id == nil {
		return nil, nil
	}
	fn, _ := info.Uses[id].(*types.Func)
	if fn == nil || fn.Exported() || fn.Pkg() == nil || fn.Pkg() != in.fi.Obj.Pkg() || fn == in.fi.Obj {
		return nil, nil
	}
	if in.skip != nil && in.skip(fn) {
		return nil, nil
	}
	sig := fn.Type().(*types.Signature)
	if sig.Variadic() || sig.Params().Len() != len(call.Args) {
		return nil, nil
	}
	cfi := in.p.FuncOf(fn)
	if cfi == nil || cfi.Decl.Body == nil {
		return nil, nil
	}
	repl := map[types.Object]ast.Expr{}
	i := 0
	for _, f := range cfi.Decl.Type.Params.List {
		for _, n := range f.Names {
			if obj := info.Defs[n]; obj != nil {
				repl[obj] = call.Args[i]
			}
			i++
		}
		if len(f.Names) == 0 {
			i++
		}
	}
	if sig.Recv() != nil {
		if recvExpr == nil {
			return nil, nil
		}
		if cfi.Decl.Recv != nil && len(cfi.Decl.Recv.List) == 1 && len(cfi.Decl.Recv.List[0].Names) == 1 {
			if obj := info.Defs[cfi.Decl.Recv.List[0].Names[0]]; obj != nil {
				repl[obj] = recvExpr
			}
		}
	}
	// a parameter that the helper assigns to cannot be replaced by an expression
	bad := false
	ast.Inspect(cfi.Decl.Body, func(n ast.Node) bool {
		switch v := n.(type) {
		case *ast.AssignStmt:
			for _, l := range v.Lhs {
				if lid, ok := l.(*ast.Ident); ok {
					if _, isParam := repl[info.ObjectOf(lid)]; isParam {
						bad = true
					}
				}
			}
		case *ast.IncDecStmt:
			if lid, ok := v.X.(*ast.Ident); ok {
				if _, isParam := repl[info.ObjectOf(lid)]; isParam {
					bad = true
				}
			}
		case *ast.UnaryExpr:
			if v.Op == token.AND {
				if lid, ok := v.X.(*ast.Ident); ok {
					if _, isParam := repl[info.ObjectOf(lid)]; isParam {
						bad = true
					}
				}
			}
		}
		return true
	})
	if bad {
		return nil, nil
	}
	return cfi, repl
}

// Body: the helper's body with parameters replaced by the call's arguments (nil: not inlinable).
func (in *inliner) Body(call *ast.CallExpr) *ast.BlockStmt {
	if b, ok := in.body[call]; ok {
		return b
	}
	var out *ast.BlockStmt
	if cfi, repl := in.callee(call); cfi != nil {
		out, _ = paths.Subst(in.fi.Pkg.TypesInfo, cfi.Decl.Body, repl).(*ast.BlockStmt)
	}
	in.body[call] = out
	return out
}

// Inlinable reports whether the call is followed by Body.
func (in *inliner) Inlinable(call *ast.CallExpr) bool { return in.Body(call) != nil }

// Expand replaces, inside a condition, calls of helpers whose body is a single `return <expr>` by
// that expression.
func (in *inliner) Expand(cond ast.Expr) ast.Expr {
	if r, ok := in.exp[cond]; ok {
		return r
	}
	out := in.expand(cond, 0)
	in.exp[cond] = out
	return out
}

func (in *inliner) expand(e ast.Expr, depth int) ast.Expr {
	if depth > 3 || e == nil {
		return e
	}
	info := in.fi.Pkg.TypesInfo
	switch v := e.(type) {
	case *ast.ParenExpr:
		if x := in.expand(v.X, depth); x != v.X {
			n := &ast.ParenExpr{Lparen: v.Lparen, X: x, Rparen: v.Rparen}
			info.Types[n] = info.Types[v]
			return n
		}
	case *ast.UnaryExpr:
		if x := in.expand(v.X, depth); x != v.X {
			n := &ast.UnaryExpr{OpPos: v.OpPos, Op: v.Op, X: x}
			info.Types[n] = info.Types[v]
			return n
		}
	case *ast.BinaryExpr:
		x, y := in.expand(v.X, depth), in.expand(v.Y, depth)
		if x != v.X || y != v.Y {
			n := &ast.BinaryExpr{X: x, OpPos: v.OpPos, Op: v.Op, Y: y}
			info.Types[n] = info.Types[v]
			return n
		}
	case *ast.CallExpr:
		if cfi, repl := in.callee(v); cfi != nil && len(cfi.Decl.Body.List) == 1 {
			if rs, ok := cfi.Decl.Body.List[0].(*ast.ReturnStmt); ok && len(rs.Results) == 1 {
				sub, _ := paths.Subst(info, rs.Results[0], repl).(ast.Expr)
				sub = in.expand(sub, depth+1)
				n := &ast.ParenExpr{Lparen: v.Pos(), X: sub, Rparen: v.End()}
				info.Types[n] = info.Types[v]
				return n
			}
		}
	}
	return e
}

// condKey records the outcome of a condition in canonical spelling: "<l><op><r>=<bool>" for
// comparisons (see cc), norm(cond)=<bool> otherwise.
func condKey(info *types.Info, norm func(ast.Expr) string, cond ast.Expr, val bool) string {
	be, ok := ast.Unparen(cond).(*ast.BinaryExpr)
	if ok {
		switch be.Op {
		case token.LSS, token.LEQ, token.GTR, token.GEQ, token.EQL, token.NEQ:
			isConst := func(e ast.Expr) bool {
				if id, ok := ast.Unparen(e).(*ast.Ident); ok && id.Name == "nil" {
					return true
				}
				tv, ok := info.Types[e]
				return ok && tv.Value != nil
			}
			xs, ys := norm(be.X), norm(be.Y)
			op := be.Op
			if (isConst(be.X) && !isConst(be.Y)) || (!isConst(be.X) && !isConst(be.Y) && xs > ys) {
				xs, ys = ys, xs
				op = flipOp(op)
			}
			switch op {
			case token.LSS:
				op, val = token.GEQ, !val
			case token.LEQ:
				op, val = token.GTR, !val
			case token.NEQ:
				op, val = token.EQL, !val
			}
			return fmt.Sprintf("%s%s%s=%v", xs, op.String(), ys, val)
		}
	}
	return fmt.Sprintf("%s=%v", norm(cond), val)
}
