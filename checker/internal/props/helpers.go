package props

import (
	"fmt"
	"go/ast"
	"go/constant"
	"go/token"
	"go/types"
	"strings"

	"golibcheck/internal/core"
	"golibcheck/internal/paths"
)

// Shared normalisation used by the path rules so that they state facts about behaviour rather than
// about spelling:
//   * inliner: an unexported helper of the same package (extracted method, boolean predicate) is
//     judged as if its body were written at the call site, parameters replaced by the arguments;
//   * condKey / cc: comparisons are recorded in one canonical spelling (constants right, variable
//     pairs in lexical order, operators >, >=, == only; `x <= c` is `x > c` with the opposite outcome).

type inliner struct {
	p       *core.Program
	fi      *core.FuncInfo
	skip    func(fn *types.Func) bool // callees that are events of the rule themselves
	body    map[*ast.CallExpr]*ast.BlockStmt
	exp     map[ast.Expr]ast.Expr
	asValue bool
	// hoistEffects: an argument that is a call (not a conversion or a builtin) is evaluated once,
	// before the helper's body, into a temporary the parameter then stands for — as the language does —
	// instead of being copied to every use of the parameter (where it would seem to run under the
	// helper's conditions, or twice)
	hoistEffects bool
	nTemp        int
	hoisted      map[*ast.CallExpr]bool // argument calls that were moved in front of a followed helper's body
}

func newInliner(p *core.Program, fi *core.FuncInfo, skip func(fn *types.Func) bool) *inliner {
	return &inliner{p: p, fi: fi, skip: skip, body: map[*ast.CallExpr]*ast.BlockStmt{}, exp: map[ast.Expr]ast.Expr{}}
}

// callee resolves an inlinable call: unexported function or method of the same package with a body,
// fixed arity, not the function under analysis itself.
func (in *inliner) callee(call *ast.CallExpr) (*core.FuncInfo, map[types.Object]ast.Expr) {
	info := in.fi.Pkg.TypesInfo
	var id *ast.Ident
	var recvExpr ast.Expr
	switch f := ast.Unparen(call.Fun).(type) {
	case *ast.Ident:
		id = f
	case *ast.SelectorExpr:
		id, recvExpr = f.Sel, f.X
	}
	if id == nil {
		return nil, nil
	}
	fn, _ := info.Uses[id].(*types.Func)
	if fn == nil || fn.Exported() || fn.Pkg() == nil || fn.Pkg() != in.fi.Obj.Pkg() || fn == in.fi.Obj {
		return nil, nil
	}
	if in.skip != nil && in.skip(fn) {
		return nil, nil
	}
	sig := fn.Type().(*types.Signature)
	if sig.Variadic() || sig.Params().Len() != len(call.Args) {
		return nil, nil
	}
	cfi := in.p.FuncOf(fn)
	if cfi == nil || cfi.Decl.Body == nil {
		return nil, nil
	}
	repl := map[types.Object]ast.Expr{}
	i := 0
	for _, f := range cfi.Decl.Type.Params.List {
		for _, n := range f.Names {
			if obj := info.Defs[n]; obj != nil {
				repl[obj] = call.Args[i]
			}
			i++
		}
		if len(f.Names) == 0 {
			i++
		}
	}
	if sig.Recv() != nil {
		if recvExpr == nil {
			return nil, nil
		}
		if cfi.Decl.Recv != nil && len(cfi.Decl.Recv.List) == 1 && len(cfi.Decl.Recv.List[0].Names) == 1 {
			if obj := info.Defs[cfi.Decl.Recv.List[0].Names[0]]; obj != nil {
				repl[obj] = recvExpr
			}
		}
	}
	// a parameter that the helper assigns to cannot be replaced by an expression
	bad := false
	ast.Inspect(cfi.Decl.Body, func(n ast.Node) bool {
		switch v := n.(type) {
		case *ast.AssignStmt:
			for _, l := range v.Lhs {
				if lid, ok := l.(*ast.Ident); ok {
					if _, isParam := repl[info.ObjectOf(lid)]; isParam {
						bad = true
					}
				}
			}
		case *ast.IncDecStmt:
			if lid, ok := v.X.(*ast.Ident); ok {
				if _, isParam := repl[info.ObjectOf(lid)]; isParam {
					bad = true
				}
			}
		case *ast.UnaryExpr:
			if v.Op == token.AND {
				if lid, ok := v.X.(*ast.Ident); ok {
					if _, isParam := repl[info.ObjectOf(lid)]; isParam {
						bad = true
					}
				}
			}
		}
		return true
	})
	if bad {
		return nil, nil
	}
	return cfi, repl
}

// Body: the helper's body with parameters replaced by the call's arguments (nil: not inlinable).
func (in *inliner) Body(call *ast.CallExpr) *ast.BlockStmt {
	if b, ok := in.body[call]; ok {
		return b
	}
	var out *ast.BlockStmt
	if cfi, repl := in.callee(call); cfi != nil {
		// an argument that is itself a followed helper building a value (`send(newBatch(n, b))`,
		// the helper's only return being its last statement): the builder's statements run first,
		// the parameter stands for what it returns
		var prefix []ast.Stmt
		i := 0
		info := in.fi.Pkg.TypesInfo
		for _, f := range cfi.Decl.Type.Params.List {
			for _, n := range f.Names {
				if i < len(call.Args) {
					if ac, ok := ast.Unparen(call.Args[i]).(*ast.CallExpr); ok {
						if stmts, ret := in.valueBody(ac); ret != nil {
							prefix = append(prefix, stmts...)
							if obj := info.Defs[n]; obj != nil {
								repl[obj] = ret
							}
							in.body[ac] = nil
						} else if in.hoistEffects {
							pure := false
							if tv, ok := info.Types[ac.Fun]; ok && tv.IsType() {
								pure = true
							}
							if fid, ok := ac.Fun.(*ast.Ident); ok {
								if _, isB := info.Uses[fid].(*types.Builtin); isB {
									pure = true
								}
							}
							if obj := info.Defs[n]; obj != nil && !pure {
								in.nTemp++
								tmp := ast.NewIdent(fmt.Sprintf("zzarg%d", in.nTemp))
								prefix = append(prefix, &ast.AssignStmt{Lhs: []ast.Expr{tmp}, Tok: token.DEFINE, TokPos: ac.Pos(), Rhs: []ast.Expr{ac}})
								repl[obj] = tmp
								if in.hoisted == nil {
									in.hoisted = map[*ast.CallExpr]bool{}
								}
								in.hoisted[ac] = true
							}
						}
					}
				}
				i++
			}
			if len(f.Names) == 0 {
				i++
			}
		}
		out, _ = paths.Subst(info, cfi.Decl.Body, repl).(*ast.BlockStmt)
		if out != nil && len(prefix) > 0 {
			out = &ast.BlockStmt{Lbrace: out.Lbrace, List: append(prefix, out.List...), Rbrace: out.Rbrace}
		}
		if out != nil {
			out = in.foldDescriptors(out)
		}
	}
	in.body[call] = out
	return out
}

// foldDescriptors: `ln := this.lane(second)` at the top of a followed body, where the helper returns
// a record literal (the one its constant arguments select), is taken out and every ln.f reads as the
// expression the record holds for f. A helper that bundles pointers to the fields of one of two
// queues is then judged like the code that names those fields directly.
func (in *inliner) foldDescriptors(body *ast.BlockStmt) *ast.BlockStmt {
	info := in.fi.Pkg.TypesInfo
	for i, st := range body.List {
		as, ok := st.(*ast.AssignStmt)
		if !ok || as.Tok != token.DEFINE || len(as.Lhs) != 1 || len(as.Rhs) != 1 {
			continue
		}
		id, ok := as.Lhs[0].(*ast.Ident)
		if !ok {
			continue
		}
		call, ok := ast.Unparen(as.Rhs[0]).(*ast.CallExpr)
		if !ok {
			continue
		}
		obj := info.ObjectOf(id)
		fields := in.descriptorOf(call)
		if fields == nil || obj == nil {
			continue
		}
		// the local must only ever be selected from
		okUse := true
		rest := &ast.BlockStmt{Lbrace: body.Lbrace, List: append(append([]ast.Stmt{}, body.List[:i]...), body.List[i+1:]...), Rbrace: body.Rbrace}
		var stack []ast.Node
		ast.Inspect(rest, func(n ast.Node) bool {
			if n == nil {
				stack = stack[:len(stack)-1]
				return true
			}
			stack = append(stack, n)
			if x, ok := n.(*ast.Ident); ok && info.ObjectOf(x) == obj {
				if len(stack) < 2 {
					okUse = false
				} else if sel, ok := stack[len(stack)-2].(*ast.SelectorExpr); !ok || sel.X != ast.Expr(x) {
					okUse = false
				} else if _, has := fields[sel.Sel.Name]; !has {
					okUse = false
				}
			}
			return true
		})
		if !okUse {
			continue
		}
		if nb, ok := paths.SubstFields(info, rest, map[types.Object]map[string]ast.Expr{obj: fields}).(*ast.BlockStmt); ok {
			return in.foldDescriptors(nb)
		}
	}
	return body
}

// descriptorOf: the fields of the record literal a followed helper returns for this call: its body is a
// chain of `if <condition that is a constant once the arguments are in place> { return T{...} }`
// ending in `return T{...}`.
func (in *inliner) descriptorOf(call *ast.CallExpr) map[string]ast.Expr {
	cfi, repl := in.callee(call)
	if cfi == nil {
		return nil
	}
	info := in.fi.Pkg.TypesInfo
	sub, _ := paths.Subst(info, cfi.Decl.Body, repl).(*ast.BlockStmt)
	if sub == nil {
		return nil
	}
	constBool := func(e ast.Expr) (bool, bool) {
		e = ast.Unparen(e)
		neg := false
		for {
			u, ok := e.(*ast.UnaryExpr)
			if !ok || u.Op != token.NOT {
				break
			}
			neg = !neg
			e = ast.Unparen(u.X)
		}
		if tv, ok := info.Types[e]; ok && tv.Value != nil && tv.Value.Kind() == constant.Bool {
			return constant.BoolVal(tv.Value) != neg, true
		}
		return false, false
	}
	var lit *ast.CompositeLit
	var pick func(list []ast.Stmt) bool // true: decided (lit set or failure)
	pick = func(list []ast.Stmt) bool {
		for _, st := range list {
			switch v := st.(type) {
			case *ast.ReturnStmt:
				if len(v.Results) == 1 {
					lit, _ = ast.Unparen(v.Results[0]).(*ast.CompositeLit)
					if u, ok := ast.Unparen(v.Results[0]).(*ast.UnaryExpr); ok && u.Op == token.AND {
						lit, _ = ast.Unparen(u.X).(*ast.CompositeLit)
					}
				}
				return true
			case *ast.IfStmt:
				if v.Init != nil {
					return true
				}
				b, known := constBool(v.Cond)
				if !known {
					return true
				}
				if b {
					if pick(v.Body.List) {
						return true
					}
				} else if v.Else != nil {
					if blk, ok := v.Else.(*ast.BlockStmt); ok {
						if pick(blk.List) {
							return true
						}
					} else if pick([]ast.Stmt{v.Else}) {
						return true
					}
				}
			default:
				return true
			}
		}
		return false
	}
	pick(sub.List)
	if lit == nil {
		return nil
	}
	st, ok := info.TypeOf(lit).Underlying().(*types.Struct)
	if !ok {
		return nil
	}
	fields := map[string]ast.Expr{}
	for i, el := range lit.Elts {
		if kv, ok := el.(*ast.KeyValueExpr); ok {
			if k, ok := kv.Key.(*ast.Ident); ok {
				fields[k.Name] = kv.Value
			}
		} else if i < st.NumFields() {
			fields[st.Field(i).Name()] = el
		}
	}
	if len(fields) == 0 {
		return nil
	}
	return fields
}

// valueBody: for a call of a followed helper whose body is `stmts...; return <expr>` (one result, no
// other return), the substituted statements and the returned expression.
func (in *inliner) valueBody(call *ast.CallExpr) ([]ast.Stmt, ast.Expr) {
	cfi, repl := in.callee(call)
	if cfi == nil || len(cfi.Decl.Body.List) < 2 {
		return nil, nil
	}
	list := cfi.Decl.Body.List
	last, ok := list[len(list)-1].(*ast.ReturnStmt)
	if !ok || len(last.Results) != 1 {
		return nil, nil
	}
	nret := 0
	ast.Inspect(cfi.Decl.Body, func(n ast.Node) bool {
		switch n.(type) {
		case *ast.ReturnStmt:
			nret++
		case *ast.FuncLit:
			return false
		}
		return true
	})
	if nret != 1 {
		return nil, nil
	}
	info := in.fi.Pkg.TypesInfo
	blk, _ := paths.Subst(info, &ast.BlockStmt{List: list[:len(list)-1]}, repl).(*ast.BlockStmt)
	ret, _ := paths.Subst(info, last.Results[0], repl).(ast.Expr)
	if blk == nil || ret == nil {
		return nil, nil
	}
	return blk.List, ret
}

// Inlinable reports whether the call is followed by Body.
func (in *inliner) Inlinable(call *ast.CallExpr) bool { return in.Body(call) != nil }

// Expand replaces, inside a condition, calls of helpers whose body is a single `return <expr>` by
// that expression.
func (in *inliner) Expand(cond ast.Expr) ast.Expr {
	if r, ok := in.exp[cond]; ok {
		return r
	}
	out := in.expand(cond, 0)
	in.exp[cond] = out
	return out
}

func (in *inliner) expand(e ast.Expr, depth int) ast.Expr {
	if depth > 3 || e == nil {
		return e
	}
	info := in.fi.Pkg.TypesInfo
	switch v := e.(type) {
	case *ast.Ident:
		// a boolean local holding a hoisted test (full := buf.Len() >= max) stands for that test,
		// provided nothing between its definition and this use can change what the test reads
		if d := in.boolLocalDef(v); d != nil {
			sub := in.expand(d, depth+1)
			n := &ast.ParenExpr{Lparen: v.Pos(), X: sub, Rparen: v.End()}
			info.Types[n] = info.Types[v]
			return n
		}
	case *ast.ParenExpr:
		if x := in.expand(v.X, depth); x != v.X {
			n := &ast.ParenExpr{Lparen: v.Lparen, X: x, Rparen: v.Rparen}
			info.Types[n] = info.Types[v]
			return n
		}
	case *ast.UnaryExpr:
		if x := in.expand(v.X, depth); x != v.X {
			n := &ast.UnaryExpr{OpPos: v.OpPos, Op: v.Op, X: x}
			info.Types[n] = info.Types[v]
			return n
		}
	case *ast.BinaryExpr:
		x, y := in.expand(v.X, depth), in.expand(v.Y, depth)
		if x != v.X || y != v.Y {
			n := &ast.BinaryExpr{X: x, OpPos: v.OpPos, Op: v.Op, Y: y}
			info.Types[n] = info.Types[v]
			return n
		}
	case *ast.CallExpr:
		if cfi, repl := in.callee(v); cfi != nil && len(cfi.Decl.Body.List) == 1 {
			if rs, ok := cfi.Decl.Body.List[0].(*ast.ReturnStmt); ok && len(rs.Results) == 1 {
				sub, _ := paths.Subst(info, rs.Results[0], repl).(ast.Expr)
				sub = in.expand(sub, depth+1)
				n := &ast.ParenExpr{Lparen: v.Pos(), X: sub, Rparen: v.End()}
				info.Types[n] = info.Types[v]
				return n
			}
		}
	}
	return e
}

// condKey records the outcome of a condition in canonical spelling: "<l><op><r>=<bool>" for
// comparisons (see cc), norm(cond)=<bool> otherwise.
func condKey(info *types.Info, norm func(ast.Expr) string, cond ast.Expr, val bool) string {
	be, ok := ast.Unparen(cond).(*ast.BinaryExpr)
	if ok {
		switch be.Op {
		case token.LSS, token.LEQ, token.GTR, token.GEQ, token.EQL, token.NEQ:
			isConst := func(e ast.Expr) bool {
				if id, ok := ast.Unparen(e).(*ast.Ident); ok && id.Name == "nil" {
					return true
				}
				tv, ok := info.Types[e]
				return ok && tv.Value != nil
			}
			xs, ys := norm(be.X), norm(be.Y)
			op := be.Op
			if (isConst(be.X) && !isConst(be.Y)) || (!isConst(be.X) && !isConst(be.Y) && xs > ys) {
				xs, ys = ys, xs
				op = flipOp(op)
			}
			switch op {
			case token.LSS:
				op, val = token.GEQ, !val
			case token.LEQ:
				op, val = token.GTR, !val
			case token.NEQ:
				op, val = token.EQL, !val
			}
			return fmt.Sprintf("%s%s%s=%v", xs, op.String(), ys, val)
		}
	}
	return fmt.Sprintf("%s=%v", norm(cond), val)
}

// boolLocalDef: the defining expression of a boolean local that is assigned exactly once, when no call
// statement and no assignment to a variable or field mentioned in that expression lies between the
// definition and the use (so the hoisted test still means the same at the use).
func (in *inliner) boolLocalDef(id *ast.Ident) ast.Expr {
	info := in.fi.Pkg.TypesInfo
	obj, ok := info.Uses[id].(*types.Var)
	if !ok || obj.IsField() || obj.Parent() == nil || obj.Parent() == obj.Pkg().Scope() {
		return nil
	}
	if b, ok := obj.Type().Underlying().(*types.Basic); !ok || b.Kind() != types.Bool {
		return nil
	}
	// a named result starts as false without a statement saying so: one assignment is its second value
	if isNamedResult(in.p, obj) {
		return nil
	}
	var def ast.Expr
	var defStmt ast.Stmt
	n := 0
	// the function itself, or the (parameter-substituted) body of a helper being followed: a flag of
	// an inlined helper is a local of that body
	root := in.fi.Decl.Body
	for _, b := range in.body {
		if b == nil {
			continue
		}
		owns := false
		ast.Inspect(b, func(m ast.Node) bool {
			if m == ast.Node(id) {
				owns = true
			}
			return !owns
		})
		if owns {
			root = b
		}
	}
	ast.Inspect(root, func(m ast.Node) bool {
		switch v := m.(type) {
		case *ast.AssignStmt:
			if len(v.Lhs) == len(v.Rhs) {
				for i, l := range v.Lhs {
					if lid, ok := l.(*ast.Ident); ok && info.ObjectOf(lid) == obj {
						def, defStmt = v.Rhs[i], v
						n++
					}
				}
			}
		case *ast.ValueSpec:
			for i, nm := range v.Names {
				if info.Defs[nm] == obj {
					n++
					if i < len(v.Values) {
						def = v.Values[i]
					} else {
						n++ // declared without a value and assigned later: not a single definition
					}
				}
			}
		}
		return true
	})
	if n != 1 || def == nil || defStmt == nil {
		return nil
	}
	if _, isCall := ast.Unparen(def).(*ast.CallExpr); isCall {
		// the result of a call is a value, not a re-evaluable test — unless the callee is a predicate
		// helper (one `return <test>`): then the local stands for that test like a hoisted one
		exp := in.expand(def, 2)
		if exp == def {
			return nil
		}
		def = exp
	}
	mentioned := map[string]bool{}
	ast.Inspect(def, func(m ast.Node) bool {
		switch v := m.(type) {
		case *ast.SelectorExpr:
			mentioned[types.ExprString(v)] = true
		case *ast.Ident:
			mentioned[v.Name] = true
		}
		return true
	})
	safe := true
	// a test over locals, parameters and constants only cannot be changed by calls
	localOnly := true
	ast.Inspect(def, func(m ast.Node) bool {
		switch m.(type) {
		case *ast.SelectorExpr, *ast.CallExpr, *ast.IndexExpr, *ast.StarExpr:
			localOnly = false
		}
		return true
	})
	// judge(s): a statement that executes completely between the definition and the use
	judge := func(s ast.Node) {
		ast.Inspect(s, func(m ast.Node) bool {
			switch v := m.(type) {
			case *ast.CallExpr:
				if localOnly {
					return true
				}
				if tv, ok := info.Types[v.Fun]; !ok || !tv.IsType() {
					if fid, isId := v.Fun.(*ast.Ident); !isId || (fid.Name != "len" && fid.Name != "cap") {
						safe = false
					}
				}
			case *ast.AssignStmt:
				for _, l := range v.Lhs {
					if mentioned[types.ExprString(ast.Unparen(l))] {
						safe = false
					}
				}
			case *ast.IncDecStmt:
				if mentioned[types.ExprString(ast.Unparen(v.X))] {
					safe = false
				}
			}
			return true
		})
	}
	// walk only the statements on the way to the use: siblings that precede it, not the other arms
	var walk func(list []ast.Stmt)
	contains := func(n ast.Node) bool { return n != nil && n.Pos() <= id.Pos() && id.End() <= n.End() }
	var descend func(s ast.Stmt)
	descend = func(s ast.Stmt) {
		switch v := s.(type) {
		case *ast.BlockStmt:
			walk(v.List)
		case *ast.IfStmt:
			if v.Init != nil && !contains(v.Init) {
				judge(v.Init)
			}
			switch {
			case contains(v.Cond):
			case contains(v.Body):
				walk(v.Body.List)
			case v.Else != nil && contains(v.Else):
				descend(v.Else)
			}
		case *ast.ForStmt:
			if contains(v.Body) {
				judge(v.Body) // earlier iterations
			}
		case *ast.RangeStmt:
			if contains(v.Body) {
				judge(v.Body)
			}
		case *ast.SwitchStmt:
			for _, cs := range v.Body.List {
				if cl := cs.(*ast.CaseClause); contains(cl) {
					walk(cl.Body)
				}
			}
		}
	}
	walk = func(list []ast.Stmt) {
		for _, s := range list {
			if contains(s) {
				descend(s)
				return
			}
			if s.Pos() > defStmt.End() {
				judge(s)
			} else if s != defStmt && s.Pos() <= defStmt.Pos() && defStmt.End() <= s.End() {
				// the definition is nested in an earlier statement: too far apart to reason about
				safe = false
			}
		}
	}
	walk(root.List)
	if !safe && !in.asValue {
		return nil
	}
	return def
}

// ExpandValue is Expand for a flag read as a VALUE: what the local was computed from, whatever
// happened since (the caller compares it with outcomes recorded when the flag was tested, not with a
// re-evaluation).
func (in *inliner) ExpandValue(e ast.Expr) ast.Expr {
	in.asValue = true
	defer func() { in.asValue = false }()
	return in.expand(e, 0)
}

// expandLocals returns e with every local that has exactly one definition in body replaced by that
// definition (repeatedly), so a rule sees `clz((h << k) | guard)` whether or not the sub-expressions
// were first put into temporaries.
func expandLocals(info *types.Info, body *ast.BlockStmt, e ast.Expr) ast.Expr {
	defs := map[types.Object]ast.Expr{}
	count := map[types.Object]int{}
	ast.Inspect(body, func(n ast.Node) bool {
		switch v := n.(type) {
		case *ast.AssignStmt:
			if len(v.Lhs) == len(v.Rhs) {
				for i, l := range v.Lhs {
					if id, ok := l.(*ast.Ident); ok {
						if obj := info.ObjectOf(id); obj != nil {
							count[obj]++
							defs[obj] = v.Rhs[i]
						}
					}
				}
			} else {
				for _, l := range v.Lhs {
					if id, ok := l.(*ast.Ident); ok {
						count[info.ObjectOf(id)] += 2
					}
				}
			}
		case *ast.ValueSpec:
			for i, nm := range v.Names {
				if obj := info.Defs[nm]; obj != nil {
					if i < len(v.Values) && len(v.Values) == len(v.Names) {
						count[obj]++
						defs[obj] = v.Values[i]
					} else if len(v.Values) > 0 {
						count[obj] += 2
					}
				}
			}
		case *ast.IncDecStmt:
			if id, ok := v.X.(*ast.Ident); ok {
				count[info.ObjectOf(id)] += 2
			}
		case *ast.RangeStmt:
			for _, x := range []ast.Expr{v.Key, v.Value} {
				if id, ok := x.(*ast.Ident); ok {
					count[info.ObjectOf(id)] += 2
				}
			}
		}
		return true
	})
	repl := map[types.Object]ast.Expr{}
	for o, n := range count {
		if n == 1 && o != nil {
			if _, isCall := ast.Unparen(defs[o]).(*ast.CallExpr); isCall {
				if tv, ok := info.Types[ast.Unparen(defs[o]).(*ast.CallExpr).Fun]; !ok || !tv.IsType() {
					continue // results of calls are values, not re-evaluable expressions
				}
			}
			repl[o] = defs[o]
		}
	}
	for i := 0; i < 4; i++ {
		ne, _ := paths.Subst(info, e, repl).(ast.Expr)
		if ne == e {
			break
		}
		e = ne
	}
	return e
}

// inlineValue returns e with calls to unexported same-package helpers replaced by the value they
// return, when the helper is a chain of single-definition locals followed by one `return <expr>`
// (parameters and receiver replaced by the arguments). Applied repeatedly (depth 3).
func inlineValue(p *core.Program, fi *core.FuncInfo, e ast.Expr, depth int) ast.Expr {
	if depth > 3 || e == nil {
		return e
	}
	info := fi.Pkg.TypesInfo
	in := newInliner(p, fi, nil)
	e = expandLocals(info, fi.Decl.Body, e)
	call, ok := stripConvs(info, e).(*ast.CallExpr)
	if !ok {
		return e
	}
	cfi, repl := in.callee(call)
	if cfi == nil || len(cfi.Decl.Body.List) == 0 {
		return e
	}
	last, ok := cfi.Decl.Body.List[len(cfi.Decl.Body.List)-1].(*ast.ReturnStmt)
	if !ok || len(last.Results) != 1 {
		return e
	}
	for _, s := range cfi.Decl.Body.List[:len(cfi.Decl.Body.List)-1] {
		if as, isAs := s.(*ast.AssignStmt); !isAs || as.Tok != token.DEFINE {
			return e
		}
	}
	val := expandLocals(info, cfi.Decl.Body, last.Results[0])
	sub, _ := paths.Subst(info, val, repl).(ast.Expr)
	return inlineValue(p, fi, sub, depth+1)
}

// importQueueRules runs the request-queue rules (C11) on the single RequestQueue and files their
// verdicts under one rule of another property: the one-way client's queue mode and the log-sink
// sender both hand their records to that queue and wait on it with a timeout, so a queue that drops,
// reorders or never times out breaks them just the same.
func importQueueRules(p *core.Program, r *core.Report, rule string) {
	importQueueRulesSel(p, r, rule, []string{"C11.timeout", "C11.wait", "C11.capacity", "C11.signal", "C11.fifo"}, false)
}

// importQueueRulesSel: the selected C11 rules, on the single queue or on both queue types.
func importQueueRulesSel(p *core.Program, r *core.Report, rule string, which []string, both bool) {
	sub := core.NewReport("C11", r.Tier)
	sub.Config = r.Config
	runC11(p, sub)
	for _, ob := range sub.Obs {
		if strings.Contains(ob.Construct, "zzCanary") || !(strings.Contains(ob.Construct, "RequestQueue.") || (both && strings.Contains(ob.Construct, "RequestDoubleQueue."))) {
			continue
		}
		sel := false
		for _, w := range which {
			if strings.HasPrefix(ob.Rule, w) {
				sel = true
			}
		}
		if !sel {
			continue
		}
		c := strings.TrimPrefix(ob.Rule, "C11.") + ": " + ob.Construct
		switch ob.Verdict {
		case core.OK:
			r.OK(rule, c, ob.Pos, ob.Detail)
		case core.Violation:
			r.Viol(rule, c, ob.Pos, ob.Detail)
		case core.Undecided:
			r.Undec(rule, c, ob.Pos, ob.Detail)
		}
	}
}

// FixedList: the elements of `range <list>` when the list is an array/slice literal of expressions, or
// a call of an unexported helper whose body is one `return <such a literal>` (receiver and parameters
// replaced by the call's): lanes() returning [2]*L{this.queue1, this.queue2}.
func (in *inliner) FixedList(rs *ast.RangeStmt) []ast.Expr {
	info := in.fi.Pkg.TypesInfo
	x := ast.Unparen(rs.X)
	if call, ok := x.(*ast.CallExpr); ok {
		cfi, repl := in.callee(call)
		if cfi == nil || len(cfi.Decl.Body.List) != 1 {
			return nil
		}
		ret, ok := cfi.Decl.Body.List[0].(*ast.ReturnStmt)
		if !ok || len(ret.Results) != 1 {
			return nil
		}
		sub, _ := paths.Subst(info, ret.Results[0], repl).(ast.Expr)
		x = ast.Unparen(sub)
	}
	if id, ok := x.(*ast.Ident); ok {
		// a package-level table that is never written: var seps = [...]string{" ", ";"}
		if pv, ok := info.ObjectOf(id).(*types.Var); ok && pv.Pkg() != nil && pv.Parent() == pv.Pkg().Scope() {
			if lit, _ := (&strEval{p: in.p, info: info}).pkgVarInit(pv); lit != nil {
				x = lit
			}
		}
	}
	cl, ok := x.(*ast.CompositeLit)
	if !ok {
		return nil
	}
	switch info.TypeOf(cl).Underlying().(type) {
	case *types.Array, *types.Slice:
	default:
		return nil
	}
	var out []ast.Expr
	for _, el := range cl.Elts {
		if _, kv := el.(*ast.KeyValueExpr); kv {
			return nil
		}
		out = append(out, el)
	}
	return out
}

// defunctionalise rewrites the call of a function VALUE that a small selector function hands back,
//
//	return pick(k)(args...)        with   func pick(k int) func(...) R { if k out of range { return F0 }; return table[k] }
//
// into first-order statements with the same meaning: the body of pick with its parameter replaced by
// the argument and every `return F` turned into the application of F to args — a method expression
// (*T).M becomes args[0].M(rest), a function literal its own body with the parameters replaced, a
// look-up in a package-level table of such values a switch over the table's keys. nil: not of this shape.
func defunctionalise(p *core.Program, fi *core.FuncInfo, outer *ast.CallExpr) ast.Stmt {
	info := fi.Pkg.TypesInfo
	inner, ok := ast.Unparen(outer.Fun).(*ast.CallExpr)
	if !ok {
		return nil
	}
	fn := calleeFunc(info, inner)
	if fn == nil || fn.Pkg() != fi.Obj.Pkg() {
		return nil
	}
	cfi := p.FuncOf(fn)
	if cfi == nil || cfi.Decl.Body == nil || cfi.Decl.Recv != nil {
		return nil
	}
	repl := map[types.Object]ast.Expr{}
	i := 0
	for _, f := range cfi.Decl.Type.Params.List {
		for _, n := range f.Names {
			if i < len(inner.Args) {
				repl[info.Defs[n]] = inner.Args[i]
			}
			i++
		}
	}
	body, _ := paths.Subst(info, cfi.Decl.Body, repl).(*ast.BlockStmt)
	if body == nil {
		return nil
	}
	okAll := true
	var apply func(f ast.Expr, depth int) ast.Stmt
	apply = func(f ast.Expr, depth int) ast.Stmt {
		f = ast.Unparen(f)
		switch v := f.(type) {
		case *ast.FuncLit:
			r := map[types.Object]ast.Expr{}
			k := 0
			for _, pf := range v.Type.Params.List {
				if len(pf.Names) == 0 {
					k++
					continue
				}
				for _, n := range pf.Names {
					if k < len(outer.Args) && n.Name != "_" {
						r[info.Defs[n]] = outer.Args[k]
					}
					k++
				}
			}
			b, _ := paths.Subst(info, v.Body, r).(*ast.BlockStmt)
			if b == nil {
				b = v.Body
			}
			return b
		case *ast.SelectorExpr:
			// method expression (*T).M / T.M
			if tv, ok := info.Types[v.X]; ok && tv.IsType() && len(outer.Args) >= 1 {
				call := &ast.CallExpr{Fun: &ast.SelectorExpr{X: outer.Args[0], Sel: v.Sel}, Lparen: outer.Lparen, Args: outer.Args[1:], Rparen: outer.Rparen}
				if otv, ok := info.Types[outer]; ok {
					info.Types[call] = otv
				}
				return &ast.ReturnStmt{Return: outer.Pos(), Results: []ast.Expr{call}}
			}
		case *ast.Ident:
			if _, isFn := info.ObjectOf(v).(*types.Func); isFn {
				call := &ast.CallExpr{Fun: v, Lparen: outer.Lparen, Args: outer.Args, Rparen: outer.Rparen}
				if otv, ok := info.Types[outer]; ok {
					info.Types[call] = otv
				}
				return &ast.ReturnStmt{Return: outer.Pos(), Results: []ast.Expr{call}}
			}
		case *ast.IndexExpr:
			if depth > 1 {
				break
			}
			tid, ok := ast.Unparen(v.X).(*ast.Ident)
			if !ok {
				break
			}
			tv, _ := info.ObjectOf(tid).(*types.Var)
			if tv == nil || tv.Pkg() == nil || tv.Parent() != tv.Pkg().Scope() {
				break
			}
			lit, linfo := (&strEval{p: p, info: info}).pkgVarInit(tv)
			if lit == nil {
				break
			}
			sw := &ast.SwitchStmt{Switch: outer.Pos(), Tag: v.Index, Body: &ast.BlockStmt{}}
			for pos, el := range lit.Elts {
				var key ast.Expr
				val := el
				if kv, ok := el.(*ast.KeyValueExpr); ok {
					key, val = kv.Key, kv.Value
					if ktv, ok := linfo.Types[key]; ok {
						info.Types[key] = ktv
					}
				} else {
					bl := &ast.BasicLit{ValuePos: el.Pos(), Kind: token.INT, Value: fmt.Sprint(pos)}
					info.Types[bl] = types.TypeAndValue{Type: types.Typ[types.Int], Value: constant.MakeInt64(int64(pos))}
					key = bl
				}
				st := apply(val, depth+1)
				if st == nil {
					okAll = false
					return nil
				}
				sw.Body.List = append(sw.Body.List, &ast.CaseClause{Case: el.Pos(), List: []ast.Expr{key}, Body: []ast.Stmt{st}})
			}
			// a key that is not in the table: a nil function value (map) or an index out of range (array)
			pc := &ast.CallExpr{Fun: ast.NewIdent("panic"), Args: []ast.Expr{&ast.BasicLit{Kind: token.STRING, Value: `"no such entry"`}}}
			sw.Body.List = append(sw.Body.List, &ast.CaseClause{Case: outer.Pos(), Body: []ast.Stmt{&ast.ExprStmt{X: pc}}})
			return sw
		}
		okAll = false
		return nil
	}
	var rewrite func(list []ast.Stmt) []ast.Stmt
	rewrite = func(list []ast.Stmt) []ast.Stmt {
		out := make([]ast.Stmt, 0, len(list))
		for _, s := range list {
			switch v := s.(type) {
			case *ast.ReturnStmt:
				if len(v.Results) != 1 {
					okAll = false
					return nil
				}
				st := apply(v.Results[0], 0)
				if st == nil {
					okAll = false
					return nil
				}
				out = append(out, st)
			case *ast.IfStmt:
				n := &ast.IfStmt{If: v.If, Init: v.Init, Cond: v.Cond, Body: &ast.BlockStmt{List: rewrite(v.Body.List)}}
				switch e := v.Else.(type) {
				case *ast.BlockStmt:
					n.Else = &ast.BlockStmt{List: rewrite(e.List)}
				case *ast.IfStmt:
					r := rewrite([]ast.Stmt{e})
					if len(r) == 1 {
						n.Else = r[0]
					}
				}
				out = append(out, n)
			case *ast.BlockStmt:
				out = append(out, &ast.BlockStmt{List: rewrite(v.List)})
			case *ast.SwitchStmt:
				n := &ast.SwitchStmt{Switch: v.Switch, Init: v.Init, Tag: v.Tag, Body: &ast.BlockStmt{}}
				for _, cs := range v.Body.List {
					cl := cs.(*ast.CaseClause)
					n.Body.List = append(n.Body.List, &ast.CaseClause{Case: cl.Case, List: cl.List, Body: rewrite(cl.Body)})
				}
				out = append(out, n)
			default:
				out = append(out, s)
			}
		}
		return out
	}
	list := rewrite(body.List)
	if !okAll || list == nil {
		return nil
	}
	return &ast.BlockStmt{Lbrace: outer.Pos(), List: list, Rbrace: outer.End()}
}

// identOf: the identifier an expression is, or nil.
func identOf(e ast.Expr) *ast.Ident {
	id, _ := ast.Unparen(e).(*ast.Ident)
	return id
}

// curProg: the program of the current run (set by Normalize), for helpers that resolve calls without
// being handed a program.
var curProg *core.Program

// helperResults: for a call of a function of the same module whose body is straight-line assignments
// followed by one return (named results or not), the result expressions in the caller's terms:
// the helper's locals replaced by what they were computed from, its parameters by the arguments.
// nil when the callee is not of that shape.
func helperResults(p *core.Program, info *types.Info, call *ast.CallExpr) []ast.Expr {
	if p == nil {
		return nil
	}
	var id *ast.Ident
	switch f := ast.Unparen(call.Fun).(type) {
	case *ast.Ident:
		id = f
	case *ast.SelectorExpr:
		id = f.Sel
	}
	if id == nil {
		return nil
	}
	fn, _ := info.Uses[id].(*types.Func)
	if fn == nil {
		return nil
	}
	hf := p.FuncOf(fn)
	if hf == nil || hf.Decl.Body == nil || len(hf.Decl.Body.List) == 0 {
		return nil
	}
	sig := fn.Type().(*types.Signature)
	if sig.Variadic() || sig.Params().Len() != len(call.Args) {
		return nil
	}
	list := hf.Decl.Body.List
	last, ok := list[len(list)-1].(*ast.ReturnStmt)
	if !ok {
		return nil
	}
	hinfo := hf.Pkg.TypesInfo
	for _, st := range list[:len(list)-1] {
		switch v := st.(type) {
		case *ast.AssignStmt, *ast.DeclStmt:
		case *ast.IfStmt:
			// an early way out that returns constants only (`if os.IsNotExist(err) { return 0, false }`):
			// the results of interest are those of the final return
			okGuard := v.Else == nil && len(v.Body.List) == 1
			if okGuard {
				rs, isRet := v.Body.List[0].(*ast.ReturnStmt)
				okGuard = isRet
				if isRet {
					for _, re := range rs.Results {
						if tv, ok := hinfo.Types[re]; !ok || (tv.Value == nil && !tv.IsNil()) {
							okGuard = false
						}
					}
				}
			}
			if !okGuard {
				return nil
			}
		default:
			return nil
		}
	}
	var rets []ast.Expr
	if len(last.Results) == 0 {
		if hf.Decl.Type.Results == nil {
			return nil
		}
		for _, f := range hf.Decl.Type.Results.List {
			for _, n := range f.Names {
				rets = append(rets, n)
			}
		}
	} else {
		rets = last.Results
	}
	if len(rets) != sig.Results().Len() || len(rets) == 0 {
		return nil
	}
	repl := map[types.Object]ast.Expr{}
	i := 0
	for _, f := range hf.Decl.Type.Params.List {
		for _, n := range f.Names {
			if o := hinfo.Defs[n]; o != nil && i < len(call.Args) {
				repl[o] = call.Args[i]
			}
			i++
		}
	}
	var out []ast.Expr
	for _, re := range rets {
		ex := expandLocals(hinfo, hf.Decl.Body, re)
		sub, ok := paths.Subst(info, ex, repl).(ast.Expr)
		if !ok {
			return nil
		}
		out = append(out, sub)
	}
	return out
}


// isNamedResult: obj is a named result of some function of the module.
func isNamedResult(p *core.Program, obj types.Object) bool {
	if p == nil || obj == nil {
		return false
	}
	for _, fi := range p.Funcs {
		if fi.Pkg == nil || fi.Pkg.Types != obj.Pkg() || fi.Decl.Type.Results == nil {
			continue
		}
		if obj.Pos() < fi.Decl.Pos() || obj.Pos() > fi.Decl.End() {
			continue
		}
		for _, f := range fi.Decl.Type.Results.List {
			for _, n := range f.Names {
				if fi.Pkg.TypesInfo.Defs[n] == obj {
					return true
				}
			}
		}
	}
	return false
}

// tailInlined: fi with every `return helper(args)` whose callee is a function of the same package
// (and whose arguments are plain identifiers or constants) replaced by the helper's body, parameters
// and receiver replaced by the arguments — a tail call hands back exactly what the helper returns, so
// the merged body behaves as the original. Rules written over one function's body (a dispatcher split
// into `return in.readConn(sz)` / `return in.readBuffered(sz)`) read the merged body. Returns fi itself
// when there is nothing to merge.
func tailInlined(p *core.Program, fi *core.FuncInfo, depth int) *core.FuncInfo {
	if fi == nil || fi.Decl.Body == nil || depth > 2 {
		return fi
	}
	info := fi.Pkg.TypesInfo
	changed := false
	var block func(b *ast.BlockStmt) *ast.BlockStmt
	var stmt func(s ast.Stmt) ast.Stmt
	stmt = func(s ast.Stmt) ast.Stmt {
		switch v := s.(type) {
		case *ast.BlockStmt:
			return block(v)
		case *ast.IfStmt:
			c := *v
			c.Body = block(v.Body)
			if v.Else != nil {
				c.Else = stmt(v.Else)
			}
			return &c
		case *ast.ReturnStmt:
			if len(v.Results) != 1 {
				return s
			}
			call, ok := ast.Unparen(v.Results[0]).(*ast.CallExpr)
			if !ok {
				return s
			}
			fn := calleeFunc(info, call)
			cf := p.FuncOf(fn)
			if cf == nil || cf.Decl.Body == nil || cf.Pkg != fi.Pkg || cf == fi {
				return s
			}
			repl := map[types.Object]ast.Expr{}
			i := 0
			for _, f := range cf.Decl.Type.Params.List {
				for _, n := range f.Names {
					if i >= len(call.Args) {
						return s
					}
					a := ast.Unparen(call.Args[i])
					if _, isId := a.(*ast.Ident); !isId {
						if tv, ok := info.Types[a]; !ok || tv.Value == nil {
							return s
						}
					}
					if o := cf.Pkg.TypesInfo.Defs[n]; o != nil {
						repl[o] = a
					}
					i++
				}
			}
			if cf.Decl.Recv != nil && len(cf.Decl.Recv.List) > 0 && len(cf.Decl.Recv.List[0].Names) > 0 {
				sel, ok := ast.Unparen(call.Fun).(*ast.SelectorExpr)
				if !ok {
					return s
				}
				rx, ok := ast.Unparen(sel.X).(*ast.Ident)
				if !ok {
					return s
				}
				if o := cf.Pkg.TypesInfo.Defs[cf.Decl.Recv.List[0].Names[0]]; o != nil {
					repl[o] = rx
				}
			}
			inner := tailInlined(p, cf, depth+1)
			body, _ := paths.Subst(cf.Pkg.TypesInfo, inner.Decl.Body, repl).(*ast.BlockStmt)
			if body == nil {
				return s
			}
			changed = true
			return body
		}
		return s
	}
	block = func(b *ast.BlockStmt) *ast.BlockStmt {
		if b == nil {
			return nil
		}
		nb := &ast.BlockStmt{Lbrace: b.Lbrace, Rbrace: b.Rbrace}
		for _, s := range b.List {
			ns := stmt(s)
			// a merged helper body at the end of a block is spliced in, so that what follows a guard
			// (`if tcp != nil { return readConn(sz) }; return readBuffered(sz)`) stays one statement list
			if bs, ok := ns.(*ast.BlockStmt); ok && ns != s {
				if _, wasRet := s.(*ast.ReturnStmt); wasRet {
					nb.List = append(nb.List, bs.List...)
					continue
				}
			}
			nb.List = append(nb.List, ns)
		}
		return nb
	}
	nb := block(fi.Decl.Body)
	if !changed {
		return fi
	}
	d := *fi.Decl
	d.Body = nb
	c := *fi
	c.Decl = &d
	return &c
}
