package props

import (
	"go/ast"
	"go/types"
	"strings"

	"golibcheck/internal/core"
)

// keepOrderRule: "the same elements in the same order". Every function of the given packages that
// takes or returns a list of the element interface (a slice of Pack, of Step) is a place where a
// sequence supplied by the caller is turned into bytes or back. None of them, and no helper of the
// same packages it hands the list to, may pass the list to a sorting, shuffling or reversing routine:
// position i of what comes out is then no longer what went in at position i. The list's own order is
// the only order the wire form has (there is no index on the wire to restore it from).
func keepOrderRule(p *core.Program, r *core.Report, rule string, pkgs []string, elem string) {
	isList := func(t types.Type) bool {
		sl, ok := t.Underlying().(*types.Slice)
		if !ok {
			return false
		}
		et := sl.Elem()
		if pt, ok := et.(*types.Pointer); ok {
			et = pt.Elem()
		}
		n, ok := et.(*types.Named)
		return ok && n.Obj().Name() == elem && n.Obj().Pkg() != nil && strings.HasPrefix(n.Obj().Pkg().Path(), core.ModPath)
	}
	inPkgs := func(fi *core.FuncInfo) bool {
		for _, rel := range pkgs {
			if fi.Pkg == p.Pkg(rel) {
				return true
			}
		}
		return false
	}
	for _, fi := range p.Funcs {
		if !inPkgs(fi) || fi.Decl.Body == nil {
			continue
		}
		sig := fi.Obj.Type().(*types.Signature)
		carries := false
		for i := 0; i < sig.Params().Len(); i++ {
			carries = carries || isList(sig.Params().At(i).Type())
		}
		for i := 0; i < sig.Results().Len(); i++ {
			carries = carries || isList(sig.Results().At(i).Type())
		}
		if !carries {
			continue
		}
		name := core.FuncName(fi.Obj)
		bad := ""
		seen := map[*core.FuncInfo]bool{}
		var scan func(f *core.FuncInfo, depth int)
		scan = func(f *core.FuncInfo, depth int) {
			if f == nil || f.Decl.Body == nil || seen[f] || depth > 3 {
				return
			}
			seen[f] = true
			info := f.Pkg.TypesInfo
			ast.Inspect(f.Decl.Body, func(n ast.Node) bool {
				call, ok := n.(*ast.CallExpr)
				if !ok {
					return true
				}
				listArg := false
				for _, a := range call.Args {
					if t := info.TypeOf(a); t != nil && isList(t) {
						listArg = true
					}
				}
				if !listArg {
					return true
				}
				if isSortCall(info, call) || isReorderCall(info, call) {
					bad = "the list is handed to " + types.ExprString(call.Fun) + " at " + p.Pos(call.Pos()) + ": the elements no longer travel in the order given"
					return true
				}
				if fn := calleeFunc(info, call); fn != nil {
					if cf := p.FuncOf(fn); cf != nil && inPkgs(cf) {
						scan(cf, depth+1)
					}
				}
				return true
			})
		}
		scan(fi, 0)
		r.Check(bad == "", rule, name, p.Pos(fi.Decl.Pos()), "the list is walked as given (no sort, shuffle or reverse)", bad)
	}
}

func isReorderCall(info *types.Info, call *ast.CallExpr) bool {
	fn := calleeFunc(info, call)
	if fn == nil || fn.Pkg() == nil {
		return false
	}
	switch fn.Pkg().Path() {
	case "slices":
		return fn.Name() == "Reverse"
	case "math/rand", "math/rand/v2":
		return fn.Name() == "Shuffle"
	}
	return false
}
