package props

import (
	"go/ast"
	"go/token"
	"go/types"

	"golibcheck/internal/core"
)

// selfLockRule: a binary operation of a type on a second value of the same type (merge, equals,
// compare) must come back when both operands are the same object. sync.Mutex and sync.RWMutex are
// not re-entrant: a method that takes the lock of its receiver and, while it holds it, the same lock
// field of another operand of the receiver's type never returns for x.op(x), unless it has ruled the
// two out as one object first. Decided per method from the resolved callees:
//   - lock calls are calls of (*sync.Mutex).Lock / (*sync.RWMutex).Lock / RLock on a field path of an
//     identifier; a method of the type whose body locks its receiver counts as a lock call on the
//     value it is called on (x.Size() while this is locked)
//   - the first lock is held at the second when no non-deferred Unlock of it lies between them
//   - an identity test between the two operands (this == that) anywhere before the second lock
//     discharges the pair
// A write lock and a read lock of one RWMutex exclude each other just the same; two read locks do not.
func selfLockRule(p *core.Program, r *core.Report, rule string, pkgs []string) {
	for _, rel := range pkgs {
		pk := p.Pkg(rel)
		if pk == nil {
			continue
		}
		// methods that take their receiver's lock: method -> (field, write?)
		type lk struct {
			field string
			write bool
		}
		locksRecv := map[*types.Func]lk{}
		mutexCall := func(info *types.Info, call *ast.CallExpr) (root *ast.Ident, field string, kind string) {
			sel, ok := ast.Unparen(call.Fun).(*ast.SelectorExpr)
			if !ok {
				return nil, "", ""
			}
			fn, _ := info.Uses[sel.Sel].(*types.Func)
			if fn == nil || fn.Pkg() == nil || fn.Pkg().Path() != "sync" {
				return nil, "", ""
			}
			switch fn.Name() {
			case "Lock", "RLock", "Unlock", "RUnlock":
			default:
				return nil, "", ""
			}
			// X.f or X (embedded mutex)
			path := ""
			x := ast.Unparen(sel.X)
			for {
				if s, ok := x.(*ast.SelectorExpr); ok {
					path = "." + s.Sel.Name + path
					x = ast.Unparen(s.X)
					continue
				}
				break
			}
			id, ok := x.(*ast.Ident)
			if !ok {
				return nil, "", ""
			}
			return id, path, fn.Name()
		}
		for _, fi := range p.Funcs {
			if fi.Pkg != pk || fi.Decl.Body == nil || fi.Decl.Recv == nil || len(fi.Decl.Recv.List) == 0 || len(fi.Decl.Recv.List[0].Names) == 0 {
				continue
			}
			recv := fi.Pkg.TypesInfo.Defs[fi.Decl.Recv.List[0].Names[0]]
			if recv == nil {
				continue
			}
			ast.Inspect(fi.Decl.Body, func(n ast.Node) bool {
				if _, ok := n.(*ast.FuncLit); ok {
					return false
				}
				if call, ok := n.(*ast.CallExpr); ok {
					if id, f, k := mutexCall(fi.Pkg.TypesInfo, call); id != nil && fi.Pkg.TypesInfo.Uses[id] == recv && (k == "Lock" || k == "RLock") {
						old := locksRecv[fi.Obj]
						locksRecv[fi.Obj] = lk{f, old.write || k == "Lock"}
					}
				}
				return true
			})
		}
		sameNamed := func(a, b types.Type) bool {
			na, nb := namedOf(a), namedOf(b)
			return na != nil && nb != nil && na.Obj() == nb.Obj()
		}
		for _, fi := range p.Funcs {
			if fi.Pkg != pk || fi.Decl.Body == nil || fi.Decl.Recv == nil || len(fi.Decl.Recv.List) == 0 || len(fi.Decl.Recv.List[0].Names) == 0 {
				continue
			}
			info := fi.Pkg.TypesInfo
			recv := info.Defs[fi.Decl.Recv.List[0].Names[0]]
			if recv == nil {
				continue
			}
			// is there another operand of the receiver's type at all (parameter, or a local obtained
			// from a parameter by a type assertion)?
			type ev struct {
				pos      token.Pos
				obj      types.Object
				field    string
				kind     string // Lock RLock Unlock RUnlock
				deferred bool
				via      string
			}
			var evs []ev
			var idTests []struct {
				pos  token.Pos
				a, b types.Object
			}
			var walk func(n ast.Node, deferred bool)
			walk = func(n ast.Node, deferred bool) {
				ast.Inspect(n, func(m ast.Node) bool {
					switch v := m.(type) {
					case *ast.FuncLit:
						return false
					case *ast.DeferStmt:
						if fl, ok := v.Call.Fun.(*ast.FuncLit); ok {
							walk(fl.Body, true)
						} else {
							walk(v.Call, true)
						}
						return false
					case *ast.BinaryExpr:
						if v.Op == token.EQL || v.Op == token.NEQ {
							ia, oka := ast.Unparen(v.X).(*ast.Ident)
							ib, okb := ast.Unparen(v.Y).(*ast.Ident)
							if oka && okb && info.Uses[ia] != nil && info.Uses[ib] != nil {
								idTests = append(idTests, struct {
									pos  token.Pos
									a, b types.Object
								}{v.Pos(), info.Uses[ia], info.Uses[ib]})
							}
						}
					case *ast.CallExpr:
						if id, f, k := mutexCall(info, v); id != nil {
							if o := info.Uses[id]; o != nil && sameNamed(o.Type(), recv.Type()) {
								evs = append(evs, ev{v.Pos(), o, f, k, deferred, ""})
							}
							return true
						}
						if sel, ok := ast.Unparen(v.Fun).(*ast.SelectorExpr); ok {
							if id, ok := ast.Unparen(sel.X).(*ast.Ident); ok {
								if fn, _ := info.Uses[sel.Sel].(*types.Func); fn != nil {
									if l, ok := locksRecv[fn]; ok {
										if o := info.Uses[id]; o != nil && sameNamed(o.Type(), recv.Type()) {
											k := "RLock"
											if l.write {
												k = "Lock"
											}
											evs = append(evs, ev{v.Pos(), o, l.field, k, deferred, fn.Name() + "()"})
										}
									}
								}
							}
						}
					}
					return true
				})
			}
			walk(fi.Decl.Body, false)
			name := core.FuncName(fi.Obj)
			bad := ""
			pairs := 0
			for i, a := range evs {
				if a.deferred || a.via != "" || (a.kind != "Lock" && a.kind != "RLock") {
					continue
				}
				for _, b := range evs[i+1:] {
					if b.deferred || (b.kind != "Lock" && b.kind != "RLock") || b.obj == a.obj || b.field != a.field {
						continue
					}
					if a.kind == "RLock" && b.kind == "RLock" {
						continue
					}
					// released in between?
					released := false
					for _, c := range evs {
						if !c.deferred && c.obj == a.obj && c.field == a.field && (c.kind == "Unlock" || c.kind == "RUnlock") && c.pos > a.pos && c.pos < b.pos {
							released = true
						}
					}
					if released {
						continue
					}
					pairs++
					ruledOut := false
					for _, t := range idTests {
						if t.pos < b.pos && ((t.a == a.obj && t.b == b.obj) || (t.a == b.obj && t.b == a.obj)) {
							ruledOut = true
						}
					}
					if !ruledOut {
						what := b.obj.Name() + b.field + "." + b.kind + "()"
						if b.via != "" {
							what = b.obj.Name() + "." + b.via + ", which locks " + b.obj.Name() + b.field
						}
						bad = "holds " + a.obj.Name() + a.field + " (" + p.Pos(a.pos) + ") and then takes " + what + " at " + p.Pos(b.pos) + " without having ruled out that " + a.obj.Name() + " and " + b.obj.Name() + " are one object: the lock is not re-entrant, so the operation on a value and itself never returns"
					}
				}
			}
			if pairs > 0 {
				r.Check(bad == "", rule, name, p.Pos(fi.Decl.Pos()), "both operands' locks taken only after an identity test", bad)
			}
		}
	}
}
