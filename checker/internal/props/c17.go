package props

import (
	"sort"
	"go/constant"
	"fmt"
	"go/ast"
	"go/token"
	"go/types"
	"os"
	"strings"

	"golibcheck/internal/core"
	"golibcheck/internal/paths"
)

// C17 — file logger keeps lines in order, rotates by date, prunes only its own files.
func init() { register(&Checker{ID: "C17", Canaries: c17Canaries, Run: runC17}) }

func c17Canaries() []core.Canary {
	return []core.Canary{{RelDir: "logger/logfile", Name: "c17", Src: `package logfile

import (
	"os"
	"path/filepath"
	"time"
)

// serves whatever path the caller names
func (this *FileLogger) zzCanaryRead(file string) *os.File {
	f, _ := os.Open(filepath.Join(this.conf.homePath, "logs", file))
	return f
}

// refreshes the timestamp even when suppressing
func (this *FileLogger) zzCanaryCheckOk(id string, sec int) bool {
	last := this.lastLog.Get(id)
	now := int64(0)
	this.lastLog.Put(id, now)
	if now < last+int64(sec)*1000 {
		return false
	}
	return true
}

// tells time by the system clock
func (this *FileLogger) zzCanaryClock() int64 { return time.Now().UnixMilli() }
`, Expect: []core.CanaryExpect{{Rule: "C17.read-path", Sub: "zzCanaryRead"}, {Rule: "C17.ratelimit", Sub: "zzCanaryCheckOk"}, {Rule: "C17.clock", Sub: "zzCanaryClock"}}}}
}

func logMethod(p *core.Program, name string) *core.FuncInfo {
	return p.Method("logger/logfile", "FileLogger", name)
}

// dominatingConds collects, for a node inside fn, the normalised conditions that must hold for it to
// execute: enclosing if-conditions (with polarity) and earlier `if c { continue|return }` guards in
// the enclosing blocks (function literals that are called in place are looked through).
func dominatingConds(fi *core.FuncInfo, target ast.Node, norm func(ast.Expr) string) []string {
	var pathTo []ast.Node
	var cur []ast.Node
	ast.Inspect(fi.Decl.Body, func(n ast.Node) bool {
		if n == nil {
			cur = cur[:len(cur)-1]
			return true
		}
		cur = append(cur, n)
		if n == target {
			pathTo = append([]ast.Node{}, cur...)
		}
		return true
	})
	var out []string
	for i, n := range pathTo {
		var child ast.Node
		if i+1 < len(pathTo) {
			child = pathTo[i+1]
		}
		switch v := n.(type) {
		case *ast.IfStmt:
			if child == ast.Node(v.Body) {
				out = append(out, norm(v.Cond)+"=true")
			} else if v.Else != nil && child == v.Else {
				out = append(out, norm(v.Cond)+"=false")
			}
		case *ast.BlockStmt:
			for _, s := range v.List {
				if s == child {
					break
				}
				if ifs, ok := s.(*ast.IfStmt); ok && ifs.Else == nil && len(ifs.Body.List) >= 1 {
					last := ifs.Body.List[len(ifs.Body.List)-1]
					exits := false
					switch l := last.(type) {
					case *ast.ReturnStmt:
						exits = true
					case *ast.BranchStmt:
						exits = l.Tok == token.CONTINUE || l.Tok == token.BREAK
					}
					if exits {
						out = append(out, norm(ifs.Cond)+"=false")
					}
				}
			}
		}
	}
	return out
}

func runC17(p *core.Program, r *core.Report) {
	r.Explanation = "Structural rules for the file logger (logger/logfile). Read path: the caller's file name reaches os.Open only on paths that rejected anything but a plain base name (or '..' / separators), and only joined under <home>/logs. Retention: every os.Remove is dominated by: rotation enabled, keepDays > 0, entry is not a directory, own-prefix test logID+\"-\", an 8-character date component, age test nowUnit-fileUnit > keepDays; its path is Join(<home>/logs, entry name) of that directory's listing. Append: log files are opened with O_APPEND|O_CREATE|O_WRONLY (constant value from the type checker, no O_TRUNC) under <home>/logs with the name format <logID>-<oname>-<YYYYMMDD(now)>.log. Single sink: every line goes through the one *log.Logger (whole lines, serialised by its mutex); the file handle is never written directly. Levels: each level method gates on its own level constant with '>' before formatting; the rate limiter is consulted after the gate with the configured interval; checkOk suppresses iff now < last + sec*1000 and records the time only when it lets the line through. Rotation: process() closes and reopens when the date unit, the rotation flag or the handle changed; openFile is the only opener."
	r.NotDecided = []string{"the read window arithmetic (start/length/offset): only expressible as a frozen text match, so not claimed", "contents of files over histories, ordering across goroutines (delegated to log.Logger)", "the virtual clock"}
	r.Rule("C17.read-path", "the read call never opens a path outside <home>/logs", 1)
	r.Rule("C17.retention", "os.Remove only for own-prefixed, dated, expired files of the logs directory with rotation and keep-days enabled", 7)
	r.Rule("C17.append", "log files are opened append/create/write-only, never truncated, named <logID>-<oname>-<date>.log under <home>/logs", 2)
	r.Rule("C17.single-sink", "all output goes through the one log.Logger; the file handle is never written directly", 1)
	r.Rule("C17.levels", "each level method gates on its own level constant with '>' before formatting", 8)
	r.Rule("C17.level-names", "logger.LogLevel maps error/warn/info/debug (any case) to their own level constants and anything else to the default WARN level", 7)
	r.Rule("C17.ratelimit", "checkOk suppresses iff now < last + sec*1000 and records the time only when not suppressing; level methods consult it after the gate with cacheInterval", 8)
	r.Rule("C17.clock", "the day the logger rotates and prunes by comes from the library clock each time it is asked: no value-returning function of util/dateutil remembers its own earlier answer in package-level state; and every clock reading of logger/logfile (limiter, rotation, retention) goes through the library clock with the SetDelta offset, never time.Now or an offset-free reader", 5)
	noSelfCacheRule(p, r, "C17.clock", []string{"util/dateutil"})
	c17LibraryClock(p, r, "C17.clock")
	r.Rule("C17.rotate", "process() reopens when date unit / rotation flag / handle changed; openFile is the only opener", 2)

	c17ReadPath(p, r)
	c17Retention(p, r)
	c17Append(p, r)
	c17NoFormatData(p, r)
	c17CallOrder(p, r)
	c17Levels(p, r)
	c17LevelParse(p, r)
	c17Rotate(p, r)
}

func c17ReadPath(p *core.Program, r *core.Report) {
	pk := p.Pkg("logger/logfile")
	if pk == nil {
		r.Undec("C17.read-path", "logger/logfile", "-", "package not found")
		return
	}
	for _, fi := range p.Funcs {
		if fi.Pkg != pk || fi.Decl.Body == nil || fi.Decl.Type.Params == nil {
			continue
		}
		info := fi.Pkg.TypesInfo
		rn := recvName(fi)
		norm := func(e ast.Expr) string { return strings.ReplaceAll(stripSpaces(types.ExprString(e)), rn+".", "") }
		// string parameters that flow into os.Open/OpenFile through filepath.Join
		for _, f := range fi.Decl.Type.Params.List {
			if types.ExprString(f.Type) != "string" {
				continue
			}
			for _, pn := range f.Names {
				pobj := info.Defs[pn]
				var opens, others []*ast.CallExpr
				ast.Inspect(fi.Decl.Body, func(n ast.Node) bool {
					call, ok := n.(*ast.CallExpr)
					if !ok {
						return true
					}
					s := stripSpaces(types.ExprString(call.Fun))
					if s != "os.Open" && s != "os.OpenFile" && s != "ioutil.ReadFile" && s != "os.ReadFile" {
						return true
					}
					if len(call.Args) == 0 {
						return true
					}
					// does the path argument derive from the parameter?
					uses := false
					var visit func(e ast.Expr, d int)
					visit = func(e ast.Expr, d int) {
						ast.Inspect(e, func(m ast.Node) bool {
							if id, ok := m.(*ast.Ident); ok {
								o := info.ObjectOf(id)
								if o == pobj {
									uses = true
								} else if d < 3 && o != nil {
									ast.Inspect(fi.Decl.Body, func(k ast.Node) bool {
										if as, ok := k.(*ast.AssignStmt); ok && len(as.Lhs) == len(as.Rhs) {
											for i, l := range as.Lhs {
												if lid, ok := l.(*ast.Ident); ok && info.ObjectOf(lid) == o && lid != id {
													visit(as.Rhs[i], d+1)
												}
											}
										}
										return true
									})
								}
							}
							return true
						})
					}
					visit(call.Args[0], 0)
					if uses {
						opens = append(opens, call)
					} else {
						others = append(others, call)
					}
					return true
				})
				// a function that reads the file it is asked for by name reads no other file: an open call
				// whose path does not come from that name answers the request with another file's content
				if len(opens) > 0 {
					for _, oc := range others {
						r.Viol("C17.read-path", core.FuncName(fi.Obj)+" "+stripSpaces(types.ExprString(oc.Fun))+"("+stripSpaces(types.ExprString(oc.Args[0]))+")", p.Pos(oc.Pos()),
							"beside the file named by `"+pn.Name+"` this function opens `"+types.ExprString(oc.Args[0])+"`, a path that does not come from the requested name: a request for one log file can be answered with the content of another")
					}
				}
				for _, oc := range opens {
					conds := dominatingConds(fi, oc, norm)
					name := pn.Name
					// the same guards established atom by atom, and through a predicate helper of the
					// package (isPlainLogName(file)): what every path of the helper that answers true
					// has found out about its argument
					for _, a := range dominatingAtoms(fi, oc) {
						conds = append(conds, condKey(info, norm, a.E, a.V))
						if call, ok := ast.Unparen(a.E).(*ast.CallExpr); ok && a.V {
							conds = append(conds, factsWhenTrue(p, fi, call, norm)...)
						}
					}
					baseOK := false
					dots, seps := false, false
					for _, c := range conds {
						switch c {
						case name + "!=filepath.Base(" + name + ")=false", "filepath.Base(" + name + ")!=" + name + "=false", name + "==filepath.Base(" + name + ")=true":
							baseOK = true
						}
						if strings.Contains(c, name+"!=filepath.Base("+name+")||") && strings.HasSuffix(c, "=false") {
							baseOK = true
							if strings.Contains(c, name+`==".."`) {
								dots = true
							}
						}
						if c == name+`==".."=false` || strings.Contains(c, `strings.Contains(`+name+`,"..")=false`) {
							dots = true
						}
						if strings.Contains(c, "strings.ContainsAny("+name+",") && strings.HasSuffix(c, "=false") {
							seps = true
						}
					}
					c := core.FuncName(fi.Obj) + " os.Open(" + name + ")"
					ok := (baseOK && dots) || (dots && seps)
					r.Check(ok, "C17.read-path", c, p.Pos(oc.Pos()), "only plain base names (not '.'/'..') reach the open call",
						"the caller-supplied name `"+name+"` reaches "+stripSpaces(types.ExprString(oc.Fun))+" without a check that it is a plain file name: `../..` escapes the logs directory")
				}
			}
		}
	}
}

// condAtom: one atomic condition known to hold (V) at a program point.
type condAtom struct {
	E ast.Expr
	V bool
}

// dominatingAtoms: the atomic conditions established on the way to target: enclosing if-arms, and
// earlier guard clauses of enclosing blocks (if c { return/continue/break } with no else), with
// && / || / ! split into atoms where the outcome fixes them.
func dominatingAtoms(fi *core.FuncInfo, target ast.Node) []condAtom {
	var pathTo []ast.Node
	var cur []ast.Node
	ast.Inspect(fi.Decl.Body, func(n ast.Node) bool {
		if n == nil {
			cur = cur[:len(cur)-1]
			return true
		}
		cur = append(cur, n)
		if n == target {
			pathTo = append([]ast.Node{}, cur...)
		}
		return true
	})
	var out []condAtom
	var split func(e ast.Expr, v bool)
	split = func(e ast.Expr, v bool) {
		e = ast.Unparen(e)
		switch x := e.(type) {
		case *ast.UnaryExpr:
			if x.Op == token.NOT {
				split(x.X, !v)
				return
			}
		case *ast.BinaryExpr:
			if (x.Op == token.LAND && v) || (x.Op == token.LOR && !v) {
				split(x.X, v)
				split(x.Y, v)
				return
			}
			if x.Op == token.LAND || x.Op == token.LOR {
				return // a disjunction that is true / conjunction that is false fixes no atom
			}
		}
		out = append(out, condAtom{e, v})
	}
	for i, n := range pathTo {
		var child ast.Node
		if i+1 < len(pathTo) {
			child = pathTo[i+1]
		}
		switch v := n.(type) {
		case *ast.IfStmt:
			if child == ast.Node(v.Body) {
				split(v.Cond, true)
			} else if v.Else != nil && child == v.Else {
				split(v.Cond, false)
			}
		case *ast.BlockStmt:
			for _, s := range v.List {
				if s == child {
					break
				}
				if ifs, ok := s.(*ast.IfStmt); ok && ifs.Else == nil && len(ifs.Body.List) >= 1 {
					last := ifs.Body.List[len(ifs.Body.List)-1]
					exits := false
					switch l := last.(type) {
					case *ast.ReturnStmt:
						exits = true
					case *ast.BranchStmt:
						exits = l.Tok == token.CONTINUE || l.Tok == token.BREAK
					case *ast.ExprStmt:
						if call, ok := l.X.(*ast.CallExpr); ok {
							if id, ok := call.Fun.(*ast.Ident); ok && id.Name == "panic" {
								exits = true
							}
						}
					}
					if exits {
						split(ifs.Cond, false)
					}
				}
				// a tagless switch of filters before the target (case bad1: continue; case bad2: continue):
				// past it, every guard of a clause that leaves was false
				if sw, ok := s.(*ast.SwitchStmt); ok && sw.Tag == nil && sw.Init == nil {
					allLeave := true
					var guards []ast.Expr
					for _, cc := range sw.Body.List {
						cl := cc.(*ast.CaseClause)
						leaves := false
						if len(cl.Body) > 0 {
							switch l := cl.Body[len(cl.Body)-1].(type) {
							case *ast.ReturnStmt:
								leaves = true
							case *ast.BranchStmt:
								leaves = l.Tok == token.CONTINUE
							case *ast.ExprStmt:
								if call, ok := l.X.(*ast.CallExpr); ok {
									if id, ok := call.Fun.(*ast.Ident); ok && id.Name == "panic" {
										leaves = true
									}
								}
							}
						}
						if cl.List == nil || !leaves {
							allLeave = false
							break
						}
						guards = append(guards, cl.List...)
					}
					if allLeave {
						for _, g := range guards {
							split(g, false)
						}
					}
				}
			}
		case *ast.CaseClause:
			// inside a clause of a tagless switch: its own guard held, the earlier ones did not
			_ = v
		}
	}
	return out
}

// resolver prints expressions with single-definition locals replaced by their definitions (so rules do
// not depend on local names) and the receiver prefix removed.
type resolver struct {
	fi    *core.FuncInfo
	info  *types.Info
	rn    string
	extra []*ast.BlockStmt             // bodies of helpers whose guards were imported
	over  map[types.Object]ast.Expr    // caller locals standing for a helper's result
}

func (rv *resolver) def(obj types.Object) ast.Expr {
	if e, ok := rv.over[obj]; ok {
		return e
	}
	var def ast.Expr
	n := 0
	for _, b := range rv.extra {
		ast.Inspect(b, func(m ast.Node) bool {
			if as, ok := m.(*ast.AssignStmt); ok && len(as.Lhs) == len(as.Rhs) {
				for i, l := range as.Lhs {
					if id, ok := l.(*ast.Ident); ok && rv.info.ObjectOf(id) == obj {
						def = as.Rhs[i]
						n++
					}
				}
			}
			return true
		})
	}
	ast.Inspect(rv.fi.Decl.Body, func(m ast.Node) bool {
		if as, ok := m.(*ast.AssignStmt); ok && len(as.Lhs) == len(as.Rhs) {
			for i, l := range as.Lhs {
				if id, ok := l.(*ast.Ident); ok && rv.info.ObjectOf(id) == obj {
					def = as.Rhs[i]
					n++
				}
			}
		}
		return true
	})
	if n == 1 {
		return def
	}
	return nil
}

func (rv *resolver) str(e ast.Expr) string { return rv.strd(e, 0) }

func (rv *resolver) strd(e ast.Expr, depth int) string {
	if e == nil {
		return ""
	}
	if depth > 14 {
		return stripSpaces(types.ExprString(e))
	}
	switch v := ast.Unparen(e).(type) {
	case *ast.Ident:
		// an unexported constant of the logger's own package reads as its value ("logs", 8)
		if c, ok := rv.info.ObjectOf(v).(*types.Const); ok && !c.Exported() && c.Pkg() != nil && rv.fi != nil && c.Pkg() == rv.fi.Obj.Pkg() {
			switch c.Val().Kind() {
			case constant.String, constant.Int:
				return c.Val().ExactString()
			}
		}
		if obj, ok := rv.info.ObjectOf(v).(*types.Var); ok && !obj.IsField() && obj.Parent() != nil && obj.Pkg() != nil && obj.Parent() != obj.Pkg().Scope() {
			if d := rv.def(obj); d != nil {
				return "(" + rv.strd(d, depth+1) + ")"
			}
		}
		return v.Name
	case *ast.SelectorExpr:
		if id, ok := ast.Unparen(v.X).(*ast.Ident); ok && id.Name == rv.rn {
			return v.Sel.Name
		}
		return rv.strd(v.X, depth+1) + "." + v.Sel.Name
	case *ast.CallExpr:
		var args []string
		for _, a := range v.Args {
			args = append(args, rv.strd(a, depth+1))
		}
		return rv.strd(v.Fun, depth+1) + "(" + strings.Join(args, ",") + ")"
	case *ast.BinaryExpr:
		return rv.strd(v.X, depth+1) + v.Op.String() + rv.strd(v.Y, depth+1)
	case *ast.UnaryExpr:
		return v.Op.String() + rv.strd(v.X, depth+1)
	case *ast.SliceExpr:
		return rv.strd(v.X, depth+1) + "[" + rv.strd(v.Low, depth+1) + ":" + rv.strd(v.High, depth+1) + "]"
	case *ast.IndexExpr:
		return rv.strd(v.X, depth+1) + "[" + rv.strd(v.Index, depth+1) + "]"
	case *ast.BasicLit:
		return v.Value
	}
	return stripSpaces(types.ExprString(e))
}

// importHelperGuards: a dominating fact `ok` (or `!ok` false) where `v, ok := helper(args)` stands for
// everything the helper established before it returned ok=true: each guard clause of the helper that
// returns ok=false contributes its negated condition (parameters replaced by the arguments), and v
// stands for what the helper returns with ok=true. This makes "the name checks moved into a helper"
// read like the checks written in place.
func importHelperGuards(p *core.Program, fi *core.FuncInfo, rv *resolver, atoms []condAtom) []condAtom {
	info := fi.Pkg.TypesInfo
	out := append([]condAtom{}, atoms...)
	for _, a := range atoms {
		id, ok := ast.Unparen(a.E).(*ast.Ident)
		if !ok || !a.V {
			continue
		}
		obj := info.ObjectOf(id)
		// find `..., ok := f(args)`
		var call *ast.CallExpr
		var lhs []ast.Expr
		idx := -1
		ast.Inspect(fi.Decl.Body, func(n ast.Node) bool {
			as, isAs := n.(*ast.AssignStmt)
			if !isAs || len(as.Rhs) != 1 || len(as.Lhs) < 2 {
				return true
			}
			for i, l := range as.Lhs {
				if lid, isId := l.(*ast.Ident); isId && info.ObjectOf(lid) == obj {
					if c, isCall := ast.Unparen(as.Rhs[0]).(*ast.CallExpr); isCall {
						call, lhs, idx = c, as.Lhs, i
					}
				}
			}
			return true
		})
		if call == nil {
			continue
		}
		in := newInliner(p, fi, nil)
		cfi, repl := in.callee(call)
		if cfi == nil {
			continue
		}
		rv.extra = append(rv.extra, cfi.Decl.Body)
		// named results
		var resNames []types.Object
		if cfi.Decl.Type.Results != nil {
			for _, f := range cfi.Decl.Type.Results.List {
				for _, nm := range f.Names {
					resNames = append(resNames, info.Defs[nm])
				}
			}
		}
		isFalse := func(e ast.Expr) bool {
			tv, ok := info.Types[e]
			return ok && tv.Value != nil && tv.Value.ExactString() == "false"
		}
		isTrue := func(e ast.Expr) bool {
			tv, ok := info.Types[e]
			return ok && tv.Value != nil && tv.Value.ExactString() == "true"
		}
		for _, s := range cfi.Decl.Body.List {
			switch v := s.(type) {
			case *ast.IfStmt:
				if v.Else != nil || len(v.Body.List) == 0 {
					continue
				}
				rs, isRet := v.Body.List[len(v.Body.List)-1].(*ast.ReturnStmt)
				if !isRet || idx >= len(rs.Results) || !isFalse(rs.Results[idx]) {
					continue
				}
				cond, _ := paths.Subst(info, v.Cond, repl).(ast.Expr)
				// split like dominatingAtoms does: the guard was false
				var split func(e ast.Expr, val bool)
				split = func(e ast.Expr, val bool) {
					e = ast.Unparen(e)
					switch x := e.(type) {
					case *ast.UnaryExpr:
						if x.Op == token.NOT {
							split(x.X, !val)
							return
						}
					case *ast.BinaryExpr:
						if (x.Op == token.LAND && val) || (x.Op == token.LOR && !val) {
							split(x.X, val)
							split(x.Y, val)
							return
						}
						if x.Op == token.LAND || x.Op == token.LOR {
							return
						}
					}
					out = append(out, condAtom{e, val})
				}
				split(cond, false)
			case *ast.ReturnStmt:
				if idx < len(v.Results) && isTrue(v.Results[idx]) {
					for i, l := range lhs {
						if i == idx || i >= len(v.Results) {
							continue
						}
						lid, isId := l.(*ast.Ident)
						if !isId {
							continue
						}
						val, _ := paths.Subst(info, v.Results[i], repl).(ast.Expr)
						if rv.over == nil {
							rv.over = map[types.Object]ast.Expr{}
						}
						rv.over[info.ObjectOf(lid)] = val
					}
				}
			}
		}
		// params inside the helper's own locals' definitions (x := strings.LastIndex(name, ".")) read as the arguments
		for po, arg := range repl {
			if rv.over == nil {
				rv.over = map[types.Object]ast.Expr{}
			}
			rv.over[po] = arg
		}
		_ = resNames
	}
	return out
}

func c17Retention(p *core.Program, r *core.Report) {
	pk := p.Pkg("logger/logfile")
	if pk == nil {
		return
	}
	found := 0
	for _, fi := range p.Funcs {
		if fi.Pkg != pk || fi.Decl.Body == nil {
			continue
		}
		info := fi.Pkg.TypesInfo
		rv := &resolver{fi: fi, info: info, rn: recvName(fi)}
		ast.Inspect(fi.Decl.Body, func(n ast.Node) bool {
			call, ok := n.(*ast.CallExpr)
			if !ok {
				return true
			}
			s := stripSpaces(types.ExprString(call.Fun))
			if s != "os.Remove" && s != "os.RemoveAll" {
				return true
			}
			found++
			atoms := importHelperGuards(p, fi, rv, dominatingAtoms(fi, call))
			// facts in canonical, name-free spelling
			var facts []string
			for _, a := range atoms {
				facts = append(facts, condKey(info, rv.str, a.E, a.V))
			}
			hasFact := func(pred func(string) bool) bool {
				for _, f := range facts {
					if pred(f) {
						return true
					}
				}
				return false
			}
			base := core.FuncName(fi.Obj) + " os.Remove"
			pos := p.Pos(call.Pos())
			if os.Getenv("C17_DEBUG") != "" {
				fmt.Fprintln(os.Stderr, "facts:", strings.Join(facts, "\n  "), "\narg:", rv.str(call.Args[0]))
			}
			// the directory entry being judged: the thing whose Name() is removed
			entryName := ""
			arg := rv.str(call.Args[0])
			if i := strings.LastIndex(arg, ","); i >= 0 && strings.HasSuffix(arg, ".Name())") {
				entryName = strings.TrimSuffix(arg[i+1:], ")")
			}
			segs := joinSegments(p, rv, call.Args[0], 0)
			okPath := len(segs) == 3 && strings.Trim(segs[0], "()") == "conf.homePath" && segs[1] == `"logs"` && strings.HasSuffix(segs[2], ".Name()")
			if okPath {
				entryName = segs[2]
				for strings.HasPrefix(entryName, "(") && strings.HasSuffix(entryName, ")") && !strings.HasSuffix(entryName, "()") {
					entryName = entryName[1 : len(entryName)-1]
				}
			}
			mentionsEntry := func(f string) bool { return entryName != "" && strings.Contains(f, entryName) }
			r.Check(hasFact(func(f string) bool {
				return strings.HasPrefix(f, "strings.HasPrefix(") && strings.HasSuffix(f, "=true") && mentionsEntry(f) && strings.Contains(f, `(conf.logID)+"-")`)
			}), "C17.retention", base+" own-prefix", pos, `entry name starts with logID+"-"`, `a file is deleted without testing that its name starts with the logger's own id followed by "-": files of another id sharing the leading characters are pruned`)
			r.Check(hasFact(func(f string) bool {
				// len(name[s+1:x]) == 8, or the same length computed from the two positions: x-(s+1) == 8
				return strings.HasSuffix(f, "==8=true") && mentionsEntry(f) && (strings.HasPrefix(f, "len(") || strings.Count(f, "strings.LastIndex(") >= 2)
			}), "C17.retention", base+" dated", pos, "8-character date component", "a file without an 8-character date component can be deleted")
			// the 8 characters are looked at before they are taken for a date: some dominating test is
			// about the date component itself beyond its length — a parse of it whose error is heeded, a
			// pattern match, a digit test. (What the date helpers make of eight arbitrary characters is a
			// day in the year 2000: the file then looks decades old.)
			wellFormed := hasFact(func(f string) bool {
				if !mentionsEntry(f) || strings.HasSuffix(f, "==8=true") || strings.Contains(f, "conf.keepDays") || strings.HasPrefix(f, "strings.HasPrefix(") {
					return false
				}
				// the fact is about the slice of the name between the last "-" and the last "."
				return strings.Contains(f, "[") && strings.Contains(f, ":") && strings.Count(f, "strings.LastIndex(") >= 2
			})
			for _, a := range atoms {
				be, ok := ast.Unparen(a.E).(*ast.BinaryExpr)
				if !ok || (be.Op != token.EQL && be.Op != token.NEQ) {
					continue
				}
				eid, ok := ast.Unparen(be.X).(*ast.Ident)
				if nid, isNil := ast.Unparen(be.Y).(*ast.Ident); !ok || !isNil || nid.Name != "nil" {
					continue
				}
				isNilOutcome := (be.Op == token.EQL) == a.V
				if !isNilOutcome {
					continue
				}
				eobj := info.ObjectOf(eid)
				ast.Inspect(fi.Decl.Body, func(m ast.Node) bool {
					as, ok := m.(*ast.AssignStmt)
					if !ok || len(as.Rhs) != 1 || as.Pos() > call.Pos() {
						return true
					}
					for _, l := range as.Lhs {
						if lid, ok := l.(*ast.Ident); ok && info.ObjectOf(lid) == eobj {
							if pc, ok := ast.Unparen(as.Rhs[0]).(*ast.CallExpr); ok {
								for _, pa := range pc.Args {
									if mentionsEntry(rv.str(pa)) {
										wellFormed = true
									}
								}
							}
						}
					}
					return true
				})
			}
			r.Check(wellFormed, "C17.retention", base+" date-shaped", pos, "the date component is tested for being a date", "the 8-character component is taken for a date without being looked at: a file of the logger's prefix whose last component merely has 8 characters (whatap-boot-settings.log) parses as a day in 2000 and is deleted as expired")
			r.Check(hasFact(func(f string) bool {
				// <now unit> - <file unit> > keepDays   (or  <now unit> > <file unit> + keepDays)
				if !strings.HasSuffix(f, "=true") || !strings.Contains(f, "conf.keepDays") || !mentionsEntry(f) || !strings.Contains(f, "DateUnitNow()") {
					return false
				}
				i := strings.Index(f, ">")
				if i < 0 || (i+1 < len(f) && f[i+1] == '=') {
					return false
				}
				l, rr := f[:i], f[i+1:]
				return (strings.Contains(l, "DateUnitNow()") && strings.Contains(l, "-") && strings.Contains(rr, "conf.keepDays") && !strings.Contains(rr, entryName)) ||
					(strings.Contains(l, "DateUnitNow()") && !strings.Contains(l, entryName) && strings.Contains(rr, "+") && strings.Contains(rr, "conf.keepDays"))
			}), "C17.retention", base+" expired", pos, "nowUnit-fileUnit > keepDays", "the age test is not `nowUnit - fileUnit > keepDays`: files still within the retention period can be deleted")
			r.Check(hasFact(func(f string) bool {
				return f == "conf.rotationEnabled=true" || f == "conf.rotationEnabled==false=false" || f == "conf.rotationEnabled==true=true"
			}), "C17.retention", base+" rotation", pos, "only with rotation enabled", "files are pruned although rotation is disabled")
			r.Check(hasFact(func(f string) bool { return f == "conf.keepDays>0=true" || f == "conf.keepDays>=1=true" }), "C17.retention", base+" keep-days", pos, "only with keepDays > 0", "files are pruned although keep-days is not positive")
			r.Check(hasFact(func(f string) bool { return entryName != "" && f == strings.TrimSuffix(entryName, ".Name()")+".IsDir()=false" }), "C17.retention", base+" not-dir", pos, "directories skipped", "directories are not skipped")
			r.Check(okPath, "C17.retention", base+" path", pos, "Join(<home>/logs, entry name)", "the removed path is `"+arg+"`, not an entry of <home>/logs")
			return true
		})
	}
	// the scan that prunes is complete: the loop over the directory listing that holds an os.Remove is
	// not left early (break, return, goto) — the listing is ordered by name, not by date, so stopping
	// at the first young file leaves expired files of later names behind
	for _, fi := range p.Funcs {
		if fi.Pkg != pk || fi.Decl.Body == nil {
			continue
		}
		ast.Inspect(fi.Decl.Body, func(n ast.Node) bool {
			var body *ast.BlockStmt
			switch v := n.(type) {
			case *ast.RangeStmt:
				body = v.Body
			case *ast.ForStmt:
				body = v.Body
			}
			if body == nil {
				return true
			}
			removes := false
			ast.Inspect(body, func(m ast.Node) bool {
				if call, ok := m.(*ast.CallExpr); ok {
					s := stripSpaces(types.ExprString(call.Fun))
					if s == "os.Remove" || s == "os.RemoveAll" {
						removes = true
					}
				}
				return true
			})
			if !removes {
				return true
			}
			var exits []string
			var walk func(m ast.Node, inner bool)
			walk = func(m ast.Node, inner bool) {
				ast.Inspect(m, func(k ast.Node) bool {
					switch v := k.(type) {
					case *ast.FuncLit:
						return false // a return inside a closure leaves the closure only
					case *ast.ForStmt, *ast.RangeStmt, *ast.SwitchStmt, *ast.SelectStmt, *ast.TypeSwitchStmt:
						if k != m {
							// break inside these binds to them, return/goto still leave the scan
							ast.Inspect(k, func(q ast.Node) bool {
								switch w := q.(type) {
								case *ast.FuncLit:
									return false
								case *ast.ReturnStmt:
									exits = append(exits, "return at "+p.Pos(w.Pos()))
								case *ast.BranchStmt:
									if w.Tok == token.GOTO || (w.Tok == token.BREAK && w.Label != nil) {
										exits = append(exits, w.Tok.String()+" at "+p.Pos(w.Pos()))
									}
								}
								return true
							})
							return false
						}
					case *ast.ReturnStmt:
						exits = append(exits, "return at "+p.Pos(v.Pos()))
					case *ast.BranchStmt:
						if v.Tok == token.BREAK || v.Tok == token.GOTO {
							exits = append(exits, v.Tok.String()+" at "+p.Pos(v.Pos()))
						}
					}
					return true
				})
			}
			walk(body, false)
			r.Check(len(exits) == 0, "C17.retention", core.FuncName(fi.Obj)+" scans the whole listing", p.Pos(n.Pos()), "the pruning loop visits every entry",
				fmt.Sprintf("the loop that prunes old files is left early (%s): entries after that point are never examined, expired files stay", strings.Join(uniq(exits), ", ")))
			return true
		})
	}
	if found == 0 {
		r.Info("C17.retention", "logger/logfile: no os.Remove", "-", "nothing is ever deleted")
	}
}

func c17Append(p *core.Program, r *core.Report) {
	pk := p.Pkg("logger/logfile")
	if pk == nil {
		return
	}
	want := int64(os.O_CREATE | os.O_WRONLY | os.O_APPEND)
	n := 0
	for _, fi := range p.Funcs {
		if fi.Pkg != pk || fi.Decl.Body == nil {
			continue
		}
		info := fi.Pkg.TypesInfo
		rn := recvName(fi)
		ast.Inspect(fi.Decl.Body, func(m ast.Node) bool {
			call, ok := m.(*ast.CallExpr)
			if !ok || stripSpaces(types.ExprString(call.Fun)) != "os.OpenFile" || len(call.Args) != 3 {
				return true
			}
			n++
			c := fmt.Sprintf("%s os.OpenFile #%d", core.FuncName(fi.Obj), n)
			pos := p.Pos(call.Pos())
			flags, okF := constIntOf(info, call.Args[1])
			r.Check(okF && flags == want, "C17.append", c+" flags", pos, "O_CREATE|O_WRONLY|O_APPEND", fmt.Sprintf("open flags are %#x, want O_CREATE|O_WRONLY|O_APPEND (%#x): existing log content can be truncated or overwritten", flags, want))
			path := strings.ReplaceAll(stripSpaces(types.ExprString(call.Args[0])), rn+".", "")
			// <home>/logs/<name>, where <name> is one of the two name formats, written in place or
			// selected into a local first (every value the local can hold must be one of them)
			okName := false
			rvn := &resolver{fi: fi, info: info, rn: rn}
			var nameArg ast.Expr
			if jc, isCall := ast.Unparen(call.Args[0]).(*ast.CallExpr); isCall && stripSpaces(types.ExprString(jc.Fun)) == "filepath.Join" && len(jc.Args) >= 2 {
				// the directory part: everything but the last segment must be <home>/logs
				var dir []string
				for _, a := range jc.Args[:len(jc.Args)-1] {
					dir = append(dir, joinSegments(p, rvn, a, 0)...)
				}
				if len(dir) == 2 && strings.Trim(dir[0], "()") == "conf.homePath" && dir[1] == `"logs"` {
					nameArg = jc.Args[len(jc.Args)-1]
				}
			}
			if nameArg != nil {
				jc := &ast.CallExpr{Args: []ast.Expr{nil, nil, nameArg}}
				cands := []ast.Expr{jc.Args[2]}
				if id, isId := ast.Unparen(jc.Args[2]).(*ast.Ident); isId {
					cands = nil
					obj := info.ObjectOf(id)
					ast.Inspect(fi.Decl.Body, func(k ast.Node) bool {
						if as, ok := k.(*ast.AssignStmt); ok && len(as.Lhs) == len(as.Rhs) {
							for i, l := range as.Lhs {
								if lid, ok := l.(*ast.Ident); ok && info.ObjectOf(lid) == obj {
									cands = append(cands, as.Rhs[i])
								}
							}
						}
						return true
					})
				}
				okName = len(cands) > 0
				for _, cand := range cands {
					s := strings.ReplaceAll(stripSpaces(types.ExprString(cand)), rn+".", "")
					if s != `fmt.Sprintf("%s-%s-%s.log",conf.logID,conf.oname,dateutil.YYYYMMDD(dateutil.Now()))` && s != `fmt.Sprintf("%s-%s.log",conf.logID,conf.oname)` {
						okName = false
					}
				}
			}
			r.Check(okName, "C17.append", c+" name", pos, "<home>/logs/<logID>-<oname>[-<YYYYMMDD(now)>].log", "log file path is `"+path+"`")
			if fi.Obj.Name() != "openFile" {
				r.Viol("C17.rotate", c+" opener", pos, "a log file is opened outside openFile()")
			}
			return true
		})
	}
	// single sink: no method call on logfile other than Close / Name
	var direct []string
	for _, fi := range p.Funcs {
		if fi.Pkg != pk || fi.Decl.Body == nil {
			continue
		}
		rn := recvName(fi)
		ast.Inspect(fi.Decl.Body, func(m ast.Node) bool {
			if call, ok := m.(*ast.CallExpr); ok {
				if sel, ok := call.Fun.(*ast.SelectorExpr); ok {
					x := strings.ReplaceAll(stripSpaces(types.ExprString(sel.X)), rn+".", "")
					if x == "logfile" && sel.Sel.Name != "Close" && sel.Sel.Name != "Name" {
						direct = append(direct, core.FuncName(fi.Obj)+"."+sel.Sel.Name+" at "+p.Pos(call.Pos()))
					}
				}
			}
			return true
		})
	}
	r.Check(len(direct) == 0, "C17.single-sink", "logger/logfile.FileLogger.logfile", "-", "only Close/Name are called on the handle; lines go through log.Logger", "the file handle is written directly, bypassing the logger's line serialisation: "+strings.Join(direct, ", "))
}

// c17Limiters: the repeat limiter(s) of the file logger: methods with a bool result that record a
// time in a map field of the receiver (checkOk; the canary variant has the same shape).
func c17Limiters(p *core.Program) []*core.FuncInfo {
	pk := p.Pkg("logger/logfile")
	var out []*core.FuncInfo
	for _, fi := range p.Funcs {
		if fi.Pkg != pk || fi.Decl.Body == nil {
			continue
		}
		// (a method of the logger, or of a small limiter type the logger delegates to)
		rn := core.RecvNamed(fi.Obj)
		if rn == nil {
			continue
		}
		sig := fi.Obj.Type().(*types.Signature)
		if sig.Results().Len() != 1 || !isBoolType(sig.Results().At(0).Type()) || sig.Params().Len() != 2 {
			continue
		}
		puts := false
		ast.Inspect(fi.Decl.Body, func(n ast.Node) bool {
			if call, ok := n.(*ast.CallExpr); ok {
				if sel, ok := call.Fun.(*ast.SelectorExpr); ok && sel.Sel.Name == "Put" && len(call.Args) == 2 {
					puts = true
				}
			}
			return true
		})
		if puts {
			out = append(out, fi)
		}
	}
	return out
}

func isBoolType(t types.Type) bool {
	b, ok := t.Underlying().(*types.Basic)
	return ok && b.Info()&types.IsBoolean != 0
}

// c17Levels: the level gate and the repeat limiter of every level method, as a path rule. The
// configured level ranges over the level constants; each comparison of the level field with a
// constant narrows the set of settings under which the path runs. At the point a line is handed to
// the log.Logger the set must be exactly {setting <= the method's level}; the limiter must have let
// the line through (with the configured interval) after that narrowing; debug lines are not limited.
func c17Levels(p *core.Program, r *core.Report) {
	gate := map[string]string{"Warnf": "LOG_LEVEL_WARN", "Warn": "LOG_LEVEL_WARN", "Infof": "LOG_LEVEL_INFO", "Info": "LOG_LEVEL_INFO", "Infoln": "LOG_LEVEL_INFO",
		"Debugf": "LOG_LEVEL_DEBUG", "Debug": "LOG_LEVEL_DEBUG", "Errorf": "LOG_LEVEL_ERROR", "Error": "LOG_LEVEL_ERROR"}
	lpk := p.Pkg("logger")
	var levels []int64
	levelOf := map[string]int64{}
	if lpk != nil {
		for _, n := range []string{"LOG_LEVEL_DEBUG", "LOG_LEVEL_INFO", "LOG_LEVEL_WARN", "LOG_LEVEL_ERROR"} {
			if c, ok := lpk.Types.Scope().Lookup(n).(*types.Const); ok {
				if v, exact := constant.Int64Val(constant.ToInt(c.Val())); exact {
					levels = append(levels, v)
					levelOf[n] = v
				}
			}
		}
	}
	if len(levels) != 4 {
		r.Undec("C17.levels", "logger.LOG_LEVEL_*", "-", "level constants not found")
		return
	}
	limiters := map[*types.Func]bool{}
	for _, l := range c17Limiters(p) {
		limiters[l.Obj] = true
	}
	// wrappers: unexported helpers all of whose returns hand back a limiter's verdict (allow(s) { id := ...; return checkOk(id, interval) })
	wrapperRets := map[*types.Func][]*ast.CallExpr{}
	wrapperOf := map[*types.Func]*core.FuncInfo{}
	if lp := p.Pkg("logger/logfile"); lp != nil {
		for changed := true; changed; {
			changed = false
			for _, wf := range p.Funcs {
				if wf.Pkg != lp || wf.Decl.Body == nil || limiters[wf.Obj] || wf.Obj.Exported() {
					continue
				}
				sig := wf.Obj.Type().(*types.Signature)
				if sig.Results().Len() != 1 || !isBoolType(sig.Results().At(0).Type()) {
					continue
				}
				var rets []*ast.CallExpr
				all := true
				ast.Inspect(wf.Decl.Body, func(n ast.Node) bool {
					if _, ok := n.(*ast.FuncLit); ok {
						return false
					}
					if rs, ok := n.(*ast.ReturnStmt); ok {
						if len(rs.Results) != 1 {
							all = false
							return true
						}
						call, ok := ast.Unparen(rs.Results[0]).(*ast.CallExpr)
						if !ok {
							all = false
							return true
						}
						sel, ok := call.Fun.(*ast.SelectorExpr)
						if !ok {
							all = false
							return true
						}
						fn, _ := wf.Pkg.TypesInfo.ObjectOf(sel.Sel).(*types.Func)
						if fn == nil || !limiters[fn] {
							all = false
							return true
						}
						rets = append(rets, call)
					}
					return true
				})
				if all && len(rets) > 0 {
					limiters[wf.Obj] = true
					wrapperRets[wf.Obj] = rets
					wrapperOf[wf.Obj] = wf
					changed = true
				}
			}
		}
	}
	var intervalIn func(info *types.Info, body *ast.BlockStmt, call *ast.CallExpr, depth int) bool
	intervalIn = func(info *types.Info, body *ast.BlockStmt, call *ast.CallExpr, depth int) bool {
		if sel, ok := call.Fun.(*ast.SelectorExpr); ok {
			if fn, _ := info.ObjectOf(sel.Sel).(*types.Func); fn != nil && wrapperOf[fn] != nil && depth < 4 {
				w := wrapperOf[fn]
				for _, rc := range wrapperRets[fn] {
					// a wrapper that hands its own parameter on as the interval: what the caller passed counts
					if len(rc.Args) == 2 {
						if pid, ok := ast.Unparen(stripConvs(w.Pkg.TypesInfo, rc.Args[1])).(*ast.Ident); ok {
							k, idx := 0, -1
							for _, f := range w.Decl.Type.Params.List {
								for _, n := range f.Names {
									if w.Pkg.TypesInfo.Defs[n] == w.Pkg.TypesInfo.ObjectOf(pid) {
										idx = k
									}
									k++
								}
							}
							if idx >= 0 && idx < len(call.Args) {
								e := stripConvs(info, expandLocals(info, body, call.Args[idx]))
								if sel, ok := ast.Unparen(e).(*ast.SelectorExpr); ok {
									if fv, ok := info.ObjectOf(sel.Sel).(*types.Var); ok && fv.IsField() && fv.Name() == "cacheInterval" {
										continue
									}
								}
								return false
							}
						}
					}
					if !intervalIn(w.Pkg.TypesInfo, w.Decl.Body, rc, depth+1) {
						return false
					}
				}
				return true
			}
		}
		if len(call.Args) != 2 {
			return false
		}
		e := stripConvs(info, expandLocals(info, body, call.Args[1]))
		sel, ok := ast.Unparen(e).(*ast.SelectorExpr)
		if !ok {
			return false
		}
		fv, ok := info.ObjectOf(sel.Sel).(*types.Var)
		return ok && fv.IsField() && fv.Name() == "cacheInterval"
	}
	names := make([]string, 0, len(gate))
	for n := range gate {
		names = append(names, n)
	}
	sort.Strings(names)
	for _, name := range names {
		lvlName := gate[name]
		fi := logMethod(p, name)
		c := "logger/logfile.(*FileLogger)." + name
		if fi == nil || fi.Decl.Body == nil {
			r.Undec("C17.levels", c, "-", "method not found")
			continue
		}
		info := fi.Pkg.TypesInfo
		pos := p.Pos(fi.Decl.Pos())
		L := levelOf[lvlName]
		isLevel := func(e ast.Expr) bool {
			e = stripConvs(info, expandLocals(info, fi.Decl.Body, e))
			sel, ok := ast.Unparen(e).(*ast.SelectorExpr)
			if !ok {
				return false
			}
			fv, ok := info.ObjectOf(sel.Sel).(*types.Var)
			return ok && fv.IsField() && fv.Name() == "level"
		}
		limiterCall := func(e ast.Expr) *ast.CallExpr {
			call, ok := ast.Unparen(e).(*ast.CallExpr)
			if !ok {
				return nil
			}
			if sel, ok := call.Fun.(*ast.SelectorExpr); ok {
				if fn, _ := info.ObjectOf(sel.Sel).(*types.Func); fn != nil && limiters[fn] {
					return call
				}
			}
			return nil
		}
		intervalOK := func(call *ast.CallExpr) bool { return intervalIn(info, fi.Decl.Body, call, 0) }
		in := newInliner(p, fi, func(fn *types.Func) bool { return limiters[fn] })
		undecided := ""
		ps, over := paths.Enumerate(fi.Decl.Body, paths.Config{Info: info, Inline: in.Body, Expand: in.Expand,
			Cond: func(cnd ast.Expr, v bool) *paths.Event {
				// limiter outcome: checkOk(..), checkOk(..) == false, checkOk(..) != true ...
				core_, pol := cnd, v
				if be, ok := ast.Unparen(cnd).(*ast.BinaryExpr); ok && (be.Op == token.EQL || be.Op == token.NEQ) {
					for _, sides := range [][2]ast.Expr{{be.X, be.Y}, {be.Y, be.X}} {
						if tv, ok := info.Types[sides[1]]; ok && tv.Value != nil && tv.Value.Kind() == constant.Bool {
							core_ = sides[0]
							if constant.BoolVal(tv.Value) != (be.Op == token.EQL) {
								pol = !pol
							}
						}
					}
				}
				if call := limiterCall(core_); call != nil {
					k := "LIMITNO"
					if pol {
						k = "LIMITOK"
					}
					arg := "other"
					if intervalOK(call) {
						arg = "interval"
					}
					return &paths.Event{Kind: k, Arg: arg, Pos: call.Pos()}
				}
				// level comparison
				be, ok := ast.Unparen(cnd).(*ast.BinaryExpr)
				if !ok {
					return nil
				}
				lx, ly := isLevel(be.X), isLevel(be.Y)
				if lx == ly {
					if lx {
						undecided = "level compared with itself"
					}
					return nil
				}
				other := be.Y
				if ly {
					other = be.X
				}
				tv, ok := info.Types[other]
				if !ok || tv.Value == nil {
					undecided = "the level is compared with a non-constant at " + p.Pos(cnd.Pos())
					return nil
				}
				k, exact := constant.Int64Val(constant.ToInt(tv.Value))
				if !exact {
					return nil
				}
				set := ""
				for _, lv := range levels {
					a, b := lv, k
					if ly {
						a, b = k, lv
					}
					var holds bool
					switch be.Op {
					case token.LSS:
						holds = a < b
					case token.LEQ:
						holds = a <= b
					case token.GTR:
						holds = a > b
					case token.GEQ:
						holds = a >= b
					case token.EQL:
						holds = a == b
					case token.NEQ:
						holds = a != b
					default:
						return nil
					}
					if holds == v {
						set += fmt.Sprintf("%d,", lv)
					}
				}
				return &paths.Event{Kind: "LVL", Arg: set, Pos: cnd.Pos()}
			},
			Classify: func(n ast.Node) []paths.Event {
				var out []paths.Event
				ast.Inspect(n, func(m ast.Node) bool {
					call, ok := m.(*ast.CallExpr)
					if !ok {
						return true
					}
					if lc := limiterCall(call); lc != nil {
						out = append(out, paths.Event{Kind: "LIMIT", Pos: call.Pos()})
						return true
					}
					if sel, ok := call.Fun.(*ast.SelectorExpr); ok {
						if fn, _ := info.ObjectOf(sel.Sel).(*types.Func); fn != nil && fn.Pkg() != nil && fn.Pkg().Path() == "log" {
							if sig := fn.Type().(*types.Signature); sig.Recv() != nil {
								out = append(out, paths.Event{Kind: "OUT", Pos: call.Pos()})
							}
						}
					}
					return true
				})
				return out
			}})
		if over || undecided != "" {
			r.Undec("C17.levels", c, pos, "too many paths / "+undecided)
			continue
		}
		reach := map[int64]bool{}
		var lvProbs, rlProbs []string
		outs, limited := 0, 0
		for _, pa := range ps {
			if !pa.Consistent() {
				continue
			}
			poss := map[int64]bool{}
			for _, lv := range levels {
				poss[lv] = true
			}
			narrow := func(arg string) {
				for _, lv := range levels {
					if !strings.Contains(","+arg, fmt.Sprintf(",%d,", lv)) {
						delete(poss, lv)
					}
				}
			}
			within := func() bool {
				for lv := range poss {
					if lv > L {
						return false
					}
				}
				return true
			}
			passed, refused, anyLimit, badInterval := false, false, false, false
			for _, e := range pa {
				switch e.Kind {
				case "LVL":
					narrow(e.Arg)
				case "LIMIT":
					anyLimit = true
					if !within() {
						rlProbs = append(rlProbs, "the repeat limiter is consulted at "+p.Pos(e.Pos)+" before the level gate: a line that the level setting filters out still refreshes the stored time of its id")
					}
				case "LIMITOK":
					passed = true
					if e.Arg != "interval" {
						badInterval = true
					}
				case "LIMITNO":
					refused = true
				case "OUT":
					outs++
					if len(poss) == 0 {
						continue
					}
					if !within() {
						lvProbs = append(lvProbs, fmt.Sprintf("a line reaches the log at %s under a level setting above %s", p.Pos(e.Pos), lvlName))
					}
					for lv := range poss {
						reach[lv] = true
					}
					if strings.HasPrefix(name, "Debug") {
						if anyLimit {
							rlProbs = append(rlProbs, "debug lines are rate limited")
						}
					} else {
						limited++
						if !passed || refused {
							rlProbs = append(rlProbs, "a line reaches the log at "+p.Pos(e.Pos)+" on a path where the repeat limiter did not let it through")
						} else if badInterval {
							rlProbs = append(rlProbs, "the repeat limiter is not consulted with the configured interval")
						}
					}
				}
			}
		}
		if outs == 0 {
			lvProbs = append(lvProbs, "no path hands a line to the log.Logger")
		}
		for _, lv := range levels {
			if lv <= L && !reach[lv] && outs > 0 {
				lvProbs = append(lvProbs, fmt.Sprintf("with the level set to %d no line of %s is written although %d <= %s", lv, name, lv, lvlName))
			}
		}
		fileProbs(r, "C17.levels", c, pos, lvProbs, "lines reach the log exactly when conf.level <= "+lvlName)
		what := "the repeat limiter lets the line through (configured interval) after the level gate"
		if strings.HasPrefix(name, "Debug") {
			what = "debug lines are not rate limited"
		}
		fileProbs(r, "C17.ratelimit", c+" limiter", pos, rlProbs, what)
	}
	// the limiter itself (and the canary variant)
	for _, fi := range c17Limiters(p) {
		info := fi.Pkg.TypesInfo
		params := fi.Decl.Type.Params.List
		var idObj, secObj types.Object
		k := 0
		for _, f := range params {
			for _, n := range f.Names {
				if k == 0 {
					idObj = info.Defs[n]
				} else if k == 1 {
					secObj = info.Defs[n]
				}
				k++
			}
		}
		atom := func(e ast.Expr) (string, bool) {
			switch v := ast.Unparen(e).(type) {
			case *ast.Ident:
				if o := info.ObjectOf(v); o != nil && o == secObj {
					return "sec", true
				}
			case *ast.CallExpr:
				if isClockCall(info, v) {
					return "now", true
				}
				if sel, ok := v.Fun.(*ast.SelectorExpr); ok && sel.Sel.Name == "Get" && len(v.Args) == 1 {
					if id, ok := ast.Unparen(v.Args[0]).(*ast.Ident); ok && info.ObjectOf(id) == idObj {
						return "last", true
					}
				}
			}
			return "", false
		}
		type fact struct {
			f   lform
			rel string
		}
		in := newInliner(p, fi, nil)
		ps, over := paths.Enumerate(fi.Decl.Body, paths.Config{Info: info, Inline: in.Body, Expand: in.Expand,
			Cond: func(cnd ast.Expr, v bool) *paths.Event {
				if f, rel, ok := linRel(info, fi.Decl.Body, cnd, v, atom); ok {
					return &paths.Event{Kind: "REL", Arg: lformKey(f) + " " + rel + " 0", Pos: cnd.Pos()}
				}
				return &paths.Event{Kind: "COND", Arg: fmt.Sprintf("%s=%v", stripSpaces(types.ExprString(cnd)), v), Pos: cnd.Pos(), Node: cnd}
			},
			Classify: func(n ast.Node) []paths.Event {
				var out []paths.Event
				ast.Inspect(n, func(m ast.Node) bool {
					switch v := m.(type) {
					case *ast.CallExpr:
						if sel, ok := v.Fun.(*ast.SelectorExpr); ok && sel.Sel.Name == "Put" && len(v.Args) == 2 {
							arg := "other"
							if f, ok := linearize(info, fi.Decl.Body, v.Args[1], atom); ok && f.is(map[string]int64{"now": 1}) {
								arg = "now"
							}
							out = append(out, paths.Event{Kind: "PUT", Arg: arg, Pos: v.Pos()})
						}
					case *ast.ReturnStmt:
						if len(v.Results) == 1 {
							arg := "?"
							if tv, ok := info.Types[v.Results[0]]; ok && tv.Value != nil && tv.Value.Kind() == constant.Bool {
								arg = fmt.Sprint(constant.BoolVal(tv.Value))
							}
							out = append(out, paths.Event{Kind: "RETVAL", Arg: arg, Pos: v.Pos(), Node: v.Results[0]})
						}
					}
					return true
				})
				return out
			}})
		c := core.FuncName(fi.Obj)
		pos := p.Pos(fi.Decl.Pos())
		if over {
			r.Undec("C17.ratelimit", c, pos, "too many paths")
			continue
		}
		// canonical statements: suppress <=> now - last - 1000*sec < 0 ; enabled <=> -sec < 0
		suppress := "last:-1 now:1 sec:-1000 < 0"
		through := "last:1 now:-1 sec:1000 <= 0"
		enabled := "sec:-1 < 0"
		var probs []string
		sup := 0
		undec := ""
		for _, pa := range ps {
			if os.Getenv("C17_DEBUG") != "" {
				fmt.Fprintln(os.Stderr, "PATH", pa.String())
			}
			if !pa.Consistent() {
				continue
			}
			ret := ""
			for _, e := range pa {
				if e.Kind == "RETVAL" {
					ret = e.Arg
					if ret == "?" {
						// a returned boolean expression: its value on this path is what the path's own tests say
						if ex, ok := e.Node.(ast.Expr); ok {
							ex = in.Expand(ex)
							for _, pol := range []bool{true, false} {
								if f, rel, ok := linRel(info, fi.Decl.Body, ex, pol, atom); ok && pa.HasArg("REL", lformKey(f)+" "+rel+" 0") {
									ret = fmt.Sprint(pol)
								}
							}
						}
					}
				}
			}
			switch ret {
			case "false":
				sup++
				if pa.Has("PUT") {
					probs = append(probs, "a suppressed call still refreshes the stored time: a message repeated at gaps shorter than the interval is never written again")
				}
				if !pa.HasArg("REL", suppress) {
					probs = append(probs, "suppression is not decided by now < last + sec*1000")
				}
			case "true":
				if pa.HasArg("REL", enabled) && pa.HasArg("REL", through) && !pa.HasArg("PUT", "now") {
					probs = append(probs, "a line that is let through does not record its time")
				}
				if pa.HasArg("REL", suppress) {
					probs = append(probs, "a repeat inside the interval is let through")
				}
			case "":
			default:
				undec = "a returned boolean expression whose value the path does not determine"
			}
		}
		if undec != "" {
			r.Undec("C17.ratelimit", c, pos, undec)
			continue
		}
		if sup == 0 {
			probs = append(probs, "never suppresses")
		}
		// the limiter is keyed by the id it was given: only repeats of the same id suppress each other
		if fi.Decl.Type.Params.NumFields() >= 1 && len(fi.Decl.Type.Params.List[0].Names) >= 1 {
			idObj := info.Defs[fi.Decl.Type.Params.List[0].Names[0]]
			if b, ok := idObj.Type().Underlying().(*types.Basic); ok && b.Info()&types.IsString != 0 {
				ast.Inspect(fi.Decl.Body, func(n ast.Node) bool {
					switch v := n.(type) {
					case *ast.AssignStmt:
						for _, l := range v.Lhs {
							if lid, ok := ast.Unparen(l).(*ast.Ident); ok && info.ObjectOf(lid) == idObj {
								probs = append(probs, "the id is rewritten before it keys the limiter ("+p.Pos(v.Pos())+"): different ids that share the rewritten form suppress each other")
							}
						}
					case *ast.CallExpr:
						if sel, ok := v.Fun.(*ast.SelectorExpr); ok && (sel.Sel.Name == "Get" || sel.Sel.Name == "Put") && len(v.Args) >= 1 {
							if tv := info.TypeOf(v.Args[0]); tv != nil {
								if kb, ok := tv.Underlying().(*types.Basic); ok && kb.Info()&types.IsString != 0 {
									key := ast.Unparen(expandLocals(info, fi.Decl.Body, v.Args[0]))
									if kid, ok := key.(*ast.Ident); !ok || info.ObjectOf(kid) != idObj {
										probs = append(probs, "the limiter is keyed by `"+stripSpaces(types.ExprString(v.Args[0]))+"`, not by the id itself: different ids can suppress each other")
									}
								}
							}
						}
					}
					return true
				})
			}
		}
		fileProbs(r, "C17.ratelimit", c, pos, probs, "suppress iff now < last+sec*1000; time recorded only when passing")
	}
}

// lformKey: deterministic spelling of a linear form ("a:1 b:-2", constant term under "1").
func lformKey(f lform) string {
	f.clean()
	keys := make([]string, 0, len(f))
	for k := range f {
		keys = append(keys, k)
	}
	sort.Strings(keys)
	var sb strings.Builder
	for i, k := range keys {
		if i > 0 {
			sb.WriteByte(' ')
		}
		n := k
		if n == "" {
			n = "1"
		}
		fmt.Fprintf(&sb, "%s:%d", n, f[k])
	}
	return sb.String()
}

func c17Rotate(p *core.Program, r *core.Report) {
	fi := logMethod(p, "process")
	c := "logger/logfile.(*FileLogger).process"
	if fi == nil || fi.Decl.Body == nil {
		r.Undec("C17.rotate", c, "-", "not found")
		return
	}
	rn := recvName(fi)
	info := fi.Pkg.TypesInfo
	norm := func(e ast.Expr) string { return strings.ReplaceAll(stripSpaces(types.ExprString(e)), rn+".", "") }
	isUnitCall := func(e ast.Expr) bool {
		// today's date unit, directly or inside the value a helper assembles
		// (fileGeneration{dateUnit: dateutil.GetDateUnitNow(), rotation: ...})
		found := false
		ast.Inspect(inlineValue(p, fi, e, 0), func(n ast.Node) bool {
			if call, ok := n.(*ast.CallExpr); ok {
				s := norm(call.Fun)
				if strings.Contains(s, "DateUnit") || strings.Contains(s, "YYYYMMDD") {
					found = true
				}
			}
			return true
		})
		return found
	}
	isField := func(e ast.Expr) bool {
		sel, ok := ast.Unparen(e).(*ast.SelectorExpr)
		if !ok {
			return false
		}
		id, ok := ast.Unparen(sel.X).(*ast.Ident)
		return ok && id.Name == rn
	}
	// path rule: every cycle looks at the date (or has already decided to reopen because the rotation
	// option or the handle changed), closes and forgets the handle and records the new date unit when
	// something changed, and always ends in openFile(); no early way out before the date is examined
	ps, over := paths.Enumerate(fi.Decl.Body, paths.Config{Info: info,
		Cond: func(c ast.Expr, v bool) *paths.Event {
			if be, ok := ast.Unparen(c).(*ast.BinaryExpr); ok && (be.Op == token.NEQ || be.Op == token.EQL) {
				changed := (be.Op == token.NEQ) == v
				switch {
				case (isField(be.X) && isUnitCall(be.Y)) || (isField(be.Y) && isUnitCall(be.X)):
					return &paths.Event{Kind: "DATE", Arg: fmt.Sprint(changed), Pos: c.Pos()}
				case strings.Contains(norm(c), "rotationEnabled") && (isField(be.X) || isField(be.Y)):
					return &paths.Event{Kind: "ROT", Arg: fmt.Sprint(changed), Pos: c.Pos()}
				case (norm(be.X) == "logfile" && norm(be.Y) == "nil") || (norm(be.Y) == "logfile" && norm(be.X) == "nil"):
					return &paths.Event{Kind: "NOHANDLE", Arg: fmt.Sprint((be.Op == token.EQL) == v), Pos: c.Pos()}
				}
			}
			return &paths.Event{Kind: "COND", Arg: condKey(info, norm, c, v), Pos: c.Pos()}
		},
		Classify: func(m ast.Node) []paths.Event {
			var out []paths.Event
			if as, ok := m.(*ast.AssignStmt); ok && len(as.Lhs) == len(as.Rhs) {
				for i, l := range as.Lhs {
					switch {
					case norm(l) == "logfile" && norm(as.Rhs[i]) == "nil":
						out = append(out, paths.Event{Kind: "FORGET", Pos: as.Pos()})
					case isField(l) && isUnitCall(as.Rhs[i]):
						out = append(out, paths.Event{Kind: "SETUNIT", Pos: as.Pos()})
					}
				}
			}
			ast.Inspect(m, func(k ast.Node) bool {
				if _, isLit := k.(*ast.FuncLit); isLit {
					return false
				}
				if call, ok := k.(*ast.CallExpr); ok {
					switch norm(call.Fun) {
					case "logfile.Close":
						out = append(out, paths.Event{Kind: "CLOSE", Pos: call.Pos()})
					case "openFile":
						out = append(out, paths.Event{Kind: "OPEN", Pos: call.Pos()})
					}
				}
				return true
			})
			return out
		}})
	if over {
		r.Undec("C17.rotate", c, p.Pos(fi.Decl.Pos()), "too many paths")
		return
	}
	var probs []string
	sawChange := false
	for _, pa := range ps {
		if pa.Has("PANIC") || pa.Has("CUT") {
			continue
		}
		decided := pa.HasArg("ROT", "true") || pa.HasArg("NOHANDLE", "true")
		if !pa.Has("DATE") && !decided {
			probs = append(probs, "a cycle can end without comparing the recorded date unit with today's (an early way out): after midnight lines keep going to the old day's file: "+pa.String())
			continue
		}
		changed := decided || pa.HasArg("DATE", "true")
		if changed {
			sawChange = true
			oi := pa.Index("OPEN")
			fi2, ui := pa.Index("FORGET"), pa.Index("SETUNIT")
			if fi2 < 0 || (oi >= 0 && fi2 > oi) {
				probs = append(probs, "on a change the old handle is not forgotten before openFile(): the old file stays in use")
			}
			if ui < 0 {
				probs = append(probs, "on a change the new date unit is not recorded: the file is reopened on every cycle or never again")
			}
		} else if pa.Has("FORGET") {
			probs = append(probs, "the handle is dropped although nothing changed")
		}
		if !pa.Has("OPEN") {
			// leaving without openFile() is a no-op cycle only when the path knows that nothing changed
			// and that a handle is in place (openFile acts on a missing handle only)
			idle := !changed && pa.HasArg("NOHANDLE", "false") && pa.HasArg("DATE", "false") && !pa.Has("FORGET") && !pa.Has("CLOSE")
			if !idle {
				probs = append(probs, "a cycle ends without openFile(): after a change (or a failed open) no file is in use")
			}
		}
	}
	if !sawChange {
		probs = append(probs, "no path reacts to a changed date unit")
	}
	// a Close() of the handle field inside a deferred function literal reads the field when the cycle
	// ends, i.e. after openFile() stored the new handle: the new day's file is closed, the old one leaks
	ast.Inspect(fi.Decl.Body, func(n ast.Node) bool {
		ds, ok := n.(*ast.DeferStmt)
		if !ok {
			return true
		}
		lit, ok := ast.Unparen(ds.Call.Fun).(*ast.FuncLit)
		if !ok {
			return true
		}
		ast.Inspect(lit.Body, func(k ast.Node) bool {
			if call, ok := k.(*ast.CallExpr); ok && norm(call.Fun) == "logfile.Close" {
				probs = append(probs, "the handle field is closed inside a deferred function ("+p.Pos(call.Pos())+"): it runs after openFile() has stored the new handle, so the file just opened is the one that gets closed and every later line is lost")
			}
			return true
		})
		return true
	})
	fileProbs(r, "C17.rotate", c, p.Pos(fi.Decl.Pos()), uniq(probs), "every cycle examines the date; on a change the handle is closed/forgotten, the unit recorded, and openFile() follows")
	of := logMethod(p, "openFile")
	if of != nil {
		s := stripSpaces(nodeStringFull(of.Decl.Body))
		r.Check(strings.Contains(s, "myLog.SetOutput("+recvName(of)+".logfile)"), "C17.rotate", "logger/logfile.(*FileLogger).openFile sink", p.Pos(of.Decl.Pos()), "the logger's output is switched to the newly opened file", "the newly opened file is not installed as the logger's output")
	}
}

func nodeStringFull(n ast.Node) string {
	var sb strings.Builder
	ast.Inspect(n, func(m ast.Node) bool {
		switch v := m.(type) {
		case *ast.ExprStmt:
			sb.WriteString(types.ExprString(v.X) + ";")
			return false
		case *ast.AssignStmt:
			for i := range v.Lhs {
				sb.WriteString(types.ExprString(v.Lhs[i]) + "=")
				if i < len(v.Rhs) {
					sb.WriteString(types.ExprString(v.Rhs[i]))
				}
				sb.WriteString(";")
			}
			return false
		}
		return true
	})
	return sb.String()
}


// c17LevelParse: the configured level is what LogLevel makes of the configured string. LogLevel is
// interpreted (strEval) on the four level names in two spellings and on strings it does not know.
func c17LevelParse(p *core.Program, r *core.Report) {
	fi := p.Func("logger", "LogLevel")
	if fi == nil || fi.Decl.Body == nil {
		r.Undec("C17.level-names", "logger.LogLevel", "-", "function not found")
		return
	}
	pos := p.Pos(fi.Decl.Pos())
	lv := func(name string) constant.Value {
		if c, ok := fi.Pkg.Types.Scope().Lookup(name).(*types.Const); ok {
			return c.Val()
		}
		return nil
	}
	type tc struct {
		in   string
		want string
	}
	cases := []tc{{"error", "LOG_LEVEL_ERROR"}, {"warn", "LOG_LEVEL_WARN"}, {"info", "LOG_LEVEL_INFO"}, {"debug", "LOG_LEVEL_DEBUG"},
		{"ERROR", "LOG_LEVEL_ERROR"}, {"Info", "LOG_LEVEL_INFO"}, {"", "LOG_LEVEL_WARN"}, {"warning", "LOG_LEVEL_WARN"}, {"trace", "LOG_LEVEL_WARN"}}
	for _, c := range cases {
		cn := fmt.Sprintf("logger.LogLevel(%q)", c.in)
		want := lv(c.want)
		if want == nil {
			r.Undec("C17.level-names", cn, pos, "constant "+c.want+" not found")
			continue
		}
		se := &strEval{p: p, info: fi.Pkg.TypesInfo}
		got := se.call(fi, []constant.Value{constant.MakeString(c.in)}, 0)
		if se.err != "" || got == nil {
			r.Undec("C17.level-names", cn, pos, "LogLevel is outside the interpreted fragment: "+se.err)
			continue
		}
		what := "a level name is mapped to another level: lines of the configured level are dropped or lower ones appear"
		if strings.HasSuffix(c.want, "WARN") && c.in != "warn" {
			what = "an unrecognised level string no longer falls back to the default WARN level (log_level defaults to \"warn\"): a typo in the setting changes which lines are written"
		}
		r.Check(constant.Compare(got, token.EQL, want), "C17.level-names", cn, pos, "= "+c.want, fmt.Sprintf("yields %s, expected %s (%s): %s", got, c.want, want, what))
	}
}

// joinSegments flattens a path expression into the list of its filepath.Join segments: locals with
// one definition stand for that definition, a same-package helper that returns one path expression
// (`func (l *FileLogger) logsDir() string { return filepath.Join(l.conf.homePath, "logs") }`, or a
// helper that creates the directory and then returns it) stands for what it returns, nested Joins
// are concatenated. Each segment is spelled by the resolver (receiver prefix dropped).
func joinSegments(p *core.Program, rv *resolver, e ast.Expr, depth int) []string {
	if depth > 8 {
		return []string{rv.str(e)}
	}
	e = ast.Unparen(e)
	switch v := e.(type) {
	case *ast.Ident:
		if obj, ok := rv.info.ObjectOf(v).(*types.Var); ok && !obj.IsField() && obj.Parent() != nil && obj.Pkg() != nil && obj.Parent() != obj.Pkg().Scope() {
			if d := rv.def(obj); d != nil {
				return joinSegments(p, rv, d, depth+1)
			}
		}
	case *ast.CallExpr:
		if stripSpaces(types.ExprString(v.Fun)) == "filepath.Join" {
			var out []string
			for _, a := range v.Args {
				out = append(out, joinSegments(p, rv, a, depth+1)...)
			}
			return out
		}
		// a parameterless helper of the same package returning one path
		var id *ast.Ident
		switch f := ast.Unparen(v.Fun).(type) {
		case *ast.Ident:
			id = f
		case *ast.SelectorExpr:
			id = f.Sel
		}
		if id != nil && len(v.Args) == 0 {
			if fn, _ := rv.info.Uses[id].(*types.Func); fn != nil && fn.Pkg() == rv.fi.Obj.Pkg() {
				if hf := p.FuncOf(fn); hf != nil && hf.Decl.Body != nil {
					var rets []ast.Expr
					ast.Inspect(hf.Decl.Body, func(n ast.Node) bool {
						switch r := n.(type) {
						case *ast.FuncLit:
							return false
						case *ast.ReturnStmt:
							if len(r.Results) == 1 {
								rets = append(rets, r.Results[0])
							} else {
								rets = append(rets, nil)
							}
						}
						return true
					})
					if len(rets) == 1 && rets[0] != nil {
						sub := &resolver{fi: hf, info: hf.Pkg.TypesInfo, rn: recvName(hf)}
						return joinSegments(p, sub, rets[0], depth+1)
					}
				}
			}
		}
	}
	return []string{rv.str(e)}
}

// c17NoFormatData: a finished message reaches the sink as data, never as a format. In the logger
// package no Printf-style function (a variadic func whose parameter before the ...interface{} is the
// format string) is called with a non-constant format and nothing to format: a message containing
// '%' would be rewritten ("100%!o(MISSING)f"). The logger's own Printf(id, format, args...) passes its
// caller's format on with the arguments, which is the one legitimate non-constant format.
func c17NoFormatData(p *core.Program, r *core.Report) {
	pk := p.Pkg("logger/logfile")
	if pk == nil {
		return
	}
	for _, fi := range p.Funcs {
		if fi.Pkg != pk || fi.Decl.Body == nil || core.IsCanaryFile(p.Fset.Position(fi.Decl.Pos()).Filename) && false {
			continue
		}
		info := fi.Pkg.TypesInfo
		calls := 0
		var probs []string
		ast.Inspect(fi.Decl.Body, func(n ast.Node) bool {
			call, ok := n.(*ast.CallExpr)
			if !ok {
				return true
			}
			var id *ast.Ident
			switch f := ast.Unparen(call.Fun).(type) {
			case *ast.Ident:
				id = f
			case *ast.SelectorExpr:
				id = f.Sel
			}
			if id == nil {
				return true
			}
			fn, _ := info.Uses[id].(*types.Func)
			if fn == nil || !strings.HasSuffix(fn.Name(), "f") {
				return true
			}
			sig, _ := fn.Type().(*types.Signature)
			if sig == nil || !sig.Variadic() || sig.Params().Len() < 2 {
				return true
			}
			fidx := sig.Params().Len() - 2
			if b, ok := sig.Params().At(fidx).Type().Underlying().(*types.Basic); !ok || b.Info()&types.IsString == 0 {
				return true
			}
			if len(call.Args) <= fidx {
				return true
			}
			calls++
			if tv, ok := info.Types[call.Args[fidx]]; ok && tv.Value != nil {
				return true // constant format
			}
			if len(call.Args) > fidx+1 {
				return true // a format handed on together with its arguments
			}
			probs = append(probs, fmt.Sprintf("%s: %s is called with the message `%s` as its format and no arguments: a '%%' in the message is interpreted", p.Pos(call.Pos()), fn.Name(), stripSpaces(types.ExprString(call.Args[fidx]))))
			return true
		})
		if calls > 0 {
			fileProbs(r, "C17.append", core.FuncName(fi.Obj)+" message as data", p.Pos(fi.Decl.Pos()), probs, "formats are constants or travel with their arguments")
		}
	}
}

// factsWhenTrue: for a call of a boolean helper of the same package, the atomic conditions (in the
// caller's spelling, canonical form) that hold on every path of the helper that returns true.
func factsWhenTrue(p *core.Program, fi *core.FuncInfo, call *ast.CallExpr, norm func(ast.Expr) string) []string {
	in := newInliner(p, fi, nil)
	body := in.Body(call)
	if body == nil {
		return nil
	}
	info := fi.Pkg.TypesInfo
	ps, over := paths.Enumerate(body, paths.Config{Info: info,
		Cond: func(c ast.Expr, v bool) *paths.Event {
			return &paths.Event{Kind: "COND", Arg: condKey(info, norm, c, v), Pos: c.Pos()}
		}})
	if over {
		return nil
	}
	var common map[string]bool
	for _, pa := range ps {
		if len(pa) == 0 || pa[len(pa)-1].Kind != "RET" {
			return nil
		}
		rs, _ := pa[len(pa)-1].Node.(*ast.ReturnStmt)
		if rs == nil || len(rs.Results) != 1 {
			return nil
		}
		facts := map[string]bool{}
		for _, e := range pa {
			if e.Kind == "COND" {
				facts[e.Arg] = true
			}
		}
		ret := ast.Unparen(rs.Results[0])
		if tv, ok := info.Types[ret]; ok && tv.Value != nil && tv.Value.Kind() == constant.Bool {
			if !constant.BoolVal(tv.Value) {
				continue // a path that answers false
			}
		} else {
			// return A && B && C: true means every conjunct is true
			var split func(e ast.Expr) bool
			split = func(e ast.Expr) bool {
				e = ast.Unparen(e)
				if be, ok := e.(*ast.BinaryExpr); ok {
					if be.Op == token.LAND {
						return split(be.X) && split(be.Y)
					}
					if be.Op == token.LOR {
						return false
					}
				}
				if u, ok := e.(*ast.UnaryExpr); ok && u.Op == token.NOT {
					facts[condKey(info, norm, u.X, false)] = true
					return true
				}
				facts[condKey(info, norm, e, true)] = true
				return true
			}
			if !split(ret) {
				// a disjunction says nothing definite: keep only what the path itself established
			}
		}
		if common == nil {
			common = facts
		} else {
			for k := range common {
				if !facts[k] {
					delete(common, k)
				}
			}
		}
	}
	var out []string
	for k := range common {
		out = append(out, k)
	}
	sort.Strings(out)
	return out
}

// c17CallOrder: lines reach the sink in the order of the calls that log them, and have reached it
// when the call returns: no logging method hands its line to another goroutine. The package starts
// goroutines only from its constructors (the background cycle); a go statement anywhere else in the
// package is reported.
func c17CallOrder(p *core.Program, r *core.Report) {
	pk := p.Pkg("logger/logfile")
	if pk == nil {
		return
	}
	for _, fi := range p.Funcs {
		if fi.Pkg != pk || fi.Decl.Body == nil {
			continue
		}
		var probs []string
		spawns := 0
		ast.Inspect(fi.Decl.Body, func(n ast.Node) bool {
			gs, ok := n.(*ast.GoStmt)
			if !ok {
				return true
			}
			spawns++
			if core.RecvNamed(fi.Obj) != nil || !strings.HasPrefix(fi.Obj.Name(), "New") && !strings.HasPrefix(fi.Obj.Name(), "new") && !strings.HasPrefix(fi.Obj.Name(), "Get") {
				probs = append(probs, fmt.Sprintf("%s: `go %s` hands work to another goroutine outside the constructor: a line logged here can be written after lines logged later, or after the call has returned", p.Pos(gs.Pos()), stripSpaces(types.ExprString(gs.Call.Fun))))
			}
			return true
		})
		if spawns > 0 {
			fileProbs(r, "C17.single-sink", core.FuncName(fi.Obj)+" goroutines", p.Pos(fi.Decl.Pos()), probs, "goroutines are started by the constructor only")
		}
	}
}

// c17LibraryClock: the logger tells time by the library clock — the system clock plus the offset that
// SetDelta/SetServerTime maintain — everywhere: rotation, file names, retention and the repeat limiter
// then agree on what "now" is, and a test (or the server) that moves the clock moves all of them. No
// function of logger/logfile calls time.Now, or a function of util/dateutil that reaches time.Now
// without the offset being added on the way (today: SystemNow).
func c17LibraryClock(p *core.Program, r *core.Report, rule string) {
	du := p.Pkg("util/dateutil")
	if du == nil {
		r.Undec(rule, "util/dateutil", "-", "package not found")
		return
	}
	// the offset: the package-level variable SetDelta assigns
	// the offset: what SetDelta assigns — a package-level variable, or a field of a clock object the
	// package keeps (followed through the unexported functions SetDelta calls)
	offsets := map[types.Object]bool{}
	var collect func(fi *core.FuncInfo, depth int)
	collect = func(fi *core.FuncInfo, depth int) {
		if fi == nil || fi.Decl.Body == nil || depth > 3 {
			return
		}
		info := fi.Pkg.TypesInfo
		ast.Inspect(fi.Decl.Body, func(n ast.Node) bool {
			switch x := n.(type) {
			case *ast.AssignStmt:
				for _, l := range x.Lhs {
					switch lv := ast.Unparen(l).(type) {
					case *ast.Ident:
						if v, ok := info.ObjectOf(lv).(*types.Var); ok && v.Pkg() != nil && v.Parent() == v.Pkg().Scope() {
							offsets[v] = true
						}
					case *ast.SelectorExpr:
						if v, ok := info.ObjectOf(lv.Sel).(*types.Var); ok && (v.IsField() || (v.Pkg() != nil && v.Parent() == v.Pkg().Scope())) {
							offsets[v] = true
						}
					}
				}
			case *ast.CallExpr:
				if fn := calleeFunc(info, x); fn != nil && fn.Pkg() == fi.Obj.Pkg() && !fn.Exported() {
					collect(p.FuncOf(fn), depth+1)
				}
			}
			return true
		})
	}
	collect(p.Func("util/dateutil", "SetDelta"), 0)
	if len(offsets) == 0 {
		r.Undec(rule, "util/dateutil.SetDelta", "-", "what SetDelta assigns (the clock offset) was not found")
	}
	// per dateutil function: does it reach time.Now with / without the offset read on the way
	type st struct{ reaches, offsetRead bool }
	memo := map[*types.Func]*st{}
	var visit func(fi *core.FuncInfo, depth int) *st
	visit = func(fi *core.FuncInfo, depth int) *st {
		if s, ok := memo[fi.Obj]; ok {
			return s
		}
		s := &st{}
		memo[fi.Obj] = s
		if fi.Decl.Body == nil || depth > 6 {
			return s
		}
		info := fi.Pkg.TypesInfo
		ast.Inspect(fi.Decl.Body, func(n ast.Node) bool {
			switch x := n.(type) {
			case *ast.Ident:
				if offsets[info.Uses[x]] {
					s.offsetRead = true
				}
			case *ast.CallExpr:
				if isCallTo(info, x, "time", "Now") {
					s.reaches = true
				}
				if fn := calleeFunc(info, x); fn != nil && fn.Pkg() == fi.Obj.Pkg() {
					if cf := p.FuncOf(fn); cf != nil && cf != fi {
						cs := visit(cf, depth+1)
						if cs.reaches {
							s.reaches = true
						}
						if cs.reaches && cs.offsetRead {
							s.offsetRead = true
						}
					}
				}
			}
			return true
		})
		return s
	}
	for _, fi := range p.Funcs {
		if fi.Decl.Body == nil || core.RelPkg(fi.Pkg.PkgPath) != "logger/logfile" {
			continue
		}
		info := fi.Pkg.TypesInfo
		ast.Inspect(fi.Decl.Body, func(n ast.Node) bool {
			call, ok := n.(*ast.CallExpr)
			if !ok {
				return true
			}
			c := core.FuncName(fi.Obj)
			if isCallTo(info, call, "time", "Now") {
				r.Viol(rule, c+" reads time.Now", p.Pos(call.Pos()), "the logger reads the system clock directly: the clock offset (SetDelta/SetServerTime) does not reach this use, so it disagrees with the dates the logger rotates, names and prunes by")
				return true
			}
			if fn := calleeFunc(info, call); fn != nil && fn.Pkg() != nil && fn.Pkg() == du.Types {
				if cf := p.FuncOf(fn); cf != nil {
					s := visit(cf, 0)
					if s.reaches && !s.offsetRead && len(offsets) > 0 {
						r.Viol(rule, c+" reads "+fn.Name(), p.Pos(call.Pos()), "dateutil."+fn.Name()+" reads the clock without the offset SetDelta/SetServerTime maintain: this use (the repeat limiter, rotation, retention) does not follow the library clock the rest of the logger goes by")
					} else if s.reaches {
						r.OK(rule, c+" reads "+fn.Name(), p.Pos(call.Pos()), "library clock (offset applied)")
					}
				}
			}
			return true
		})
	}
}
