package props

import (
	"fmt"
	"go/ast"
	"go/token"
	"go/types"
	"strings"

	"golibcheck/internal/bits"
	"golibcheck/internal/core"
	"golibcheck/internal/locks"
	"golibcheck/internal/paths"
)

// C06 — one-way TCP client delivers whole frames, in order, at most once, and recovers.
// Linearisation of concurrent sends, at-most-once and behaviour at every fault point are schedule /
// fault quantifiers with no static handle. Decided: the structural necessary conditions.
func init() { register(&Checker{ID: "C06", Canaries: c06Canaries, Run: runC06}) }

func c06Canaries() []core.Canary {
	return []core.Canary{{RelDir: "net/oneway", Name: "c06", Src: `package oneway

import "github.com/whatap/golib/lang/pack"

// writes to the shared buffered writer outside send(), and gives up the lock before flushing
func (this *OneWayTcpClient) zzCanarySend(p pack.Pack) error {
	oneWayClientSendLock.Lock()
	dout := this.makeData(nil)
	_, err := this.wr.Write(dout.ToByteArray())
	oneWayClientSendLock.Unlock()
	if err != nil {
		return err
	}
	_, err = this.Flush()
	return err
}
`, Expect: []core.CanaryExpect{{Rule: "C06.single-writer", Sub: "zzCanarySend"}, {Rule: "C06.guard", Sub: "zzCanarySend -> Flush"}}}}
}

func runC06(p *core.Program, r *core.Report) {
	r.Explanation = "Structural necessary conditions for the one-way TCP client (net/oneway). Guard: the connection and its buffered writer are shared by direct senders and the background drain; a lock-region dataflow (go/cfg) with the package-level send mutex as the lock computes, for every method, whether the mutex is held at each use of conn/wr and at each call of a method that uses them; every such use must be under the mutex (the constructor runs before publication). Single writer: bytes reach the buffered writer only in send(), which writes the whole frame buffer in one loop, and only Flush() flushes. Close on error: every caller that gets an error from send() reaches Close() before it continues, Close() forgets the connection, send() reconnects when there is none and Connect() replaces the writer together with the connection. Error visibility: a function with a named error result and a deferred recover assigns the error in the handler (otherwise a panic in the send path is reported as success). FIFO: queue mode enqueues at the tail (Queue.Put) and the drain takes from the head; exactly one drain goroutine is started, in the singleton constructor. License in effect: the per-send options are applied to a fresh option struct on every send and the header hashes the per-send license when non-empty, else the client's (shared with C05.frame; the remaining frame layout is C05)."
	r.NotDecided = []string{"linearisation of concurrent sends, at-most-once delivery, loss accounting", "behaviour at every fault point (peer closes before/between/in the middle of frames)"}
	r.Rule("C06.guard", "conn/wr are used only with the send mutex held (or before the client is published)", 8)
	r.Rule("C06.single-writer", "only send() writes to the buffered writer (whole frame in one loop); only Flush() flushes", 2)
	r.Rule("C06.at-most-once", "what is handed to send() was encoded for this call: never a buffer kept in a field of the client (bytes left there from an earlier send would go out again)", 1)
	r.Rule("C06.redial", "every call of Connect tries all configured servers: its dial loop ranges over the whole server list (not from a position remembered in the client, which after one round of failures leaves nothing to try)", 1)
	r.Rule("C06.close-on-error", "after a failed send the caller closes the connection; Close forgets it; send reconnects; Connect replaces conn and writer together", 4)
	r.Rule("C06.error-visible", "deferred recover in a function with a named error result assigns the error", 1)
	r.Rule("C06.fifo", "queue mode: tail enqueue, head dequeue, one drain goroutine", 3)
	r.Rule("C06.license", "each frame hashes the license in effect for that send: options applied to a fresh struct per send; per-send license if non-empty, else the client's", 4)
	c05Frame(p, r, "C06.license", true)
	c06OptionsPure(p, r, "C06.license")
	r.Rule("C06.frame", "every frame is header + int-length-prefixed body: WriteHeader copies the body out of the buffer before it resets the buffer and writes the header in front (shared with C05.frame)", 3)
	c05Frame(p, r, "C06.frame", false)
	r.Rule("C06.encodings", "what a frame carries decodes to the pack that was sent: the variable-length decimal classes and the blob/text length classes the pack bodies are written with are the protocol's (shared with C01.decimal / C01.blob)", 15)
	c01Decimal(p, r, &bits.Interp{P: p}, "C06.encodings")
	c01Blob(p, r, "C06.encodings")
	r.Rule("C06.queue", "the queue behind queue mode keeps its contract (C11's put/get/timeout/wake-up/FIFO rules on util/queue.RequestQueue): nothing accepted is dropped, taken twice or left waiting for ever", 8)
	importQueueRules(p, r, "C06.queue")

	pk := p.Pkg("net/oneway")
	if pk == nil {
		r.Undec("C06.guard", "net/oneway", "-", "package not found")
		return
	}
	tn, _ := pk.Types.Scope().Lookup("OneWayTcpClient").(*types.TypeName)
	lockObj := pk.Types.Scope().Lookup("oneWayClientSendLock")
	if tn == nil || lockObj == nil {
		r.Undec("C06.guard", "net/oneway.OneWayTcpClient", "-", "type or send mutex not found")
		return
	}
	t := tn.Type().(*types.Named)
	tl := locks.AnalyzeWith(p, t, lockObj)
	// needs[f]: calling f requires the caller to hold the send mutex, because f touches conn/wr (or calls
	// something that does) at a point where f itself does not hold it. A method that takes the mutex
	// around its own accesses (Lock ... defer Unlock) needs nothing from its callers. Fixpoint over
	// same-receiver calls; why[f] names the innermost unprotected site.
	needs := map[*types.Func]bool{}
	why := map[*types.Func]string{}
	byObj := map[*types.Func]*locks.FuncLocks{}
	for _, fl := range tl.Order {
		byObj[fl.FI.Obj] = fl
		for _, ac := range fl.Accesses {
			if ac.Alias && !tl.ElemWritten[ac.Field] {
				continue // the map is replaced, never written in place: a snapshot reference is safe to read
			}
			if (ac.Field == "conn" || ac.Field == "wr") && ac.Held != locks.Yes && !needs[fl.FI.Obj] {
				needs[fl.FI.Obj] = true
				why[fl.FI.Obj] = fl.FI.Obj.Name() + " uses " + ac.Field
			}
		}
	}
	for changed := true; changed; {
		changed = false
		for _, fl := range tl.Order {
			if needs[fl.FI.Obj] {
				continue
			}
			for _, c := range fl.Calls {
				if needs[c.Callee] && c.Held != locks.Yes {
					needs[fl.FI.Obj] = true
					why[fl.FI.Obj] = fl.FI.Obj.Name() + " -> " + why[c.Callee]
					changed = true
					break
				}
			}
		}
	}
	for _, fl := range tl.Order {
		name := fl.FI.Obj.Name()
		mname := "net/oneway.OneWayTcpClient." + name
		pos := p.Pos(fl.FI.Decl.Pos())
		if len(fl.Unpaired) > 0 {
			r.Viol("C06.guard", mname+" lock pairing", pos, strings.Join(fl.Unpaired, "; "))
		}
		// roots: exported methods and methods nobody on the same receiver calls (the drain goroutine);
		// an unexported helper with callers passes its requirement up (needs[]) and is judged there
		root := fl.Exported || !hasCaller(tl, fl.FI.Obj)
		seen := map[string]bool{}
		for _, c := range fl.Calls {
			if !needs[c.Callee] {
				continue
			}
			key := mname + " -> " + c.Callee.Name()
			if c.Held == locks.Yes {
				if !seen[key] {
					r.OK("C06.guard", key, p.Pos(c.Pos), "send mutex held")
				}
				seen[key] = true
				continue
			}
			if !root {
				continue
			}
			key += " (send mutex not held)"
			if !seen[key] {
				r.Viol("C06.guard", key, p.Pos(c.Pos), why[c.Callee]+" (the shared connection/buffered writer), and this call is made without the send mutex: it can run concurrently with a direct send (two writers on one bufio.Writer, or Connect replacing the writer under a writer): interleaved or torn frames")
			}
			seen[key] = true
		}
		// a root that touches conn/wr itself without the mutex
		if root && name != "Connect" && name != "Close" && name != "Flush" && name != "send" {
			for _, ac := range fl.Accesses {
				if ac.Alias && !tl.ElemWritten[ac.Field] {
					continue // the map is replaced, never written in place: a snapshot reference is safe to read
				}
				if (ac.Field == "conn" || ac.Field == "wr") && ac.Held != locks.Yes {
					key := mname + " uses " + ac.Field + " (send mutex not held)"
					if !seen[key] {
						r.Viol("C06.guard", key, p.Pos(ac.Pos), "the shared "+ac.Field+" is used without the send mutex")
					}
					seen[key] = true
				}
			}
		}
	}
	// the constructor path (before publication) is exempt: calls from package functions are not in tl.Calls.

	c06SingleWriter(p, r, t)
	c06CloseOnError(p, r, t)
	c06AtMostOnce(p, r, t)
	c06Redial(p, r, t)
	c06ErrorVisible(p, r)
	c06FlushError(p, r)
	c06Fifo(p, r)
	r.Rule("C06.deadline", "a write deadline (an absolute time) is armed for the write that follows it, not once per connection", 1)
	c06Deadline(p, r)
}

func c06SingleWriter(p *core.Program, r *core.Report, t *types.Named) {
	var writers, flushers []string
	for _, fi := range p.MethodsOf(t) {
		if fi.Decl.Body == nil {
			continue
		}
		rn := recvName(fi)
		ast.Inspect(fi.Decl.Body, func(n ast.Node) bool {
			if call, ok := n.(*ast.CallExpr); ok {
				s := strings.ReplaceAll(stripSpaces(types.ExprString(call.Fun)), rn+".", "")
				switch s {
				case "wr.Write", "wr.WriteString", "wr.WriteByte", "conn.Write":
					writers = append(writers, fi.Obj.Name())
				case "wr.Flush":
					flushers = append(flushers, fi.Obj.Name())
				}
			}
			return true
		})
	}
	// one channel to the socket: bytes written to the connection around the buffered writer overtake
	// the frames still waiting in its buffer (order of delivery is no longer order of acceptance)
	oneChannelToSocket(p, r, "C06.single-writer", t)
	okW := len(uniq(writers)) == 1 && writers[0] == "send"
	if okW {
		r.OK("C06.single-writer", "net/oneway.OneWayTcpClient writers of wr", "-", "only send()")
	} else {
		for _, w := range uniq(writers) {
			if w != "send" {
				r.Viol("C06.single-writer", "net/oneway.OneWayTcpClient."+w+" writes wr", "-", "bytes are handed to the shared buffered writer outside send(): frames of concurrent paths can interleave")
			}
		}
		if len(writers) == 0 {
			r.Viol("C06.single-writer", "net/oneway.OneWayTcpClient writers of wr", "-", "nobody writes")
		}
	}
	okF := len(uniq(flushers)) == 1 && flushers[0] == "Flush"
	r.Check(okF, "C06.single-writer", "net/oneway.OneWayTcpClient flushers of wr", "-", "only Flush()", fmt.Sprintf("wr.Flush is called from %v", uniq(flushers)))
	// send writes the whole buffer: loop `for pos < len(sendbuf)` advancing by the count written
	if fi := p.Method("net/oneway", "OneWayTcpClient", "send"); fi != nil {
		ok := false
		info := fi.Pkg.TypesInfo
		objOf := func(e ast.Expr) types.Object {
			if id, isId := ast.Unparen(e).(*ast.Ident); isId {
				return info.ObjectOf(id)
			}
			return nil
		}
		isLenOf := func(e ast.Expr, o types.Object) bool {
			call, isC := ast.Unparen(e).(*ast.CallExpr)
			if !isC || len(call.Args) != 1 {
				return false
			}
			id, isId := call.Fun.(*ast.Ident)
			return isId && id.Name == "len" && o != nil && objOf(call.Args[0]) == o
		}
		isZero := func(e ast.Expr) bool { v, isK := constIntOf(info, e); return isK && v == 0 }
		ast.Inspect(fi.Decl.Body, func(n ast.Node) bool {
			loop, isL := n.(*ast.ForStmt)
			if !isL || loop.Cond == nil {
				return true
			}
			cond, isB := ast.Unparen(loop.Cond).(*ast.BinaryExpr)
			if !isB {
				return true
			}
			// the write inside: n, err := wr.Write(ARG)
			var arg ast.Expr
			var nobj types.Object
			ast.Inspect(loop.Body, func(m ast.Node) bool {
				as, isA := m.(*ast.AssignStmt)
				if !isA || len(as.Lhs) != 2 || len(as.Rhs) != 1 {
					return true
				}
				call, isC := ast.Unparen(as.Rhs[0]).(*ast.CallExpr)
				if !isC || len(call.Args) != 1 {
					return true
				}
				if sel, isS := call.Fun.(*ast.SelectorExpr); isS && sel.Sel.Name == "Write" && strings.HasSuffix(stripSpaces(types.ExprString(sel.X)), ".wr") {
					arg, nobj = call.Args[0], objOf(as.Lhs[0])
				}
				return true
			})
			if arg == nil || nobj == nil {
				return true
			}
			advancedBy := func(target types.Object, sliceForm bool) bool {
				found := false
				ast.Inspect(loop.Body, func(m ast.Node) bool {
					as, isA := m.(*ast.AssignStmt)
					if !isA || len(as.Lhs) != 1 || len(as.Rhs) != 1 || objOf(as.Lhs[0]) != target {
						return true
					}
					if sliceForm {
						// rest = rest[n:]
						if se, isS := ast.Unparen(as.Rhs[0]).(*ast.SliceExpr); isS && se.High == nil && objOf(se.X) == target && objOf(se.Low) == nobj {
							found = true
						}
						return true
					}
					switch as.Tok {
					case token.ADD_ASSIGN:
						if objOf(as.Rhs[0]) == nobj {
							found = true
						}
					case token.ASSIGN:
						if be, isB := ast.Unparen(as.Rhs[0]).(*ast.BinaryExpr); isB && be.Op == token.ADD {
							if (objOf(be.X) == target && objOf(be.Y) == nobj) || (objOf(be.Y) == target && objOf(be.X) == nobj) {
								found = true
							}
						}
					}
					return true
				})
				return found
			}
			switch a := ast.Unparen(arg).(type) {
			case *ast.SliceExpr:
				// for pos < len(buf) { n, err := wr.Write(buf[pos:]); pos += n }
				if a.High != nil || a.Low == nil {
					return true
				}
				// for left := len(buf); left > 0; { n, err := wr.Write(buf[len(buf)-left:]); left -= n }
				if lo, isB := ast.Unparen(a.Low).(*ast.BinaryExpr); isB && lo.Op == token.SUB && objOf(a.X) != nil && isLenOf(lo.X, objOf(a.X)) {
					if left := objOf(lo.Y); left != nil {
						condOK := (cond.Op == token.GTR && objOf(cond.X) == left && isZero(cond.Y)) || (cond.Op == token.LSS && isZero(cond.X) && objOf(cond.Y) == left)
						dec := false
						ast.Inspect(loop.Body, func(m ast.Node) bool {
							if as, isA := m.(*ast.AssignStmt); isA && len(as.Lhs) == 1 && len(as.Rhs) == 1 && objOf(as.Lhs[0]) == left {
								if as.Tok == token.SUB_ASSIGN && objOf(as.Rhs[0]) == nobj {
									dec = true
								}
								if be, isB := ast.Unparen(as.Rhs[0]).(*ast.BinaryExpr); isB && as.Tok == token.ASSIGN && be.Op == token.SUB && objOf(be.X) == left && objOf(be.Y) == nobj {
									dec = true
								}
							}
							return true
						})
						if condOK && dec {
							ok = true
						}
					}
					return true
				}
				buf, pos := objOf(a.X), objOf(a.Low)
				if buf == nil || pos == nil {
					return true
				}
				condOK := (cond.Op == token.LSS && objOf(cond.X) == pos && isLenOf(cond.Y, buf)) || (cond.Op == token.GTR && objOf(cond.Y) == pos && isLenOf(cond.X, buf))
				if condOK && advancedBy(pos, false) {
					ok = true
				}
			case *ast.Ident:
				// for len(rest) > 0 { n, err := wr.Write(rest); rest = rest[n:] }
				rest := objOf(a)
				condOK := ((cond.Op == token.GTR || cond.Op == token.NEQ) && isLenOf(cond.X, rest) && isZero(cond.Y)) || (cond.Op == token.LSS && isZero(cond.X) && isLenOf(cond.Y, rest))
				if condOK && advancedBy(rest, true) {
					ok = true
				}
			}
			return true
		})
		r.Check(ok, "C06.single-writer", "net/oneway.OneWayTcpClient.send whole frame", p.Pos(fi.Decl.Pos()), "loops until every byte of the frame is written", "send() does not loop until the whole frame buffer is written: a short write leaves a split frame")
	}
}

func c06CloseOnError(p *core.Program, r *core.Report, t *types.Named) {
	for _, fi := range p.MethodsOf(t) {
		if fi.Decl.Body == nil {
			continue
		}
		rn := recvName(fi)
		calls := false
		ast.Inspect(fi.Decl.Body, func(n ast.Node) bool {
			if call, ok := n.(*ast.CallExpr); ok && strings.ReplaceAll(stripSpaces(types.ExprString(call.Fun)), rn+".", "") == "send" {
				calls = true
			}
			return true
		})
		if !calls {
			continue
		}
		ps, over := paths.Enumerate(fi.Decl.Body, paths.Config{Info: fi.Pkg.TypesInfo,
			Cond: func(c ast.Expr, v bool) *paths.Event {
				return &paths.Event{Kind: "COND", Arg: fmt.Sprintf("%s=%v", stripSpaces(types.ExprString(c)), v)}
			},
			Classify: func(n ast.Node) []paths.Event {
				var out []paths.Event
				ast.Inspect(n, func(m ast.Node) bool {
					if call, ok := m.(*ast.CallExpr); ok {
						switch strings.ReplaceAll(stripSpaces(types.ExprString(call.Fun)), rn+".", "") {
						case "send":
							out = append(out, paths.Event{Kind: "SENDCALL"})
						case "Close":
							out = append(out, paths.Event{Kind: "CLOSE"})
						}
					}
					return true
				})
				return out
			}})
		c := "net/oneway.OneWayTcpClient." + fi.Obj.Name() + " after failed send"
		if over {
			r.Undec("C06.close-on-error", c, p.Pos(fi.Decl.Pos()), "too many paths")
			continue
		}
		ok := true
		for _, pa := range ps {
			for i, e := range pa {
				if e.Kind != "SENDCALL" {
					continue
				}
				// the error test right after the call
				failed := false
				j := i + 1
				for ; j < len(pa); j++ {
					if pa[j].Kind == "COND" && strings.HasPrefix(pa[j].Arg, "err!=nil=") {
						failed = pa[j].Arg == "err!=nil=true"
						break
					}
					if pa[j].Kind == "SENDCALL" {
						break
					}
				}
				if failed {
					closed := false
					for k := j; k < len(pa) && pa[k].Kind != "SENDCALL"; k++ {
						if pa[k].Kind == "CLOSE" {
							closed = true
						}
					}
					if !closed {
						ok = false
					}
				}
			}
		}
		r.Check(ok, "C06.close-on-error", c, p.Pos(fi.Decl.Pos()), "Close() follows every failed send", "a failed send is not followed by Close(): the next frame is appended to a writer holding a partial frame")
	}
	// Close forgets conn; send reconnects; Connect replaces both
	chk := func(method, want, okmsg, bad string) {
		fi := p.Method("net/oneway", "OneWayTcpClient", method)
		if fi == nil {
			r.Undec("C06.close-on-error", "net/oneway.OneWayTcpClient."+method, "-", "not found")
			return
		}
		s := strings.ReplaceAll(stripSpaces(nodeStringFull(fi.Decl.Body)), recvName(fi)+".", "")
		ok := true
		for _, w := range strings.Split(want, "&") {
			if !strings.Contains(s, w) {
				ok = false
			}
		}
		r.Check(ok, "C06.close-on-error", "net/oneway.OneWayTcpClient."+method+" "+okmsg, p.Pos(fi.Decl.Pos()), okmsg, bad)
	}
	_ = chk
	// path rules: Close: every path that closes the socket also forgets it; Connect: every path that
	// installs a new connection also installs a new buffered writer wrapping that same connection
	connPaths := func(method string) ([]paths.Path, *core.FuncInfo) {
		fi := p.Method("net/oneway", "OneWayTcpClient", method)
		if fi == nil || fi.Decl.Body == nil {
			r.Undec("C06.close-on-error", "net/oneway.OneWayTcpClient."+method, "-", "not found")
			return nil, nil
		}
		info := fi.Pkg.TypesInfo
		rn := recvName(fi)
		norm := func(e ast.Expr) string { return strings.ReplaceAll(stripSpaces(types.ExprString(e)), rn+".", "") }
		rootObj := func(e ast.Expr) types.Object {
			for {
				e = ast.Unparen(e)
				switch v := e.(type) {
				case *ast.TypeAssertExpr:
					e = v.X
					continue
				case *ast.Ident:
					return info.ObjectOf(v)
				}
				return nil
			}
		}
		ps, _ := paths.Enumerate(fi.Decl.Body, paths.Config{Info: info,
			Cond: func(c ast.Expr, v bool) *paths.Event {
				return &paths.Event{Kind: "COND", Arg: condKey(info, norm, c, v), Pos: c.Pos()}
			},
			Classify: func(m ast.Node) []paths.Event {
				var out []paths.Event
				if as, ok := m.(*ast.AssignStmt); ok && len(as.Lhs) == len(as.Rhs) {
					for i, l := range as.Lhs {
						// only the client's own fields count: a local that happens to be called conn is not the connection field
						if _, isField := ast.Unparen(l).(*ast.SelectorExpr); !isField {
							continue
						}
						switch norm(l) {
						case "conn":
							if norm(as.Rhs[i]) == "nil" {
								out = append(out, paths.Event{Kind: "FORGET", Pos: as.Pos()})
							} else {
								arg := ""
								if o := rootObj(as.Rhs[i]); o != nil {
									arg = fmt.Sprint(o.Pos())
								}
								out = append(out, paths.Event{Kind: "SETCONN", Arg: arg, Pos: as.Pos()})
							}
						case "wr":
							arg := "?"
							if call, ok := ast.Unparen(as.Rhs[i]).(*ast.CallExpr); ok && strings.HasPrefix(norm(call.Fun), "bufio.NewWriter") && len(call.Args) >= 1 {
								if o := rootObj(call.Args[0]); o != nil {
									arg = fmt.Sprint(o.Pos())
								}
							}
							out = append(out, paths.Event{Kind: "SETWR", Arg: arg, Pos: as.Pos()})
						}
					}
				}
				ast.Inspect(m, func(k ast.Node) bool {
					if call, ok := k.(*ast.CallExpr); ok && norm(call.Fun) == "conn.Close" {
						out = append(out, paths.Event{Kind: "CLOSESOCK", Pos: call.Pos()})
					}
					return true
				})
				return out
			}})
		return ps, fi
	}
	if ps, fi := connPaths("Close"); fi != nil {
		bad := ""
		closes := 0
		for _, pa := range ps {
			if pa.Has("CLOSESOCK") {
				closes++
				if !pa.Has("FORGET") {
					bad = "a path closes the socket but keeps the connection field: send() would keep using a dead connection"
				}
			}
		}
		if closes == 0 {
			bad = "Close() never closes the socket"
		}
		r.Check(bad == "", "C06.close-on-error", "net/oneway.OneWayTcpClient.Close closes and forgets the connection", p.Pos(fi.Decl.Pos()), "closes and forgets the connection", bad)
	}
	if ps, fi := connPaths("Connect"); fi != nil {
		bad := ""
		sets := 0
		for _, pa := range ps {
			for _, e := range pa {
				if e.Kind != "SETCONN" {
					continue
				}
				sets++
				okW := false
				for _, w := range pa {
					if w.Kind == "SETWR" && w.Arg == e.Arg && e.Arg != "" {
						okW = true
					}
				}
				if !okW && bad == "" {
					bad = "a path installs a new connection without installing a new buffered writer that wraps it (the old writer still points at the dead connection, or holds bytes buffered for it): after a reconnect nothing is delivered / stale bytes are sent: " + pa.String()
				}
			}
		}
		if sets == 0 {
			bad = "Connect() never installs a connection"
		}
		r.Check(bad == "", "C06.close-on-error", "net/oneway.OneWayTcpClient.Connect replaces the writer together with the connection", p.Pos(fi.Decl.Pos()), "replaces the writer together with the connection", bad)
	}
	if fi := p.Method("net/oneway", "OneWayTcpClient", "send"); fi != nil {
		ok := false
		ast.Inspect(fi.Decl.Body, func(n ast.Node) bool {
			if ifs, isIf := n.(*ast.IfStmt); isIf && strings.HasSuffix(stripSpaces(types.ExprString(ifs.Cond)), ".conn==nil") {
				if strings.Contains(stripSpaces(nodeStringFull(ifs.Body)), ".Connect()") || strings.Contains(stripSpaces(types.ExprString(ifs.Body.List[0].(*ast.IfStmt).Init.(*ast.AssignStmt).Rhs[0])), ".Connect()") {
					ok = true
				}
			}
			return true
		})
		if !ok {
			// send() calls Connect() unconditionally and Connect() itself returns at once when a
			// connection is up: the same thing
			callsConnect := false
			for _, st := range fi.Decl.Body.List {
				ast.Inspect(st, func(n ast.Node) bool {
					if _, isLit := n.(*ast.FuncLit); isLit {
						return false
					}
					if call, isC := n.(*ast.CallExpr); isC && strings.HasSuffix(stripSpaces(types.ExprString(call.Fun)), ".Connect") {
						if _, isFor := st.(*ast.ForStmt); !isFor {
							callsConnect = true
						}
					}
					return true
				})
			}
			if cfi := p.Method("net/oneway", "OneWayTcpClient", "Connect"); callsConnect && cfi != nil && cfi.Decl.Body != nil {
				ast.Inspect(cfi.Decl.Body, func(n ast.Node) bool {
					if ifs, isIf := n.(*ast.IfStmt); isIf && strings.HasSuffix(stripSpaces(types.ExprString(ifs.Cond)), ".conn!=nil") && len(ifs.Body.List) > 0 {
						if _, isRet := ifs.Body.List[len(ifs.Body.List)-1].(*ast.ReturnStmt); isRet {
							ok = true
						}
					}
					return true
				})
			}
		}
		r.Check(ok, "C06.close-on-error", "net/oneway.OneWayTcpClient.send reconnects", p.Pos(fi.Decl.Pos()), "connects when there is no connection", "send() does not reconnect when the connection was dropped")
	}
}

// c06FlushError: the error of the network flush/write must reach the caller. In every function of the
// client that calls Flush()/Write() on the buffered writer or the connection and has an error result,
// the path on which that call failed returns a non-nil error: the error value obtained from the call
// (not a shadowed copy that goes out of scope, not nil).
func c06FlushError(p *core.Program, r *core.Report) {
	pk := p.Pkg("net/oneway")
	n := 0
	for _, fi := range p.Funcs {
		if fi.Pkg != pk || fi.Decl.Body == nil || fi.Decl.Type.Results == nil || core.RecvNamed(fi.Obj) == nil {
			continue
		}
		info := fi.Pkg.TypesInfo
		rn := recvName(fi)
		norm := func(e ast.Expr) string { return strings.ReplaceAll(stripSpaces(types.ExprString(e)), rn+".", "") }
		// error variables assigned from a writer/connection operation
		ioErr := map[types.Object]bool{}
		ast.Inspect(fi.Decl.Body, func(m ast.Node) bool {
			as, ok := m.(*ast.AssignStmt)
			if !ok || len(as.Rhs) != 1 {
				return true
			}
			call, ok := ast.Unparen(as.Rhs[0]).(*ast.CallExpr)
			if !ok {
				return true
			}
			s := norm(call.Fun)
			if s != "wr.Flush" && s != "wr.Write" && s != "conn.Write" {
				return true
			}
			for _, l := range as.Lhs {
				if id, ok := l.(*ast.Ident); ok && id.Name != "_" {
					if o := info.ObjectOf(id); o != nil && isErrorType(o.Type()) {
						ioErr[o] = true
					}
				}
			}
			return true
		})
		if len(ioErr) == 0 {
			continue
		}
		// named error result (if any)
		var namedErr types.Object
		errIdx := -1
		i := 0
		for _, f := range fi.Decl.Type.Results.List {
			cnt := len(f.Names)
			if cnt == 0 {
				cnt = 1
			}
			if types.ExprString(f.Type) == "error" {
				errIdx = i
				if len(f.Names) == 1 {
					namedErr = info.Defs[f.Names[0]]
				}
			}
			i += cnt
		}
		if errIdx < 0 {
			continue
		}
		n++
		ps, over := paths.Enumerate(fi.Decl.Body, paths.Config{Info: info,
			Cond: func(c ast.Expr, v bool) *paths.Event {
				// err != nil / err == nil on an io error variable
				if be, ok := ast.Unparen(c).(*ast.BinaryExpr); ok && (be.Op == token.NEQ || be.Op == token.EQL) {
					if id, ok := ast.Unparen(be.X).(*ast.Ident); ok && ioErr[info.ObjectOf(id)] {
						if y, ok := ast.Unparen(be.Y).(*ast.Ident); ok && y.Name == "nil" {
							failed := (be.Op == token.NEQ) == v
							return &paths.Event{Kind: "IOERR", Arg: fmt.Sprintf("%d=%v", info.ObjectOf(id).Pos(), failed), Pos: c.Pos()}
						}
					}
				}
				return nil
			},
			Classify: func(m ast.Node) []paths.Event {
				var out []paths.Event
				if rs, ok := m.(*ast.ReturnStmt); ok {
					arg := "named"
					if errIdx < len(rs.Results) {
						e := ast.Unparen(rs.Results[errIdx])
						if id, ok := e.(*ast.Ident); ok {
							if id.Name == "nil" {
								arg = "nil"
							} else if o := info.ObjectOf(id); o != nil {
								arg = fmt.Sprintf("var:%d", o.Pos())
							}
						} else {
							arg = "expr"
						}
					} else if len(rs.Results) == 0 && namedErr != nil {
						arg = fmt.Sprintf("var:%d", namedErr.Pos())
					}
					out = append(out, paths.Event{Kind: "RETERR", Arg: arg, Pos: rs.Pos()})
				}
				return out
			}})
		c := core.FuncName(fi.Obj) + " io error reaches the caller"
		pos := p.Pos(fi.Decl.Pos())
		if over {
			r.Undec("C06.error-visible", c, pos, "too many paths")
			continue
		}
		bad := ""
		for _, pa := range ps {
			for _, e := range pa {
				if e.Kind != "IOERR" || !strings.HasSuffix(e.Arg, "=true") {
					continue
				}
				failedVar := strings.TrimSuffix(e.Arg, "=true")
				ret := ""
				for _, x := range pa {
					if x.Kind == "RETERR" {
						ret = x.Arg
					}
				}
				switch {
				case ret == "nil":
					bad = "after a failed flush/write the function returns nil: a dropped frame is reported as delivered"
				case strings.HasPrefix(ret, "var:") && ret != "var:"+failedVar:
					bad = "after a failed flush/write the function returns a different error variable than the one that holds the failure (the failure was stored in a shadowed variable): the caller sees nil and a dropped frame counts as delivered"
				}
			}
		}
		r.Check(bad == "", "C06.error-visible", c, pos, "the failure of the network operation is what the function returns", bad)
	}
	if n == 0 {
		r.Undec("C06.error-visible", "net/oneway flush/write error", "-", "no function returning the error of a writer/connection operation found")
	}
}

// c06ErrorVisible: func f(...) (err error) { defer func(){ if r := recover(); r != nil { ... } }() } must set err.
func c06ErrorVisible(p *core.Program, r *core.Report) {
	pk := p.Pkg("net/oneway")
	for _, fi := range p.Funcs {
		if fi.Pkg != pk || fi.Decl.Body == nil || fi.Decl.Type.Results == nil {
			continue
		}
		errName := ""
		for _, f := range fi.Decl.Type.Results.List {
			if types.ExprString(f.Type) == "error" && len(f.Names) == 1 {
				errName = f.Names[0].Name
			}
		}
		if errName == "" {
			continue
		}
		ast.Inspect(fi.Decl.Body, func(n ast.Node) bool {
			d, ok := n.(*ast.DeferStmt)
			if !ok {
				return true
			}
			lit, ok := d.Call.Fun.(*ast.FuncLit)
			if !ok {
				return true
			}
			recovers, sets := false, false
			ast.Inspect(lit.Body, func(m ast.Node) bool {
				switch v := m.(type) {
				case *ast.CallExpr:
					if id, ok := v.Fun.(*ast.Ident); ok && id.Name == "recover" {
						recovers = true
					}
				case *ast.AssignStmt:
					for _, l := range v.Lhs {
						if id, ok := l.(*ast.Ident); ok && id.Name == errName {
							sets = true
						}
					}
				}
				return true
			})
			if recovers {
				c := core.FuncName(fi.Obj) + " recovered panic"
				r.Check(sets, "C06.error-visible", c, p.Pos(d.Pos()), "the handler assigns the named error", "a panic in the send path is recovered and the function returns a nil error: the frame is lost but reported as sent, and the caller does not close the connection")
			}
			return true
		})
	}
}

func c06Fifo(p *core.Program, r *core.Report) {
	sf := p.Method("net/oneway", "OneWayTcpClient", "SendFlush")
	if sf != nil {
		s := stripSpaces(nodeStringFull(sf.Decl.Body))
		var put bool
		ast.Inspect(sf.Decl.Body, func(n ast.Node) bool {
			if call, ok := n.(*ast.CallExpr); ok && strings.HasSuffix(stripSpaces(types.ExprString(call.Fun)), ".Queue.Put") {
				put = true
			}
			return true
		})
		_ = s
		r.Check(put, "C06.fifo", "net/oneway.OneWayTcpClient.SendFlush enqueue", p.Pos(sf.Decl.Pos()), "Queue.Put (tail; refusal reported as an error)", "queue mode does not enqueue with Queue.Put")
		// in queue mode everything accepted goes through the queue: on no path that found UseQueue set
		// is the pack written directly (it would overtake the packs still waiting in the queue)
		info := sf.Pkg.TypesInfo
		rn := recvName(sf)
		norm := func(e ast.Expr) string {
			return strings.ReplaceAll(stripSpaces(types.ExprString(e)), rn+".", "")
		}
		in := newInliner(p, sf, func(fn *types.Func) bool { return fn.Name() == "sendDirect" || fn.Name() == "send" })
		ps, over := paths.Enumerate(sf.Decl.Body, paths.Config{Info: info, Expand: in.Expand, Inline: in.Body,
			Cond: func(c ast.Expr, v bool) *paths.Event {
				return &paths.Event{Kind: "COND", Arg: condKey(info, norm, c, v), Pos: c.Pos()}
			},
			Classify: func(n ast.Node) []paths.Event {
				var out []paths.Event
				ast.Inspect(n, func(m ast.Node) bool {
					if _, isLit := m.(*ast.FuncLit); isLit {
						return false
					}
					if call, ok := m.(*ast.CallExpr); ok {
						f := norm(call.Fun)
						switch {
						case strings.HasSuffix(f, "Queue.Put"):
							out = append(out, paths.Event{Kind: "PUT", Pos: call.Pos()})
						case f == "sendDirect" || f == "send":
							out = append(out, paths.Event{Kind: "DIRECT", Pos: call.Pos()})
						}
					}
					return true
				})
				return out
			}})
		bypass := ""
		sawQ := false
		for _, pa := range ps {
			if !pa.Consistent() || !pa.HasArg("COND", "UseQueue=true") {
				continue
			}
			sawQ = true
			if pa.Has("DIRECT") {
				bypass = "with UseQueue set a path writes the pack directly instead of queueing it (" + pa.String() + "): it reaches the collector before packs accepted earlier that are still in the queue"
			}
		}
		if !over && sawQ {
			r.Check(bypass == "", "C06.fifo", "net/oneway.OneWayTcpClient.SendFlush queue mode", p.Pos(sf.Decl.Pos()), "every path that finds UseQueue set enqueues and never sends directly", bypass)
		}
	}
	// drain: process/SendAndClear take with GetTimeout/GetNoWait
	for _, m := range []string{"process", "SendAndClear"} {
		fi := p.Method("net/oneway", "OneWayTcpClient", m)
		if fi == nil {
			continue
		}
		var takes []string
		// the drain and the unexported same-receiver helpers it is split into
		drain := sameRecvClosure(p, fi, 3)
		for _, df := range drain {
			ast.Inspect(df.Decl.Body, func(n ast.Node) bool {
				if call, ok := n.(*ast.CallExpr); ok {
					s := stripSpaces(types.ExprString(call.Fun))
					if strings.Contains(s, ".Queue.") && strings.Contains(s, "Get") {
						takes = append(takes, s[strings.LastIndex(s, ".")+1:])
					}
				}
				return true
			})
		}
		ok := len(takes) > 0
		for _, t := range takes {
			if t != "GetTimeout" && t != "GetNoWait" && t != "Get" {
				ok = false
			}
		}
		// the drain only takes: putting a pack back (at the tail, behind packs accepted later) breaks
		// the acceptance order and can duplicate frames after a reconnect
		var puts []string
		for _, df := range drain {
			ast.Inspect(df.Decl.Body, func(n ast.Node) bool {
				if call, isCall := n.(*ast.CallExpr); isCall {
					s := stripSpaces(types.ExprString(call.Fun))
					if strings.Contains(s, ".Queue.") && (strings.Contains(s, "Put") || strings.Contains(s, "Add")) {
						puts = append(puts, s[strings.LastIndex(s, ".")+1:]+" at "+p.Pos(call.Pos()))
					}
				}
				return true
			})
		}
		why := "the drain does not take from the head of the queue"
		if len(puts) > 0 {
			ok = false
			why = "the drain puts a pack back on the queue (" + strings.Join(puts, ", ") + "): it lands behind packs accepted later, so frames leave out of acceptance order (and may be sent twice)"
		}
		r.Check(ok, "C06.fifo", "net/oneway.OneWayTcpClient."+m+" dequeue", p.Pos(fi.Decl.Pos()), "takes from the head ("+strings.Join(uniq(takes), ",")+"), never re-enqueues", why)
	}
	// one drain goroutine, started in the singleton constructor
	pk := p.Pkg("net/oneway")
	var starters []string
	for _, fi := range p.Funcs {
		if fi.Pkg != pk || fi.Decl.Body == nil {
			continue
		}
		var loops []ast.Node
		ast.Inspect(fi.Decl.Body, func(n ast.Node) bool {
			switch n.(type) {
			case *ast.ForStmt, *ast.RangeStmt:
				loops = append(loops, n)
			}
			if g, ok := n.(*ast.GoStmt); ok && strings.HasSuffix(stripSpaces(types.ExprString(g.Call.Fun)), ".process") {
				starters = append(starters, fi.Obj.Name())
				// a go statement inside a loop starts as many drains as the loop runs
				for _, l := range loops {
					if l.Pos() <= g.Pos() && g.End() <= l.End() {
						starters = append(starters, fi.Obj.Name()+" (in a loop)")
					}
				}
			}
			return true
		})
	}
	r.Check(len(starters) == 1 && starters[0] == "GetOneWayTcpClient", "C06.fifo", "net/oneway drain goroutine", "-", "started once, in the singleton constructor", fmt.Sprintf("the drain goroutine is started from %v: two drains reorder queued frames", starters))
}

func hasCaller(tl *locks.TypeLocks, f *types.Func) bool {
	for _, fl := range tl.Order {
		for _, c := range fl.Calls {
			if c.Callee == f {
				return true
			}
		}
	}
	return false
}

// sameRecvClosure: fi and the unexported methods of the same receiver type it calls (transitively, up
// to depth), each once.
func sameRecvClosure(p *core.Program, fi *core.FuncInfo, depth int) []*core.FuncInfo {
	rt := core.RecvNamed(fi.Obj)
	seen := map[*core.FuncInfo]bool{}
	var out []*core.FuncInfo
	var walk func(f *core.FuncInfo, d int)
	walk = func(f *core.FuncInfo, d int) {
		if f == nil || f.Decl.Body == nil || seen[f] {
			return
		}
		seen[f] = true
		out = append(out, f)
		if d >= depth || rt == nil {
			return
		}
		info := f.Pkg.TypesInfo
		ast.Inspect(f.Decl.Body, func(n ast.Node) bool {
			if call, ok := n.(*ast.CallExpr); ok {
				if fn := calleeFunc(info, call); fn != nil && !fn.Exported() {
					if cf := p.FuncOf(fn); cf != nil {
						if n2 := core.RecvNamed(cf.Obj); n2 != nil && n2.Obj() == rt.Obj() {
							walk(cf, d+1)
						}
					}
				}
			}
			return true
		})
	}
	walk(fi, 0)
	return out
}

// c06AtMostOnce: every call of send() in the client's methods gets bytes that are local to the call
// (the freshly encoded frame, or a local derived from it), not a slice stored in the client.
func c06AtMostOnce(p *core.Program, r *core.Report, t *types.Named) {
	for _, fi := range p.MethodsOf(t) {
		if fi.Decl.Body == nil || fi.Obj.Name() == "send" {
			continue
		}
		info := fi.Pkg.TypesInfo
		rn := recvName(fi)
		var probs []string
		n := 0
		ast.Inspect(fi.Decl.Body, func(m ast.Node) bool {
			call, ok := m.(*ast.CallExpr)
			if !ok || len(call.Args) != 1 {
				return true
			}
			sel, ok := call.Fun.(*ast.SelectorExpr)
			if !ok || sel.Sel.Name != "send" {
				return true
			}
			if id, ok := ast.Unparen(sel.X).(*ast.Ident); !ok || id.Name != rn {
				return true
			}
			n++
			arg := expandLocals(info, fi.Decl.Body, call.Args[0])
			if root := rootOf(arg); root != nil && root.Name == rn {
				if _, isCall := ast.Unparen(arg).(*ast.CallExpr); !isCall {
					probs = append(probs, fmt.Sprintf("send() at %s is handed `%s`, storage of the client that outlives the call", p.Pos(call.Pos()), stripSpaces(types.ExprString(call.Args[0]))))
				}
			}
			return true
		})
		if n > 0 {
			fileProbs(r, "C06.at-most-once", "net/oneway.OneWayTcpClient."+fi.Obj.Name(), p.Pos(fi.Decl.Pos()), probs, fmt.Sprintf("%d send() call(s), each on bytes encoded for that call", n))
		}
	}
}

// c06Redial: the loop of Connect that dials the servers covers the list from its first element on every
// call: `for _, h := range this.Servers`, or a counter that starts at the constant 0 and runs to
// len(this.Servers). A loop whose position is a field of the client (or that starts elsewhere) is
// reported.
func c06Redial(p *core.Program, r *core.Report, t *types.Named) {
	for _, fi := range p.MethodsOf(t) {
		if fi.Decl.Body == nil || fi.Obj.Name() != "Connect" {
			continue
		}
		info := fi.Pkg.TypesInfo
		rn := recvName(fi)
		isServers := func(e ast.Expr) bool {
			if id, isId := ast.Unparen(e).(*ast.Ident); isId && info.ObjectOf(id) != nil {
				e = expandLocals(info, fi.Decl.Body, id) // servers := this.Servers
			}
			sel, ok := ast.Unparen(e).(*ast.SelectorExpr)
			if !ok {
				return false
			}
			_, isSlice := info.TypeOf(sel).Underlying().(*types.Slice)
			id, ok := ast.Unparen(sel.X).(*ast.Ident)
			return ok && id.Name == rn && isSlice && strings.Contains(strings.ToLower(sel.Sel.Name), "server")
		}
		mentionsServers := func(n ast.Node) bool {
			found := false
			ast.Inspect(n, func(m ast.Node) bool {
				if e, ok := m.(ast.Expr); ok && isServers(e) {
					found = true
				}
				return true
			})
			return found
		}
		var probs []string
		loops := 0
		ast.Inspect(fi.Decl.Body, func(n ast.Node) bool {
			switch v := n.(type) {
			case *ast.RangeStmt:
				if isServers(v.X) {
					loops++
				}
			case *ast.ForStmt:
				if (v.Cond == nil || !mentionsServers(v.Cond)) && !mentionsServers(v.Body) {
					return true
				}
				if v.Cond != nil && !mentionsServers(v.Cond) {
					return true
				}
				loops++
				init, ok := v.Init.(*ast.AssignStmt)
				start := ""
				if !ok || len(init.Lhs) != 1 || len(init.Rhs) != 1 || init.Tok != token.DEFINE {
					start = "has no counter of its own starting at 0"
				} else if k, isC := constIntOf(info, init.Rhs[0]); !isC || k != 0 {
					start = "starts at `" + stripSpaces(types.ExprString(init.Rhs[0])) + "`, not at the first server"
				}
				if start != "" {
					probs = append(probs, fmt.Sprintf("the dial loop at %s %s: servers before that position are never tried again, and once the position has run past the end nothing is", p.Pos(v.Pos()), start))
				}
			}
			return true
		})
		c := "net/oneway.OneWayTcpClient.Connect"
		if loops == 0 {
			r.Undec("C06.redial", c, p.Pos(fi.Decl.Pos()), "no loop over the server list found")
			continue
		}
		fileProbs(r, "C06.redial", c, p.Pos(fi.Decl.Pos()), probs, "the dial loop covers the whole server list on every call")
	}
}

// c06Deadline: SetWriteDeadline / SetDeadline take an absolute point in time. A deadline computed
// from time.Now() bounds the writes that follow it in the same function (or, when it sits in a helper
// that only arms it, in the callers of that helper); armed once where the connection is made, with no
// write after it, it is a limit on the connection's age: once the connection is older than Timeout
// every write on the healthy link fails and what was accepted is dropped.
func c06Deadline(p *core.Program, r *core.Report) {
	pk := p.Pkg("net/oneway")
	if pk == nil {
		return
	}
	// functions of the package that write to the connection, directly or through one another
	writers := map[*types.Func]bool{}
	directWrite := func(info *types.Info, call *ast.CallExpr) bool {
		sel, ok := ast.Unparen(call.Fun).(*ast.SelectorExpr)
		if !ok {
			return false
		}
		switch sel.Sel.Name {
		case "Write", "Flush", "WriteString", "ReadFrom":
			if t := info.TypeOf(sel.X); t != nil {
				ts := t.String()
				return strings.Contains(ts, "bufio.Writer") || strings.Contains(ts, "net.Conn") || strings.Contains(ts, "net.TCPConn") || strings.Contains(ts, "io.Writer")
			}
		}
		return false
	}
	for round := 0; round < 4; round++ {
		for _, wf := range p.Funcs {
			if wf.Pkg != pk || wf.Decl.Body == nil || writers[wf.Obj] {
				continue
			}
			ast.Inspect(wf.Decl.Body, func(n ast.Node) bool {
				if call, ok := n.(*ast.CallExpr); ok {
					if directWrite(wf.Pkg.TypesInfo, call) {
						writers[wf.Obj] = true
					} else if fn := calleeFunc(wf.Pkg.TypesInfo, call); fn != nil && writers[fn] {
						writers[wf.Obj] = true
					}
				}
				return true
			})
		}
	}
	writesAfter := func(fi *core.FuncInfo, after token.Pos) bool {
		found := false
		ast.Inspect(fi.Decl.Body, func(n ast.Node) bool {
			call, ok := n.(*ast.CallExpr)
			if !ok || call.Pos() <= after {
				return true
			}
			if fn := calleeFunc(fi.Pkg.TypesInfo, call); fn != nil && writers[fn] {
				found = true
				return true
			}
			sel, ok := ast.Unparen(call.Fun).(*ast.SelectorExpr)
			if !ok {
				return true
			}
			switch sel.Sel.Name {
			case "Write", "Flush", "WriteString", "ReadFrom":
				if t := fi.Pkg.TypesInfo.TypeOf(sel.X); t != nil {
					ts := t.String()
					if strings.Contains(ts, "bufio.Writer") || strings.Contains(ts, "net.Conn") || strings.Contains(ts, "net.TCPConn") || strings.Contains(ts, "io.Writer") {
						found = true
					}
				}
			case "send", "Flush_":
				found = true
			}
			return true
		})
		return found
	}
	for _, fi := range p.Funcs {
		if fi.Pkg != pk || fi.Decl.Body == nil {
			continue
		}
		info := fi.Pkg.TypesInfo
		ast.Inspect(fi.Decl.Body, func(n ast.Node) bool {
			call, ok := n.(*ast.CallExpr)
			if !ok || len(call.Args) != 1 {
				return true
			}
			sel, ok := ast.Unparen(call.Fun).(*ast.SelectorExpr)
			if !ok || (sel.Sel.Name != "SetWriteDeadline" && sel.Sel.Name != "SetDeadline") {
				return true
			}
			fn, _ := info.Uses[sel.Sel].(*types.Func)
			if fn == nil || fn.Pkg() == nil || fn.Pkg().Path() != "net" {
				return true
			}
			// the zero time clears a deadline
			if cl, ok := ast.Unparen(call.Args[0]).(*ast.CompositeLit); ok && len(cl.Elts) == 0 {
				return true
			}
			ok2 := writesAfter(fi, call.Pos())
			if !ok2 {
				// a helper that only arms the deadline: every caller in the package writes after the call
				callers, all := 0, true
				for _, cf := range p.Funcs {
					if cf.Pkg != pk || cf.Decl.Body == nil || cf == fi {
						continue
					}
					ast.Inspect(cf.Decl.Body, func(m ast.Node) bool {
						if c2, ok := m.(*ast.CallExpr); ok && calleeFunc(cf.Pkg.TypesInfo, c2) == fi.Obj {
							callers++
							if !writesAfter(cf, c2.Pos()) {
								all = false
							}
						}
						return true
					})
				}
				ok2 = callers > 0 && all
			}
			r.Check(ok2, "C06.deadline", core.FuncName(fi.Obj)+" "+sel.Sel.Name, p.Pos(call.Pos()), "the deadline is armed for a write that follows it",
				"an absolute deadline is armed here and no write to the connection follows in this function (or in the callers of this helper): it is a limit on the connection's age, and once the connection is older than the timeout every send on the healthy link fails")
			return true
		})
	}
}

// c06OptionsPure: a per-send option is made from its arguments alone. The functions of package net
// that build a TcpClientOption (WithLicense, WithSecureFlag, …), and the function literals inside
// them, read and write no package-level variable: an option that looks at shared state when it is
// applied labels a frame with whatever a later caller put there.
func c06OptionsPure(p *core.Program, r *core.Report, rule string) {
	pk := p.Pkg("net")
	if pk == nil {
		r.Undec(rule, "net", "-", "package not found")
		return
	}
	n := 0
	for _, fi := range p.Funcs {
		if fi.Pkg != pk || fi.Decl.Body == nil || fi.Decl.Recv != nil {
			continue
		}
		sig := fi.Obj.Type().(*types.Signature)
		if sig.Results().Len() != 1 {
			continue
		}
		nt := namedOf(sig.Results().At(0).Type())
		if nt == nil || nt.Obj().Name() != "TcpClientOption" || nt.Obj().Pkg() != pk.Types {
			continue
		}
		if sig.Params().Len() == 0 {
			continue
		}
		n++
		info := fi.Pkg.TypesInfo
		var shared []string
		ast.Inspect(fi.Decl.Body, func(m ast.Node) bool {
			if id, ok := m.(*ast.Ident); ok {
				if v, ok := info.Uses[id].(*types.Var); ok && v.Pkg() != nil && v.Parent() == v.Pkg().Scope() && strings.HasPrefix(v.Pkg().Path(), core.ModPath) {
					shared = append(shared, v.Name())
				}
			}
			return true
		})
		c := core.FuncName(fi.Obj) + " argument-only"
		if len(shared) > 0 {
			r.Viol(rule, c, p.Pos(fi.Decl.Pos()), fmt.Sprintf("the option constructor uses package-level state %v: what the option does when it is applied depends on other calls, so a frame can carry the license (flag, priority) of a different send", uniq(shared)))
		} else {
			r.OK(rule, c, p.Pos(fi.Decl.Pos()), "built from its arguments only")
		}
	}
	if n == 0 {
		r.Undec(rule, "net option constructors", "-", "no function returning TcpClientOption found")
	}
}

// oneChannelToSocket: the client's connection is written only through its buffered writer. Bytes handed
// to conn.Write directly overtake (or are spliced into) the frames still waiting in the writer's buffer:
// the byte stream is then no longer a sequence of whole frames in the order they were accepted.
func oneChannelToSocket(p *core.Program, r *core.Report, rule string, t *types.Named) {
	var direct []string
	for _, fi := range p.MethodsOf(t) {
		if fi.Decl.Body == nil {
			continue
		}
		rn := recvName(fi)
		ast.Inspect(fi.Decl.Body, func(n ast.Node) bool {
			if call, ok := n.(*ast.CallExpr); ok {
				s := strings.ReplaceAll(stripSpaces(types.ExprString(call.Fun)), rn+".", "")
				if s == "conn.Write" {
					direct = append(direct, fi.Obj.Name()+" at "+p.Pos(call.Pos()))
				}
			}
			return true
		})
	}
	r.Check(len(direct) == 0, rule, "net/oneway.OneWayTcpClient direct writes to conn", "-", "every byte goes through the buffered writer",
		fmt.Sprintf("the connection is written directly, around the buffered writer (%v): such a frame overtakes the frames still in the buffer", direct))
}
