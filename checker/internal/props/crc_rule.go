package props

import (
	"fmt"
	"go/ast"
	"go/constant"
	"go/token"
	"go/types"

	"golibcheck/internal/bits"
	"golibcheck/internal/core"
)

// foldLoop is the abstract form of `acc := INIT; for i := 0; i < len(bs); i++ { b := bs[i]; acc = F(acc,b) }; acc = G(acc); return conv(acc)`.
type foldLoop struct {
	Width   int
	Init    bits.Vec // value of the accumulator before the loop
	Step    bits.Vec // accumulator after one iteration, in terms of inputs acc.* and b.*
	Final   bits.Vec // returned value in terms of acc.* (after the loop)
	AccName string
	Why     string
	EmptyGuard string // "nil", "len0", "" — early `return 0` guard
	Tables  map[string]bool
}

// analyzeFold interprets a table-driven hash function of that shape.
func analyzeFold(p *core.Program, fi *core.FuncInfo) *foldLoop {
	out := &foldLoop{}
	if fi == nil || fi.Decl.Body == nil {
		out.Why = "function not found"
		return out
	}
	info := fi.Pkg.TypesInfo
	ip := &bits.Interp{P: p}
	ip.TableAlias = crcTableAliases(p, fi)
	body := fi.Decl.Body.List
	// unwrap `if sz := len(b); sz == 0 { return 0 } else { ... }` and `if b == nil { return 0 }`
	for len(body) > 0 {
		// a leading `n := len(bytes)` before the empty-input guard: keep it for the loop-bound check and
		// look at the guard behind it
		gi := 0
		for gi < len(body) {
			as, ok := body[gi].(*ast.AssignStmt)
			if !ok || len(as.Rhs) != 1 {
				break
			}
			call, ok := as.Rhs[0].(*ast.CallExpr)
			if !ok {
				break
			}
			if id, ok := call.Fun.(*ast.Ident); !ok || id.Name != "len" {
				break
			}
			gi++
		}
		if gi >= len(body) {
			break
		}
		ifs, ok := body[gi].(*ast.IfStmt)
		if !ok {
			break
		}
		if gi > 0 && ifs.Else == nil {
			// keep the length definitions, drop the guard
			nb := append([]ast.Stmt{}, body[:gi]...)
			guardBody := ifs.Body
			if len(guardBody.List) == 1 {
				if rs, ok := guardBody.List[0].(*ast.ReturnStmt); ok && len(rs.Results) == 1 {
					if tv, ok := info.Types[rs.Results[0]]; ok && tv.Value != nil && tv.Value.ExactString() == "0" {
						if be, ok := ifs.Cond.(*ast.BinaryExpr); ok && be.Op == token.EQL {
							out.EmptyGuard = "len0"
							body = append(nb, body[gi+1:]...)
						}
					}
				}
			}
			break
		}
		if gi > 0 {
			break
		}
		ret0 := func(b *ast.BlockStmt) bool {
			if len(b.List) != 1 {
				return false
			}
			rs, ok := b.List[0].(*ast.ReturnStmt)
			if !ok || len(rs.Results) != 1 {
				return false
			}
			tv, ok := info.Types[rs.Results[0]]
			return ok && tv.Value != nil && tv.Value.ExactString() == "0"
		}
		if !ret0(ifs.Body) {
			break
		}
		be, ok := ifs.Cond.(*ast.BinaryExpr)
		if !ok || be.Op != token.EQL {
			break
		}
		if id, ok := be.Y.(*ast.Ident); ok && id.Name == "nil" {
			out.EmptyGuard = "nil"
		} else {
			out.EmptyGuard = "len0"
		}
		if ifs.Else != nil {
			body = ifs.Else.(*ast.BlockStmt).List
		} else {
			body = body[1:]
		}
		break
	}
	// the whole body delegated to an unexported helper of the package: return hashBody(bytes)
	if len(body) == 1 {
		if rs, ok := body[0].(*ast.ReturnStmt); ok && len(rs.Results) == 1 {
			if call, ok := ast.Unparen(rs.Results[0]).(*ast.CallExpr); ok && len(call.Args) == 1 {
				if fn := calleeFunc(info, call); fn != nil && !fn.Exported() && fn.Pkg() == fi.Obj.Pkg() {
					if _, isParam := ast.Unparen(call.Args[0]).(*ast.Ident); isParam {
						if cfi := p.FuncOf(fn); cfi != nil && cfi != fi && cfi.Decl.Body != nil {
							sub := analyzeFold(p, cfi)
							if sub.EmptyGuard == "" {
								sub.EmptyGuard = out.EmptyGuard
							}
							return sub
						}
					}
				}
			}
		}
	}
	fr := ip.NewFrame(fi)
	// locate the loop
	li := -1
	for i, s := range body {
		switch s.(type) {
		case *ast.ForStmt, *ast.RangeStmt:
			li = i
		}
		if li >= 0 {
			break
		}
	}
	if li < 0 {
		out.Why = "no byte loop"
		return out
	}
	// pre-loop statements (skip `sz := len(bytes)`)
	var lenVar types.Object
	for _, s := range body[:li] {
		if as, ok := s.(*ast.AssignStmt); ok && len(as.Rhs) == 1 {
			if call, ok := as.Rhs[0].(*ast.CallExpr); ok {
				if id, ok := call.Fun.(*ast.Ident); ok && id.Name == "len" {
					if lid, ok := as.Lhs[0].(*ast.Ident); ok {
						lenVar = info.ObjectOf(lid)
					}
					continue
				}
			}
		}
		ip.Exec(fr, s)
		if fr.Err() != "" {
			out.Why = "pre-loop: " + fr.Err()
			return out
		}
	}
	// the loop visits the bytes 0..len-1 in order: either the canonical counted loop
	// `for i := 0; i < sz|len(bytes); i++ { b := bytes[i] ... }` or `for _, b := range bytes`
	var iobj, bobj types.Object
	var loopBody *ast.BlockStmt
	switch loop := body[li].(type) {
	case *ast.RangeStmt:
		if loop.Value == nil {
			// for i := range bytes { b := bytes[i] }
			if kid, ok := loop.Key.(*ast.Ident); ok {
				iobj = info.ObjectOf(kid)
			}
		} else if vid, ok := loop.Value.(*ast.Ident); ok {
			bobj = info.ObjectOf(vid)
		}
		if !isByteSliceOrString(info.TypeOf(loop.X)) {
			out.Why = "range loop is not over the input bytes"
			return out
		}
		loopBody = loop.Body
	case *ast.ForStmt:
		init, ok1 := loop.Init.(*ast.AssignStmt)
		cond, ok2 := loop.Cond.(*ast.BinaryExpr)
		post, ok3 := loop.Post.(*ast.IncDecStmt)
		if !ok1 || !ok2 || !ok3 || cond.Op != token.LSS || post.Tok != token.INC || len(init.Rhs) != len(init.Lhs) {
			out.Why = "loop is not `for i := 0; i < n; i++`"
			return out
		}
		// for i, n := 0, len(bytes); i < n; i++ : the counter is the variable stepped by the post statement
		pid, _ := post.X.(*ast.Ident)
		for k, l := range init.Lhs {
			lid, ok := l.(*ast.Ident)
			if !ok {
				continue
			}
			if pid != nil && info.ObjectOf(lid) == info.ObjectOf(pid) {
				if tv, ok := info.Types[init.Rhs[k]]; !ok || tv.Value == nil || constant.Compare(tv.Value, token.NEQ, constant.MakeInt64(0)) {
					out.Why = "loop does not start at byte 0"
					return out
				}
				iobj = info.ObjectOf(lid)
			} else if call, ok := ast.Unparen(init.Rhs[k]).(*ast.CallExpr); ok {
				if id, ok := call.Fun.(*ast.Ident); ok && id.Name == "len" {
					lenVar = info.ObjectOf(lid)
				}
			}
		}
		if iobj == nil {
			out.Why = "loop is not `for i := 0; i < n; i++`"
			return out
		}
		boundOK := false
		switch b := ast.Unparen(cond.Y).(type) {
		case *ast.Ident:
			o := info.ObjectOf(b)
			boundOK = o == lenVar || isLenIf(info, fi, o)
		case *ast.CallExpr:
			if id, ok := b.Fun.(*ast.Ident); ok && id.Name == "len" {
				boundOK = true
			}
		}
		if !boundOK {
			out.Why = "loop bound is not the length of the input"
			return out
		}
		loopBody = loop.Body
	}
	// find the accumulator: the variable assigned in the body that is also live before the loop
	var acc types.Object
	ast.Inspect(loopBody, func(n ast.Node) bool {
		if as, ok := n.(*ast.AssignStmt); ok && as.Tok != token.DEFINE {
			if id, ok := as.Lhs[0].(*ast.Ident); ok {
				if o := info.ObjectOf(id); fr.Lookup(o) != nil {
					acc = o
				}
			}
		}
		return true
	})
	if acc == nil {
		out.Why = "no accumulator updated in the loop"
		return out
	}
	iv := fr.Lookup(acc)
	out.Init = iv.V
	out.Width = len(iv.V)
	out.AccName = acc.Name()
	// one symbolic iteration
	fr.Bind(acc, &bits.Value{V: bits.Input("acc", out.Width), Sign: iv.Sign})
	if bobj != nil {
		fr.Bind(bobj, &bits.Value{V: bits.Input("b", 8)})
	}
	if iobj != nil {
		// bytes[i] used in place: the byte of this iteration
		fr.Bind(iobj, &bits.Value{V: bits.Const(0, 64), Sign: true})
		ast.Inspect(loopBody, func(n ast.Node) bool {
			if ix, ok := n.(*ast.IndexExpr); ok {
				if id, ok := ast.Unparen(ix.Index).(*ast.Ident); ok && info.ObjectOf(id) == iobj {
					if sid, ok := ast.Unparen(ix.X).(*ast.Ident); ok && isByteSliceOrString(info.TypeOf(sid)) {
						fr.Bind(info.ObjectOf(sid), &bits.Value{B: &bits.Bytes{Name: "in", Cells: map[int]bits.Vec{0: bits.Input("b", 8)}, Len: -1, Input: true}})
					}
				}
			}
			return true
		})
	}
	for _, s := range loopBody.List {
		// b := bytes[i]
		if as, ok := s.(*ast.AssignStmt); ok && len(as.Rhs) == 1 {
			if ix, ok := as.Rhs[0].(*ast.IndexExpr); ok {
				if id, ok := ix.Index.(*ast.Ident); ok && iobj != nil && info.ObjectOf(id) == iobj {
					if lid, ok := as.Lhs[0].(*ast.Ident); ok {
						fr.Bind(info.ObjectOf(lid), &bits.Value{V: bits.Input("b", 8)})
						continue
					}
				}
			}
		}
		ip.Exec(fr, s)
		if fr.Err() != "" {
			out.Why = "loop body: " + fr.Err()
			return out
		}
	}
	out.Step = fr.Lookup(acc).V
	// post-loop with a fresh accumulator
	fr.Bind(acc, &bits.Value{V: bits.Input("acc", out.Width), Sign: iv.Sign})
	for _, s := range body[li+1:] {
		ip.Exec(fr, s)
		if fr.Err() != "" {
			out.Why = "post-loop: " + fr.Err()
			return out
		}
	}
	if fr.Returned() == nil || fr.Returned().V == nil {
		out.Why = "no integer result"
		return out
	}
	out.Final = fr.Returned().V
	out.Tables = ip.Tables
	return out
}

func isByteSliceOrString(t types.Type) bool {
	if t == nil {
		return false
	}
	switch u := t.Underlying().(type) {
	case *types.Slice:
		b, ok := u.Elem().Underlying().(*types.Basic)
		return ok && b.Kind() == types.Uint8
	case *types.Basic:
		return u.Info()&types.IsString != 0
	}
	return false
}

func isLenIf(info *types.Info, fi *core.FuncInfo, o types.Object) bool {
	// `if sz := len(bytes); sz == 0 {...} else {... i < sz ...}`
	found := false
	ast.Inspect(fi.Decl.Body, func(n ast.Node) bool {
		if ifs, ok := n.(*ast.IfStmt); ok && ifs.Init != nil {
			if as, ok := ifs.Init.(*ast.AssignStmt); ok && len(as.Rhs) == 1 {
				if call, ok := as.Rhs[0].(*ast.CallExpr); ok {
					if id, ok := call.Fun.(*ast.Ident); ok && id.Name == "len" {
						if lid, ok := as.Lhs[0].(*ast.Ident); ok && info.ObjectOf(lid) == o {
							found = true
						}
					}
				}
			}
		}
		return true
	})
	return found
}

// crcSpecStep builds the specification step vector for a W-bit accumulator:
// acc' = (acc >> 8) ^ ext(T[(acc ^ b) & 0xff]) where ext is zero- or sign-extension of the low 32
// bits of the (64-bit) table entry.
func crcSpecStep(width int, tableName string, elemWidth int, signExt32 bool) bits.Vec {
	acc := bits.Input("acc", width)
	b := bits.Input("b", 8)
	idx := make(bits.Vec, 8)
	for k := 0; k < 8; k++ {
		idx[k] = bits.Xor(bits.Vec{acc[k]}, bits.Vec{b[k]})[0]
	}
	key := fmt.Sprintf("%s{%s}", tableName, idx.String())
	t := bits.Input(key, elemWidth)
	out := make(bits.Vec, width)
	for j := 0; j < width; j++ {
		var sh bits.Bit
		if j+8 < width {
			sh = acc[j+8]
		}
		var tb bits.Bit
		switch {
		case j < 32:
			tb = t[j]
		case signExt32:
			tb = t[31]
		}
		out[j] = bits.Xor(bits.Vec{sh}, bits.Vec{tb})[0]
	}
	return out
}

// crc32Table regenerates the IEEE reflected CRC-32 table (polynomial 0xEDB88320).
func crc32Table() [256]uint32 {
	var t [256]uint32
	for i := 0; i < 256; i++ {
		c := uint32(i)
		for k := 0; k < 8; k++ {
			if c&1 == 1 {
				c = (c >> 1) ^ 0xEDB88320
			} else {
				c >>= 1
			}
		}
		t[i] = c
	}
	return t
}

// crcTableVar: the CRC table of util/hash, found by shape — the package-level variable initialised
// with a 256-entry literal of integers (in whichever file of the package, under whatever name).
func crcTableVar(p *core.Program) (name *ast.Ident, lit *ast.CompositeLit) {
	pk := p.Pkg("util/hash")
	if pk == nil {
		return nil, nil
	}
	for _, f := range pk.Syntax {
		if core.IsCanaryFile(p.Fset.Position(f.Pos()).Filename) {
			continue
		}
		for _, d := range f.Decls {
			gd, ok := d.(*ast.GenDecl)
			if !ok || gd.Tok != token.VAR {
				continue
			}
			for _, sp := range gd.Specs {
				vs := sp.(*ast.ValueSpec)
				for i, nm := range vs.Names {
					if i >= len(vs.Values) {
						continue
					}
					cl, ok := vs.Values[i].(*ast.CompositeLit)
					if !ok {
						continue
					}
					var et types.Type
					switch t := pk.TypesInfo.TypeOf(cl).Underlying().(type) {
					case *types.Array:
						et = t.Elem()
					case *types.Slice:
						et = t.Elem()
					}
					if et == nil {
						continue
					}
					if b, ok := et.Underlying().(*types.Basic); !ok || b.Info()&types.IsInteger == 0 {
						continue
					}
					if nm.Name == "table" || len(cl.Elts) >= 200 {
						return nm, cl
					}
				}
			}
		}
	}
	return nil, nil
}

// crcStdTable: the package-level variable of util/hash that IS the standard library's IEEE table
// (var table = crc32.IEEETable, or crc32.MakeTable(crc32.IEEE)).
func crcStdTable(p *core.Program) *ast.Ident {
	pk := p.Pkg("util/hash")
	if pk == nil {
		return nil
	}
	for _, f := range pk.Syntax {
		if core.IsCanaryFile(p.Fset.Position(f.Pos()).Filename) {
			continue
		}
		for _, d := range f.Decls {
			gd, ok := d.(*ast.GenDecl)
			if !ok || gd.Tok != token.VAR {
				continue
			}
			for _, sp := range gd.Specs {
				vs := sp.(*ast.ValueSpec)
				for i, nm := range vs.Names {
					if i >= len(vs.Values) {
						continue
					}
					v := ast.Unparen(vs.Values[i])
					if st, ok := v.(*ast.StarExpr); ok {
						v = ast.Unparen(st.X)
					}
					isStd := func(sel *ast.SelectorExpr, name string) bool {
						id, ok := ast.Unparen(sel.X).(*ast.Ident)
						if !ok || sel.Sel.Name != name {
							return false
						}
						pn, ok := pk.TypesInfo.Uses[id].(*types.PkgName)
						return ok && pn.Imported().Path() == "hash/crc32"
					}
					switch x := v.(type) {
					case *ast.SelectorExpr:
						if isStd(x, "IEEETable") {
							return nm
						}
					case *ast.CallExpr:
						if fsel, ok := x.Fun.(*ast.SelectorExpr); ok && isStd(fsel, "MakeTable") && len(x.Args) == 1 {
							if asel, ok := ast.Unparen(x.Args[0]).(*ast.SelectorExpr); ok && isStd(asel, "IEEE") {
								return nm
							}
						}
					}
				}
			}
		}
	}
	return nil
}

func crcTableName(p *core.Program) string {
	if nm, _ := crcTableVar(p); nm != nil {
		return nm.Name
	}
	if nm := crcStdTable(p); nm != nil {
		return nm.Name
	}
	return "table"
}

// checkCRCTable compares the package-level table literal with the regenerated table; one obligation
// per entry.
func checkCRCTable(p *core.Program, r *core.Report, rule string) {
	pk := p.Pkg("util/hash")
	if pk == nil {
		r.Undec(rule, "util/hash.table", "-", "package not found")
		return
	}
	want := crc32Table()
	if nm, cl := crcTableVar(p); nm != nil {
		if len(cl.Elts) != 256 {
			r.Viol(rule, "util/hash.table length", p.Pos(nm.Pos()), fmt.Sprintf("%d entries, want 256", len(cl.Elts)))
			return
		}
		for k, e := range cl.Elts {
			tv, ok := pk.TypesInfo.Types[e]
			var got uint64
			if ok && tv.Value != nil {
				if u, ok := constant.Uint64Val(tv.Value); ok {
					got = u
				} else if s, ok := constant.Int64Val(tv.Value); ok {
					got = uint64(s)
				}
			}
			c := fmt.Sprintf("util/hash.table[%d]", k)
			if uint32(got) != want[k] || (got>>32 != 0 && got>>32 != 0xffffffff) {
				r.Viol(rule, c, p.Pos(e.Pos()), fmt.Sprintf("entry is %#x, CRC-32/IEEE table has %#x: every hash through this entry changes (persisted identifiers)", got, want[k]))
			} else {
				r.OK(rule, c, p.Pos(e.Pos()), "")
			}
		}
		return
	}
	if nm := crcStdTable(p); nm != nil {
		// the standard library's table is the CRC-32/IEEE table by definition (trusted, like strconv)
		for k := 0; k < 256; k++ {
			r.OK(rule, fmt.Sprintf("util/hash.table[%d]", k), p.Pos(nm.Pos()), "entry of hash/crc32.IEEETable")
		}
		return
	}
	// a table computed when the package is initialised (var table = makeTable()): the initialiser is
	// run by the closed-code evaluator and the 256 values it yields are compared like a literal's
	for _, f := range pk.Syntax {
		for _, d := range f.Decls {
			gd, ok := d.(*ast.GenDecl)
			if !ok || gd.Tok != token.VAR {
				continue
			}
			for _, sp := range gd.Specs {
				vs := sp.(*ast.ValueSpec)
				for i, nm := range vs.Names {
					if i >= len(vs.Values) {
						continue
					}
					if _, isCall := ast.Unparen(vs.Values[i]).(*ast.CallExpr); !isCall {
						continue
					}
					v, _ := pk.TypesInfo.Defs[nm].(*types.Var)
					if v == nil {
						continue
					}
					n := int64(-1)
					switch t := v.Type().Underlying().(type) {
					case *types.Array:
						n = t.Len()
					case *types.Slice:
						n = 256
					}
					if n != 256 {
						continue
					}
					var anyFi *core.FuncInfo
					for _, fi := range p.Funcs {
						if fi.Pkg == pk {
							anyFi = fi
							break
						}
					}
					if anyFi == nil {
						continue
					}
					ce := &constEvaluator{p: p}
					val, ok := ce.evalPkgVar(anyFi, v)
					if !ok || val == nil || val.k != 'a' || len(val.arr) != 256 {
						continue
					}
					for k, got := range val.arr {
						c := fmt.Sprintf("util/hash.table[%d]", k)
						u := uint64(got)
						if uint32(u) != want[k] || (u>>32 != 0 && u>>32 != 0xffffffff) {
							r.Viol(rule, c, p.Pos(nm.Pos()), fmt.Sprintf("the computed entry is %#x, CRC-32/IEEE table has %#x: every hash through this entry changes (persisted identifiers)", u, want[k]))
						} else {
							r.OK(rule, c, p.Pos(nm.Pos()), "computed at initialisation")
						}
					}
					return
				}
			}
		}
	}
	r.Undec(rule, "util/hash.table", "-", "table variable not found")
}

// tableWriters: nothing in the module assigns to the table or its elements.
func checkTableImmutable(p *core.Program, r *core.Report, rule string) {
	pk := p.Pkg("util/hash")
	if pk == nil {
		return
	}
	tobj := pk.Types.Scope().Lookup(crcTableName(p))
	if tobj == nil {
		r.Undec(rule, "util/hash.table immutable", "-", "table not found")
		return
	}
	var writers []string
	for _, fi := range p.Funcs {
		if fi.Decl.Body == nil {
			continue
		}
		info := fi.Pkg.TypesInfo
		ast.Inspect(fi.Decl.Body, func(n ast.Node) bool {
			check := func(l ast.Expr) {
				for {
					switch v := ast.Unparen(l).(type) {
					case *ast.IndexExpr:
						l = v.X
						continue
					case *ast.Ident:
						if info.ObjectOf(v) == tobj {
							writers = append(writers, core.FuncName(fi.Obj)+" at "+p.Pos(v.Pos()))
						}
					case *ast.SelectorExpr:
						if info.ObjectOf(v.Sel) == tobj {
							writers = append(writers, core.FuncName(fi.Obj)+" at "+p.Pos(v.Pos()))
						}
					}
					return
				}
			}
			switch v := n.(type) {
			case *ast.AssignStmt:
				for _, l := range v.Lhs {
					check(l)
				}
			case *ast.IncDecStmt:
				check(v.X)
			case *ast.UnaryExpr:
				if v.Op == token.AND {
					check(v.X)
				}
			}
			return true
		})
	}
	if len(writers) > 0 {
		r.Viol(rule, "util/hash.table immutable", "-", fmt.Sprintf("table is written or its address taken: %v", writers))
	} else {
		r.OK(rule, "util/hash.table immutable", "-", "no assignment to the table or its elements anywhere in the module")
	}
}

func allOnes(w int) bits.Vec {
	v := make(bits.Vec, w)
	for i := range v {
		v[i].C = true
	}
	return v
}

// checkCRCFunc: init all ones, step == spec, final == ^acc (then converted to the result width).
func checkCRCFunc(p *core.Program, r *core.Report, rule, relPkg, fn string, width int, signExt32 bool) *foldLoop {
	fi := p.Func(relPkg, fn)
	c := relPkg + "." + fn
	fl := analyzeFold(p, fi)
	if fl.Why != "" {
		r.Undec(rule, c, "-", "hash loop outside the fragment: "+fl.Why)
		return fl
	}
	pos := p.Pos(fi.Decl.Pos())
	if fl.Width != width {
		r.Viol(rule, c+" width", pos, fmt.Sprintf("accumulator is %d bits, want %d", fl.Width, width))
		return fl
	}
	r.Check(bits.Equal(fl.Init, allOnes(width)), rule, c+" init", pos, "accumulator starts all-ones", "accumulator does not start at all-ones: "+fl.Init.String())
	want := crcSpecStep(width, crcTableName(p), 64, signExt32)
	if fl.Step.HasTop() {
		r.Undec(rule, c+" step", pos, "step has undetermined bits: "+fl.Step.String())
	} else if !bits.Equal(fl.Step, want) {
		d := firstDiff(fl.Step, want)
		r.Viol(rule, c+" step", pos, fmt.Sprintf("per-byte step differs from acc' = (acc>>8) ^ ext32(T[(acc^b)&0xff]) at bit %d: got %s want %s", d, bitAt(fl.Step, d), bitAt(want, d)))
	} else {
		r.OK(rule, c+" step", pos, "acc' = (acc>>8) ^ ext32(T[(acc^b)&0xff]) for every acc and byte")
	}
	wantFinal := bits.Not(bits.Input("acc", width))
	r.Check(bits.Equal(fl.Final, wantFinal), rule, c+" final", pos, "result = ^acc", "final transformation is not the complement of the accumulator: "+fl.Final.String())
	return fl
}

// crcTableAliases: width variants of the CRC table. A package-level integer table of 256 entries next
// to the CRC table, never assigned after its initialisation, whose entries (evaluated from the
// initialiser: a literal, or a builder run over the CRC table) are the 32-bit CRC entries as they are,
// zero-extended or sign-extended, is read as the CRC table itself with that extension.
func crcTableAliases(p *core.Program, fi *core.FuncInfo) func(obj types.Object) (string, int, bool, bool) {
	type alias struct {
		sext bool
		ok   bool
	}
	cache := map[types.Object]alias{}
	main := crcTableName(p)
	want := crc32Table()
	return func(obj types.Object) (string, int, bool, bool) {
		v, isVar := obj.(*types.Var)
		if !isVar || v.Name() == main || v.Pkg() == nil {
			return "", 0, false, false
		}
		a, seen := cache[obj]
		if !seen {
			ce := &constEvaluator{p: p}
			if ce.pkgVarStable(v) {
				if val, ok := ce.evalPkgVar(fi, v); ok && val != nil && val.k == 'a' && len(val.arr) == 256 {
					plain, zext, sext := true, true, true
					for i, x := range val.arr {
						u := uint64(x)
						if u != uint64(want[i]) {
							zext = false
						}
						if u != uint64(int64(int32(want[i]))) {
							sext = false
						}
						if uint32(u) != want[i] || u>>32 != 0 {
							plain = false
						}
					}
					switch {
					case plain || zext:
						a = alias{sext: false, ok: true}
					case sext:
						a = alias{sext: true, ok: true}
					}
				}
			}
			cache[obj] = a
		}
		if !a.ok {
			return "", 0, false, false
		}
		return main, 64, a.sext, true
	}
}
