package props

import (
	"go/ast"
	"fmt"
	"go/types"
	"regexp"
	"sort"
	"strings"

	"golibcheck/internal/core"
	"golibcheck/internal/locks"
)

// C10 — shared collections are linearizable, race-free and never self-deadlock.
// Decided: no public method can re-acquire its own (non-reentrant) mutex; every Lock is released on
// all paths; the point operations touch the structure's mutable fields only with the mutex held;
// helpers that require the lock are never called without it; Wait is re-checked in a loop.
func init() { register(&Checker{ID: "C10", Canaries: c10Canaries, Run: runC10}) }

func c10Canaries() []core.Canary {
	return []core.Canary{{RelDir: "util/hmap", Name: "c10", Src: `package hmap

import "sync"

type zzCanaryMap struct {
	count int
	lock  sync.Mutex
	cond  *sync.Cond
}

func (this *zzCanaryMap) Size() int { return this.count }
func (this *zzCanaryMap) Put(k int) {
	this.lock.Lock()
	defer this.lock.Unlock()
	this.put(k)
}
func (this *zzCanaryMap) put(k int) { this.count++ }

// re-entry: Sort holds the lock and calls Put, which locks again
func (this *zzCanaryMap) Sort() {
	this.lock.Lock()
	defer this.lock.Unlock()
	this.Put(1)
}

// helper requiring the lock called without it
func (this *zzCanaryMap) Unipoint(k int) { this.put(k) }

// early return with the lock held
func (this *zzCanaryMap) GetX(k int) int {
	this.lock.Lock()
	if k == 0 {
		return 0
	}
	this.lock.Unlock()
	return this.count
}
`, Expect: []core.CanaryExpect{{Rule: "C10.no-reentry", Sub: "zzCanaryMap"}, {Rule: "C10.helper", Sub: "zzCanaryMap"},
		{Rule: "C10.paired", Sub: "zzCanaryMap"}, {Rule: "C10.guarded", Sub: "zzCanaryMap"}}}}
}

var c10PointOp = regexp.MustCompile(`^(Put|Add|Get|Contains|Remove|Clear|Size|Intersect|Unipoint|Sort)`)
var c10NotPoint = regexp.MustCompile(`Capacity|Max|KeySet|KeyArray|ValueArray|Keys|Values|Entries|Iterator|NullValue`)

func lockedTypes(p *core.Program, relPkgs []string) []*types.Named {
	var out []*types.Named
	for _, rel := range relPkgs {
		pk := p.Pkg(rel)
		if pk == nil {
			continue
		}
		names := pk.Types.Scope().Names()
		sort.Strings(names)
		for _, nm := range names {
			tn, ok := pk.Types.Scope().Lookup(nm).(*types.TypeName)
			if !ok {
				continue
			}
			n, ok := tn.Type().(*types.Named)
			if !ok {
				continue
			}
			if lf, _ := locks.FindLockField(n); lf != "" && !MonitorTypes(p)[n.Obj()] {
				out = append(out, n) // (a struct of nothing but primitives is the lock, not a collection)
			}
		}
	}
	return out
}

func runC10(p *core.Program, r *core.Report) {
	r.Explanation = "Lock analysis of every struct with an instance mutex in util/hmap, util/list and util/queue. For each method a forward dataflow on the go/cfg graph tracks whether the receiver's mutex is held (Lock/Unlock, deferred unlocks, unlocks in deferred closures); unexported helpers are 'entered with the lock held' iff every same-receiver call site holds it (fixpoint). Re-entry: from every point where the mutex is held, a same-receiver call to a method that can reach Lock() of that mutex is a self-deadlock (sync.Mutex is not re-entrant) — decided for every public method, which is the property's quantifier for deadlock. Guarded-by: the mutable fields (written outside constructors) may be touched by the point operations only with the mutex held. Pairing: every Lock is released on every path. Helpers that mutate guarded state are never called without the lock. Every Cond.Wait sits in a for-loop re-testing its condition with the mutex held."
	r.NotDecided = []string{"linearizability itself and races on the values stored (interfaces)", "aliasing between two instances of one type (m.PutAll(m))", "enumerator objects reading the parent's fields after the constructor returned (reported as information)"}
	r.Assumptions = []string{"receivers are not aliased inside a method; callbacks (Failed/Overflowed) do not call back into the same queue"}
	r.Rule("C10.no-reentry", "no method calls, with its mutex held, a same-receiver method that can acquire that mutex (self-deadlock)", 150)
	r.Rule("C10.paired", "every Lock() is released on every path (explicit or deferred); no Unlock of an unheld mutex", 180)
	r.Rule("C10.guarded", "point operations (put/add/get/contains/remove/clear/size/enqueue/dequeue) touch mutable fields only with the mutex held", 120)
	r.Rule("C10.helper", "helpers that mutate guarded state and take no lock themselves are called only with the lock held", 40)
	r.Rule("C10.single-region", "a point operation takes the mutex once for its whole duration (no check-then-act across an unlock)", 150)
	r.Rule("C10.queue-wake", "an enqueue wakes the dequeuers that wait for it: every path that adds an element signals the condition variable, and a waiter re-tests after every wake-up (C11's signal/wait rules on both queues) — a dequeue left asleep beside a queued element has no place in any sequential order", 4)
	importQueueRulesSel(p, r, "C10.queue-wake", []string{"C11.signal", "C11.wait"}, true)
	r.Rule("C10.queue-cond", "Cond.Wait is called with the mutex held inside a for-loop that re-tests the condition", 2)

	ts := lockedTypes(p, []string{"util/hmap", "util/list", "util/queue"})
	r.Stats["types_with_mutex"] = len(ts)
	r.Rule("C10.snapshots", "a whole-structure operation hands out a slice made for the call, never storage kept in the collection (two callers would share one backing array)", 20)
	c10Snapshots(p, r, "C10.snapshots", ts)
	r.Rule("C10.callback-unlock", "a method that runs a caller-supplied function under the mutex releases the mutex by defer (a panic in the callback must not leave the collection locked for ever)", 3)
	c10CallbackUnlock(p, r, "C10.callback-unlock", ts)
	for _, t := range ts {
		tl := locks.Analyze(p, t)
		tname := core.RelPkg(t.Obj().Pkg().Path()) + "." + t.Obj().Name()
		// the typed lists of util/list carry a mutex used only by Sorting*: outside the property's anchors,
		// analysed for re-entry and pairing only
		anchored := !(core.RelPkg(t.Obj().Pkg().Path()) == "util/list" && t.Obj().Name() != "LinkedList")
		guarded := guardedFields(tl)
		may := tl.MayLock()
		r.Stats["methods"] += len(tl.Order)
		for _, fl := range tl.Order {
			r.Stats["lock_sites"] += len(fl.LockSites)
			pos := p.Pos(fl.FI.Decl.Pos())
			mname := tname + "." + fl.FI.Obj.Name()
			// pairing
			if len(fl.LockSites) > 0 || len(fl.Unpaired) > 0 {
				if len(fl.Unpaired) > 0 {
					r.Viol("C10.paired", mname, pos, strings.Join(fl.Unpaired, "; "))
				} else {
					r.OK("C10.paired", mname, pos, fmt.Sprintf("%d lock site(s), released on every path", len(fl.LockSites)))
				}
			}
			// re-entry: one obligation per (method, callee) called with the lock held
			seen := map[string]bool{}
			for _, c := range append(append([]locks.CallSite{}, fl.Calls...), fl.PeerCalls...) {
				if c.Held == locks.No {
					continue
				}
				cn := c.Callee.Name()
				key := mname + " -> " + cn
				if c.Peer != "" {
					key = mname + " -> " + c.Peer + "." + cn
				}
				if seen[key] {
					continue
				}
				seen[key] = true
				if c.Peer != "" {
					if path, ok := may[c.Callee]; ok {
						short := make([]string, len(path))
						for i, s := range path {
							short[i] = locks.ShortName(s)
						}
						r.Viol("C10.no-reentry", key, p.Pos(c.Pos), "called on another instance of the same type with this instance's mutex held, and "+strings.Join(short, " -> ")+" locks that instance: x."+fl.FI.Obj.Name()+"(x) never returns, and a."+fl.FI.Obj.Name()+"(b) beside b."+fl.FI.Obj.Name()+"(a) can lock each other out")
					} else {
						r.OK("C10.no-reentry", key, p.Pos(c.Pos), "callee never acquires a mutex")
					}
					continue
				}
				if path, ok := may[c.Callee]; ok {
					short := make([]string, len(path))
					for i, s := range path {
						short[i] = locks.ShortName(s)
					}
					r.Viol("C10.no-reentry", key, p.Pos(c.Pos), "called with the mutex held, and "+strings.Join(short, " -> ")+" locks the same non-reentrant mutex: the call never returns")
				} else {
					r.OK("C10.no-reentry", key, p.Pos(c.Pos), "callee never acquires the mutex")
				}
			}
			// a read lock admits other readers: nothing is written under it, neither directly nor by a
			// same-receiver method called while it is held
			{
				var w []string
				for _, ac := range fl.Accesses {
					if ac.Write && ac.Shared {
						w = append(w, "write of "+ac.Field+" at "+p.Pos(ac.Pos))
					}
				}
				var writesIn func(f *locks.FuncLocks, depth int, seen map[*types.Func]bool) string
				writesIn = func(f *locks.FuncLocks, depth int, seen map[*types.Func]bool) string {
					if f == nil || depth > 3 {
						return ""
					}
					for _, ac := range f.Accesses {
						if ac.Write {
							return ac.Field
						}
					}
					for _, c := range f.Calls {
						if !seen[c.Callee] {
							seen[c.Callee] = true
							if x := writesIn(tl.Funcs[c.Callee], depth+1, seen); x != "" {
								return x
							}
						}
					}
					return ""
				}
				for _, c := range fl.Calls {
					if c.Shared {
						if x := writesIn(tl.Funcs[c.Callee], 0, map[*types.Func]bool{}); x != "" {
							w = append(w, c.Callee.Name()+"() (which writes "+x+") called at "+p.Pos(c.Pos))
						}
					}
				}
				if len(w) > 0 {
					r.Viol("C10.guarded", mname+" under the read lock", pos, "with only the read lock held: "+strings.Join(uniq(w), ", ")+": two such calls run side by side and both rewrite the structure")
				}
			}
			// guarded accesses
			if fl.Exported && anchored {
				var bad []string
				n := 0
				snapshot := strings.HasPrefix(fl.FI.Obj.Name(), "Size") || strings.HasPrefix(fl.FI.Obj.Name(), "Len") || strings.HasPrefix(fl.FI.Obj.Name(), "IsEmpty")
				for _, ac := range fl.Accesses {
					if ac.Alias && !tl.ElemWritten[ac.Field] {
						continue // the map is replaced, never written in place: a snapshot reference is safe to read
					}
					if !guarded[ac.Field] {
						continue
					}
					if ac.NodeCall && len(fl.LockSites) == 0 {
						continue // elements obtained from an enumeration (of this or another instance): enumerations are not point operations
					}
					if snapshot && !tl.Written[ac.Field] {
						continue // a size snapshot of an inner collection (which has its own lock) is not a compound operation
					}
					n++
					if ac.Held != locks.Yes {
						w := "read"
						if ac.Write {
							w = "write"
						}
						bad = append(bad, w+" of "+ac.Field)
					}
				}
				// accesses made on this method's behalf by same-receiver helpers called without the
				// mutex (this.IsEmpty() before Lock is the same unlocked read as this.count == 0)
				if !snapshot {
					var via func(f *locks.FuncLocks, depth int, seen map[*types.Func]bool)
					via = func(f *locks.FuncLocks, depth int, seen map[*types.Func]bool) {
						for _, c := range f.Calls {
							if c.Held == locks.Yes || seen[c.Callee] || depth > 3 {
								continue
							}
							cf := tl.Funcs[c.Callee]
							if cf == nil || cf.EntryHeld {
								continue
							}
							seen[c.Callee] = true
							for _, ac := range cf.Accesses {
								if ac.Alias && !tl.ElemWritten[ac.Field] {
									continue // the map is replaced, never written in place: a snapshot reference is safe to read
								}
								if !guarded[ac.Field] || ac.Held == locks.Yes {
									continue
								}
								n++
								w := "read"
								if ac.Write {
									w = "write"
								}
								bad = append(bad, w+" of "+ac.Field+" (in "+c.Callee.Name()+"(), called without the mutex)")
							}
							via(cf, depth+1, seen)
						}
					}
					via(fl, 0, map[*types.Func]bool{fl.FI.Obj: true})
				}
				isPoint := c10PointOp.MatchString(fl.FI.Obj.Name()) && !c10NotPoint.MatchString(fl.FI.Obj.Name())
				if n > 0 {
					if len(bad) == 0 {
						if isPoint {
							r.OK("C10.guarded", mname, pos, fmt.Sprintf("%d accesses to mutable fields, all under the mutex", n))
						}
					} else if isPoint {
						r.Viol("C10.guarded", mname, pos, "unsynchronised "+strings.Join(uniq(bad), ", ")+" while other methods write these fields under the mutex: data race")
					} else if len(fl.LockSites) > 0 && !snapshot {
						// a whole-structure operation that does take the mutex, but reads guarded state
						// outside it first (a result sized from an unlocked Size() and filled under the
						// lock): its two looks at the structure come from different instants
						r.Viol("C10.guarded", mname, pos, "takes the mutex but makes an unsynchronised "+strings.Join(uniq(bad), ", ")+" outside it: what it read before locking no longer describes what it walks under the lock")
					} else {
						r.Info("C10.guarded", mname+" (not a point operation)", pos, "unsynchronised "+strings.Join(uniq(bad), ", "))
					}
				}
				// critical sections of the operation: its own Lock() sites plus those of every
				// same-receiver method it calls without holding the mutex
				var sections func(f *locks.FuncLocks, depth int) []string
				sections = func(f *locks.FuncLocks, depth int) []string {
					var leaves []string
					for range f.LockSites {
						leaves = append(leaves, f.FI.Obj.Name()+"()")
					}
					if depth > 3 {
						return leaves
					}
					for _, c := range f.Calls {
						if c.Held == locks.Yes {
							continue
						}
						if cf := tl.Funcs[c.Callee]; cf != nil && cf != f {
							leaves = append(leaves, sections(cf, depth+1)...)
						}
					}
					return leaves
				}
				if leaves := sections(fl, 0); isPoint && len(leaves) > 0 {
					nsec := len(leaves)
					via := leaves
					how := fmt.Sprintf("%d critical sections (%s)", nsec, strings.Join(leaves, ", "))
				// retrying one atomic operation (a polling loop over GetNoWait()) is not a compound operation
					retry := len(fl.LockSites) == 0 && len(uniq(via)) == 1
					r.Check(nsec == 1 || retry, "C10.single-region", mname, pos, "one critical section", how+": the operation is not atomic (a concurrent update between the sections is lost)")
				}
			}
			// waits
			for _, w := range fl.Waits {
				ok := w.InFor && w.ForCond != "" && w.Held == locks.Yes
				r.Check(ok, "C10.queue-cond", mname+" Wait", p.Pos(w.Pos), "for "+w.ForCond+" { Wait() } under the mutex",
					"Cond.Wait is not inside a for-loop re-testing the condition with the mutex held: a woken waiter proceeds on a stale condition")
			}
		}
		// helpers requiring the lock
		for _, fl := range tl.Order {
			if fl.Exported || len(fl.LockSites) > 0 || !anchored {
				continue
			}
			mut := false
			for _, ac := range fl.Accesses {
				if ac.Alias && !tl.ElemWritten[ac.Field] {
					continue // the map is replaced, never written in place: a snapshot reference is safe to read
				}
				if guarded[ac.Field] {
					mut = true
				}
			}
			if !mut {
				continue
			}
			held, unheld := 0, 0
			type site struct {
				caller string
				pos    string
			}
			var unheldSites []site
			for _, caller := range tl.Order {
				for _, c := range caller.Calls {
					if c.Callee != fl.FI.Obj {
						continue
					}
					if c.Held == locks.Yes {
						held++
					} else {
						// a size snapshot that only reaches the inner collections' pointers (never
						// reassigned) through the helper is the same exemption as in C10.guarded
						cn := caller.FI.Obj.Name()
						if strings.HasPrefix(cn, "Size") || strings.HasPrefix(cn, "Len") || strings.HasPrefix(cn, "IsEmpty") {
							onlyPtrReads := true
							for _, ac := range fl.Accesses {
								if guarded[ac.Field] && (ac.Write || tl.Written[ac.Field]) {
									onlyPtrReads = false
								}
							}
							if onlyPtrReads {
								continue
							}
						}
						unheld++
						unheldSites = append(unheldSites, site{caller.FI.Obj.Name(), p.Pos(c.Pos)})
					}
				}
			}
			hname := tname + "." + fl.FI.Obj.Name()
			if held > 0 && unheld == 0 {
				r.OK("C10.helper", hname, p.Pos(fl.FI.Decl.Pos()), fmt.Sprintf("all %d call sites hold the mutex", held))
			}
			if held > 0 && unheld > 0 {
				for _, s := range unheldSites {
					r.Viol("C10.helper", tname+"."+s.caller+" -> "+fl.FI.Obj.Name(), s.pos, fmt.Sprintf("%s touches the structure's guarded fields and is called with the mutex held at %d other site(s), but not here: unsynchronised mutation", fl.FI.Obj.Name(), held))
				}
			}
		}
	}
}

// guardedFields: fields written by at least one method that is not a plain configuration setter
// (SetX) — the structure's own mutable state.
func guardedFields(tl *locks.TypeLocks) map[string]bool {
	out := map[string]bool{}
	// inner collections (pointer to a list/map of this module): their content is the structure's
	// mutable state even though the pointer itself is never reassigned; an operation on them outside
	// the mutex interleaves with the check-then-act sequences of the locked methods
	if st, ok := tl.Type.Underlying().(*types.Struct); ok {
		for i := 0; i < st.NumFields(); i++ {
			ft := st.Field(i).Type()
			if pt, ok := ft.(*types.Pointer); ok {
				if nt, ok := pt.Elem().(*types.Named); ok && nt.Obj().Pkg() != nil {
					pp := nt.Obj().Pkg().Path()
					if strings.HasSuffix(pp, "/util/list") || strings.HasSuffix(pp, "/util/hmap") {
						out[st.Field(i).Name()] = true
					}
				}
			}
		}
	}
	for _, fl := range tl.Order {
		if strings.HasPrefix(fl.FI.Obj.Name(), "Set") {
			continue
		}
		for _, ac := range fl.Accesses {
			if ac.Alias && !tl.ElemWritten[ac.Field] {
				continue // the map is replaced, never written in place: a snapshot reference is safe to read
			}
			if ac.Write {
				out[ac.Field] = true
			}
		}
	}
	return out
}

// c10Snapshots: what a whole-structure operation hands out (KeyArray, ValueArray, ToArray, …) is the
// caller's: a slice made for this call. A method of a shared collection that returns a slice kept in
// a field of the collection (or a re-slice of one) hands every caller the same storage: the next call,
// by any goroutine, rewrites the snapshot an earlier caller is still reading — a data race and a torn
// result although every call held the lock while it ran.
func c10Snapshots(p *core.Program, r *core.Report, rule string, ts []*types.Named) {
	for _, t := range ts {
		tname := core.RelPkg(t.Obj().Pkg().Path()) + "." + t.Obj().Name()
		for _, fi := range p.MethodsOf(t) {
			if fi.Decl.Body == nil || !fi.Obj.Exported() {
				continue
			}
			sig := fi.Obj.Type().(*types.Signature)
			sliceRes := false
			for i := 0; i < sig.Results().Len(); i++ {
				if _, ok := sig.Results().At(i).Type().Underlying().(*types.Slice); ok {
					sliceRes = true
				}
			}
			if !sliceRes {
				continue
			}
			info := fi.Pkg.TypesInfo
			rn := recvName(fi)
			var kept func(e ast.Expr, depth int) string
			kept = func(e ast.Expr, depth int) string {
				e = ast.Unparen(e)
				if depth > 6 {
					return ""
				}
				switch v := e.(type) {
				case *ast.SliceExpr:
					return kept(v.X, depth+1)
				case *ast.SelectorExpr:
					if id, ok := ast.Unparen(v.X).(*ast.Ident); ok && id.Name == rn {
						switch info.TypeOf(v).Underlying().(type) {
						case *types.Slice, *types.Array:
							return types.ExprString(v)
						}
					}
				case *ast.Ident:
					o, _ := info.ObjectOf(v).(*types.Var)
					if o == nil || o.IsField() {
						return ""
					}
					why := ""
					ast.Inspect(fi.Decl.Body, func(n ast.Node) bool {
						if as, ok := n.(*ast.AssignStmt); ok && len(as.Lhs) == len(as.Rhs) {
							for i, l := range as.Lhs {
								if id, ok := l.(*ast.Ident); ok && info.ObjectOf(id) == types.Object(o) && ast.Unparen(as.Rhs[i]) != e {
									if w := kept(as.Rhs[i], depth+1); w != "" {
										why = w
									}
								}
							}
						}
						return true
					})
					return why
				}
				return ""
			}
			bad := ""
			ast.Inspect(fi.Decl.Body, func(n ast.Node) bool {
				if _, isLit := n.(*ast.FuncLit); isLit {
					return false
				}
				rs, ok := n.(*ast.ReturnStmt)
				if !ok {
					return true
				}
				for _, res := range rs.Results {
					if _, isSlice := info.TypeOf(res).Underlying().(*types.Slice); !isSlice {
						continue
					}
					if w := kept(res, 0); w != "" {
						bad = "returns " + w + ", storage the collection keeps: every caller gets the same backing array and the next call overwrites what an earlier caller still holds"
					}
				}
				return true
			})
			r.Check(bad == "", rule, tname+"."+fi.Obj.Name()+" fresh result", p.Pos(fi.Decl.Pos()), "the slice handed out is made for the call", bad)
		}
	}
}

// c10CallbackUnlock: a method that runs a function it was handed (a comparator, a visitor) while it
// holds the collection's mutex releases the mutex by defer. With an explicit Unlock after the call, a
// panic in the caller's function — which the caller may well recover from — leaves the mutex held, and
// every later operation on the collection blocks for ever.
func c10CallbackUnlock(p *core.Program, r *core.Report, rule string, ts []*types.Named) {
	for _, t := range ts {
		tname := core.RelPkg(t.Obj().Pkg().Path()) + "." + t.Obj().Name()
		for _, fi := range p.MethodsOf(t) {
			if fi.Decl.Body == nil || !fi.Obj.Exported() {
				continue
			}
			info := fi.Pkg.TypesInfo
			// function-typed parameters
			fparams := map[types.Object]bool{}
			for _, f := range fi.Decl.Type.Params.List {
				for _, nm := range f.Names {
					if o := info.Defs[nm]; o != nil {
						if _, ok := o.Type().Underlying().(*types.Signature); ok {
							fparams[o] = true
						}
					}
				}
			}
			if len(fparams) == 0 {
				continue
			}
			rn := recvName(fi)
			locksIt, deferred, explicit := false, false, false
			isLockCall := func(c *ast.CallExpr, names ...string) bool {
				sel, ok := ast.Unparen(c.Fun).(*ast.SelectorExpr)
				if !ok {
					return false
				}
				hit := false
				for _, nm := range names {
					if sel.Sel.Name == nm {
						hit = true
					}
				}
				if !hit {
					return false
				}
				s := stripSpaces(types.ExprString(sel.X))
				return strings.HasPrefix(s, rn+".")
			}
			ast.Inspect(fi.Decl.Body, func(n ast.Node) bool {
				switch x := n.(type) {
				case *ast.DeferStmt:
					if isLockCall(x.Call, "Unlock", "RUnlock") {
						deferred = true
					}
					if lit, ok := ast.Unparen(x.Call.Fun).(*ast.FuncLit); ok {
						ast.Inspect(lit.Body, func(m ast.Node) bool {
							if c, ok := m.(*ast.CallExpr); ok && isLockCall(c, "Unlock", "RUnlock") {
								deferred = true
							}
							return true
						})
					}
					return false
				case *ast.CallExpr:
					if isLockCall(x, "Lock", "RLock") {
						locksIt = true
					}
					if isLockCall(x, "Unlock", "RUnlock") {
						explicit = true
					}
				}
				return true
			})
			if !locksIt {
				continue
			}
			c := tname + "." + fi.Obj.Name() + " unlocks by defer around the caller's function"
			if explicit && !deferred {
				r.Viol(rule, c, p.Pos(fi.Decl.Pos()), "the method holds the mutex while it runs a function it was handed and releases it with a plain Unlock: a panic in that function (recovered by the caller) leaves the mutex held and every later operation on the collection blocks for ever")
			} else {
				r.OK(rule, c, p.Pos(fi.Decl.Pos()), "released by defer")
			}
		}
	}
}
