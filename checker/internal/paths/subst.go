package paths

import (
	"go/ast"
	"go/token"
	"go/types"
)

// Subst returns a copy of node in which every identifier that denotes one of the given objects is
// replaced by the corresponding expression (a parameter by its argument, the callee's receiver by the
// caller's receiver expression). Sub-trees without replacements are shared, not copied. Type
// information of every copied expression node is carried over into info (the type of an expression
// does not change when a parameter is replaced by an argument assignable to it), so rules that
// consult types.Info keep working on the rewritten tree. Used to judge an extracted helper as if its
// body were written at the call site.
func Subst(info *types.Info, node ast.Node, repl map[types.Object]ast.Expr) ast.Node {
	s := &subst{info: info, repl: repl}
	switch n := node.(type) {
	case ast.Expr:
		return s.expr(n)
	case ast.Stmt:
		return s.stmt(n)
	}
	return node
}

type subst struct {
	info   *types.Info
	repl   map[types.Object]ast.Expr
	fields map[types.Object]map[string]ast.Expr
}

// SubstFields is Subst for a local that holds a record built from known expressions
// (ln := lane{this.queue1, &this.capacity1}): every selection ln.f is replaced by the expression the
// record was built with, *ln.f of an address-of by the thing addressed.
func SubstFields(info *types.Info, node ast.Node, fields map[types.Object]map[string]ast.Expr) ast.Node {
	s := &subst{info: info, repl: map[types.Object]ast.Expr{}, fields: fields}
	switch n := node.(type) {
	case ast.Expr:
		return s.expr(n)
	case ast.Stmt:
		return s.stmt(n)
	}
	return node
}

func (s *subst) carry(old, nu ast.Expr) {
	if old == nu {
		return
	}
	if tv, ok := s.info.Types[old]; ok {
		s.info.Types[nu] = tv
	}
	if os, ok := old.(*ast.SelectorExpr); ok {
		if ns, ok := nu.(*ast.SelectorExpr); ok {
			if sel, ok := s.info.Selections[os]; ok {
				s.info.Selections[ns] = sel
			}
		}
	}
}

func (s *subst) exprs(list []ast.Expr) ([]ast.Expr, bool) {
	changed := false
	out := make([]ast.Expr, len(list))
	for i, e := range list {
		out[i] = s.expr(e)
		if out[i] != e {
			changed = true
		}
	}
	if !changed {
		return list, false
	}
	return out, true
}

func (s *subst) expr(e ast.Expr) ast.Expr {
	if e == nil {
		return nil
	}
	var nu ast.Expr = e
	switch v := e.(type) {
	case *ast.Ident:
		if obj := s.info.ObjectOf(v); obj != nil {
			if r, ok := s.repl[obj]; ok {
				switch r.(type) {
				case *ast.Ident, *ast.BasicLit, *ast.SelectorExpr, *ast.CallExpr, *ast.ParenExpr, *ast.IndexExpr:
					return r
				}
				p := &ast.ParenExpr{Lparen: v.Pos(), X: r, Rparen: v.End()}
				if tv, ok := s.info.Types[r]; ok {
					s.info.Types[p] = tv
				}
				return p
			}
		}
		return e
	case *ast.ParenExpr:
		if x := s.expr(v.X); x != v.X {
			nu = &ast.ParenExpr{Lparen: v.Lparen, X: x, Rparen: v.Rparen}
		}
	case *ast.BinaryExpr:
		x, y := s.expr(v.X), s.expr(v.Y)
		if x != v.X || y != v.Y {
			nu = &ast.BinaryExpr{X: x, OpPos: v.OpPos, Op: v.Op, Y: y}
		}
	case *ast.UnaryExpr:
		if x := s.expr(v.X); x != v.X {
			nu = &ast.UnaryExpr{OpPos: v.OpPos, Op: v.Op, X: x}
		}
	case *ast.StarExpr:
		if x := s.expr(v.X); x != v.X {
			// *(&y) is y: a field passed by address to a helper reads as the field itself
			if u, ok := ast.Unparen(x).(*ast.UnaryExpr); ok && u.Op == token.AND {
				return u.X
			}
			nu = &ast.StarExpr{Star: v.Star, X: x}
		}
	case *ast.SelectorExpr:
		if s.fields != nil {
			if id, ok := ast.Unparen(v.X).(*ast.Ident); ok {
				if fs, ok := s.fields[s.info.ObjectOf(id)]; ok {
					if r, ok := fs[v.Sel.Name]; ok {
						switch r.(type) {
						case *ast.Ident, *ast.BasicLit, *ast.SelectorExpr, *ast.CallExpr, *ast.ParenExpr, *ast.IndexExpr:
							return r
						}
						p := &ast.ParenExpr{Lparen: v.Pos(), X: r, Rparen: v.End()}
						if tv, ok := s.info.Types[r]; ok {
							s.info.Types[p] = tv
						}
						return p
					}
				}
			}
		}
		if x := s.expr(v.X); x != v.X {
			nu = &ast.SelectorExpr{X: x, Sel: v.Sel}
		}
	case *ast.IndexExpr:
		x, i := s.expr(v.X), s.expr(v.Index)
		if x != v.X || i != v.Index {
			nu = &ast.IndexExpr{X: x, Lbrack: v.Lbrack, Index: i, Rbrack: v.Rbrack}
		}
	case *ast.SliceExpr:
		x, lo, hi, mx := s.expr(v.X), s.expr(v.Low), s.expr(v.High), s.expr(v.Max)
		if x != v.X || lo != v.Low || hi != v.High || mx != v.Max {
			nu = &ast.SliceExpr{X: x, Lbrack: v.Lbrack, Low: lo, High: hi, Max: mx, Slice3: v.Slice3, Rbrack: v.Rbrack}
		}
	case *ast.TypeAssertExpr:
		if x := s.expr(v.X); x != v.X {
			nu = &ast.TypeAssertExpr{X: x, Lparen: v.Lparen, Type: v.Type, Rparen: v.Rparen}
		}
	case *ast.CallExpr:
		f := s.expr(v.Fun)
		args, ch := s.exprs(v.Args)
		if f != v.Fun || ch {
			nu = &ast.CallExpr{Fun: f, Lparen: v.Lparen, Args: args, Ellipsis: v.Ellipsis, Rparen: v.Rparen}
		}
	case *ast.CompositeLit:
		if elts, ch := s.exprs(v.Elts); ch {
			nu = &ast.CompositeLit{Type: v.Type, Lbrace: v.Lbrace, Elts: elts, Rbrace: v.Rbrace, Incomplete: v.Incomplete}
		}
	case *ast.KeyValueExpr:
		if val := s.expr(v.Value); val != v.Value {
			nu = &ast.KeyValueExpr{Key: v.Key, Colon: v.Colon, Value: val}
		}
	}
	s.carry(e, nu)
	return nu
}

func (s *subst) stmts(list []ast.Stmt) ([]ast.Stmt, bool) {
	changed := false
	out := make([]ast.Stmt, len(list))
	for i, st := range list {
		out[i] = s.stmt(st)
		if out[i] != st {
			changed = true
		}
	}
	if !changed {
		return list, false
	}
	return out, true
}

func (s *subst) block(b *ast.BlockStmt) *ast.BlockStmt {
	if b == nil {
		return nil
	}
	if l, ch := s.stmts(b.List); ch {
		return &ast.BlockStmt{Lbrace: b.Lbrace, List: l, Rbrace: b.Rbrace}
	}
	return b
}

func (s *subst) stmt(st ast.Stmt) ast.Stmt {
	if st == nil {
		return nil
	}
	switch v := st.(type) {
	case *ast.BlockStmt:
		return s.block(v)
	case *ast.ExprStmt:
		if x := s.expr(v.X); x != v.X {
			return &ast.ExprStmt{X: x}
		}
	case *ast.AssignStmt:
		l, c1 := s.exprs(v.Lhs)
		r, c2 := s.exprs(v.Rhs)
		if c1 || c2 {
			return &ast.AssignStmt{Lhs: l, TokPos: v.TokPos, Tok: v.Tok, Rhs: r}
		}
	case *ast.IncDecStmt:
		if x := s.expr(v.X); x != v.X {
			return &ast.IncDecStmt{X: x, TokPos: v.TokPos, Tok: v.Tok}
		}
	case *ast.ReturnStmt:
		if r, ch := s.exprs(v.Results); ch {
			return &ast.ReturnStmt{Return: v.Return, Results: r}
		}
	case *ast.IfStmt:
		init, cond, body, els := s.stmt(v.Init), s.expr(v.Cond), s.block(v.Body), s.stmt(v.Else)
		if init != v.Init || cond != v.Cond || body != v.Body || els != v.Else {
			return &ast.IfStmt{If: v.If, Init: init, Cond: cond, Body: body, Else: els}
		}
	case *ast.ForStmt:
		init, cond, post, body := s.stmt(v.Init), s.expr(v.Cond), s.stmt(v.Post), s.block(v.Body)
		if init != v.Init || cond != v.Cond || post != v.Post || body != v.Body {
			return &ast.ForStmt{For: v.For, Init: init, Cond: cond, Post: post, Body: body}
		}
	case *ast.RangeStmt:
		x, body := s.expr(v.X), s.block(v.Body)
		if x != v.X || body != v.Body {
			return &ast.RangeStmt{For: v.For, Key: v.Key, Value: v.Value, TokPos: v.TokPos, Tok: v.Tok, Range: v.Range, X: x, Body: body}
		}
	case *ast.SwitchStmt:
		init, tag, body := s.stmt(v.Init), s.expr(v.Tag), s.block(v.Body)
		if init != v.Init || tag != v.Tag || body != v.Body {
			return &ast.SwitchStmt{Switch: v.Switch, Init: init, Tag: tag, Body: body}
		}
	case *ast.CaseClause:
		l, c1 := s.exprs(v.List)
		b, c2 := s.stmts(v.Body)
		if c1 || c2 {
			return &ast.CaseClause{Case: v.Case, List: l, Colon: v.Colon, Body: b}
		}
	case *ast.DeferStmt:
		if c, ok := s.expr(v.Call).(*ast.CallExpr); ok && c != v.Call {
			return &ast.DeferStmt{Defer: v.Defer, Call: c}
		}
	case *ast.GoStmt:
		if c, ok := s.expr(v.Call).(*ast.CallExpr); ok && c != v.Call {
			return &ast.GoStmt{Go: v.Go, Call: c}
		}
	case *ast.LabeledStmt:
		if b := s.stmt(v.Stmt); b != v.Stmt {
			return &ast.LabeledStmt{Label: v.Label, Colon: v.Colon, Stmt: b}
		}
	}
	return st
}
