// Package paths is engine E4: bounded enumeration of the control-flow paths of a structured Go
// function as sequences of abstract events. Statements are abstracted by a rule-supplied classifier
// (events are abstractions of statements, not text); conditions on small enums are folded by a
// rule-supplied evaluator so that rules can be stated per mode; loops are taken zero times or once.
// Rules are then predicates over event sequences ("on every path from A to B exactly one C").
package paths

import (
	"fmt"
	"go/constant"
	"go/ast"
	"go/token"
	"go/types"
)

type Event struct {
	Kind string
	Arg  string
	Pos  token.Pos
	Node ast.Node
}

type Path []Event

func (p Path) Count(kind string) int {
	n := 0
	for _, e := range p {
		if e.Kind == kind {
			n++
		}
	}
	return n
}

func (p Path) CountArg(kind, arg string) int {
	n := 0
	for _, e := range p {
		if e.Kind == kind && e.Arg == arg {
			n++
		}
	}
	return n
}

func (p Path) Has(kind string) bool { return p.Count(kind) > 0 }

func (p Path) HasArg(kind, arg string) bool { return p.CountArg(kind, arg) > 0 }

func (p Path) Index(kind string) int {
	for i, e := range p {
		if e.Kind == kind {
			return i
		}
	}
	return -1
}

func (p Path) IndexArg(kind, arg string) int {
	for i, e := range p {
		if e.Kind == kind && e.Arg == arg {
			return i
		}
	}
	return -1
}

func (p Path) LastIndex(kind string) int {
	for i := len(p) - 1; i >= 0; i-- {
		if p[i].Kind == kind {
			return i
		}
	}
	return -1
}

func (p Path) String() string {
	s := ""
	for i, e := range p {
		if i > 0 {
			s += " "
		}
		s += e.Kind
		if e.Arg != "" {
			s += "(" + e.Arg + ")"
		}
	}
	return s
}

// Config parameterises the enumeration.
type Config struct {
	Info *types.Info
	// Classify abstracts a simple statement or an expression evaluated for effect into events.
	Classify func(n ast.Node) []Event
	// Fold evaluates a condition to a constant when it only depends on the mode being specialised.
	Fold func(cond ast.Expr) (known, val bool)
	// Cond returns the event recorded when a condition is taken with the given outcome (nil = none).
	Cond func(cond ast.Expr, val bool) *Event
	// SwitchTag folds a switch tag: returns the index of the clause taken (-1 default, -2 unknown).
	SwitchCase func(sw *ast.SwitchStmt) int
	// Inline returns the body of a call to follow (same-receiver helper), or nil.
	Inline func(call *ast.CallExpr) *ast.BlockStmt
	// Expand rewrites a condition before it is split into atoms (boolean helper predicates replaced
	// by their defining expression); nil = identity.
	Expand func(cond ast.Expr) ast.Expr
	// Unroll returns the elements of a range statement over a fixed list of expressions (nil: a loop).
	Unroll func(rs *ast.RangeStmt) []ast.Expr
	// Invariant: the conjunct of a loop condition keeps its value while the loop runs (it reads only
	// state nothing in the loop, or in what the loop calls, assigns); nil = boolean locals only.
	Invariant func(conjunct ast.Expr, loop *ast.ForStmt) bool
	MaxPaths  int
	MaxInline int
}

type enumerator struct {
	c        Config
	out      []Path
	overflow bool
	roots    []*ast.BlockStmt // the body under enumeration and the helper bodies being followed
	closures map[*ast.CallExpr]*ast.BlockStmt
}

// closureDef: the function literal a local variable is bound to by its only definition
// (transfer := func(name string, id int32) {...}) inside the bodies being walked.
func (e *enumerator) closureDef(obj types.Object) *ast.FuncLit {
	var lit *ast.FuncLit
	n := 0
	for _, root := range e.roots {
		ast.Inspect(root, func(m ast.Node) bool {
			switch v := m.(type) {
			case *ast.AssignStmt:
				for i, l := range v.Lhs {
					if id, ok := l.(*ast.Ident); ok && e.c.Info.ObjectOf(id) == obj {
						n++
						if len(v.Lhs) == len(v.Rhs) {
							lit, _ = ast.Unparen(v.Rhs[i]).(*ast.FuncLit)
						}
					}
				}
			case *ast.ValueSpec:
				for i, nm := range v.Names {
					if e.c.Info.Defs[nm] == obj {
						n++
						if i < len(v.Values) {
							lit, _ = ast.Unparen(v.Values[i]).(*ast.FuncLit)
						}
					}
				}
			}
			return true
		})
		if n > 0 {
			break
		}
	}
	if n != 1 {
		return nil
	}
	return lit
}

// closureBody: the body of a call of a local closure, parameters replaced by the arguments. The
// closure shares the variables of the function it is written in, so running its body at the call is
// exact (a return inside it ends the closure only, like the return of a followed helper).
func (e *enumerator) closureBody(call *ast.CallExpr) *ast.BlockStmt {
	if e.c.Info == nil {
		return nil
	}
	if b, ok := e.closures[call]; ok {
		return b
	}
	if e.closures == nil {
		e.closures = map[*ast.CallExpr]*ast.BlockStmt{}
	}
	var out *ast.BlockStmt
	// a function literal called where it stands (a callback parameter of a followed helper replaced
	// by the literal the caller passed): its body runs here
	if lit, ok := ast.Unparen(call.Fun).(*ast.FuncLit); ok && len(call.Args) == 0 && lit.Type.Params.NumFields() == 0 {
		e.closures[call] = lit.Body
		return lit.Body
	}
	if id, ok := ast.Unparen(call.Fun).(*ast.Ident); ok {
		if v, ok := e.c.Info.Uses[id].(*types.Var); ok && !v.IsField() && v.Parent() != nil && v.Pkg() != nil && v.Parent() != v.Pkg().Scope() {
			if lit := e.closureDef(v); lit != nil && !variadicLit(lit) {
				repl := map[types.Object]ast.Expr{}
				i := 0
				okArgs := true
				for _, f := range lit.Type.Params.List {
					for _, n := range f.Names {
						if i >= len(call.Args) {
							okArgs = false
							break
						}
						if o := e.c.Info.Defs[n]; o != nil {
							repl[o] = call.Args[i]
						}
						i++
					}
					if len(f.Names) == 0 {
						i++
					}
				}
				if okArgs && i == len(call.Args) {
					out, _ = Subst(e.c.Info, lit.Body, repl).(*ast.BlockStmt)
				}
			}
		}
	}
	e.closures[call] = out
	return out
}

// isClosureDef: a statement that only binds function literals to locals (the literal's body runs
// where the closure is called, not where it is written).
func isClosureDef(s ast.Stmt) bool {
	switch v := s.(type) {
	case *ast.AssignStmt:
		if len(v.Rhs) == 0 || len(v.Lhs) != len(v.Rhs) {
			return false
		}
		for i, r := range v.Rhs {
			if _, ok := ast.Unparen(r).(*ast.FuncLit); !ok {
				return false
			}
			if _, ok := v.Lhs[i].(*ast.Ident); !ok {
				return false
			}
		}
		return true
	case *ast.DeclStmt:
		gd, ok := v.Decl.(*ast.GenDecl)
		if !ok || gd.Tok != token.VAR || len(gd.Specs) == 0 {
			return false
		}
		for _, sp := range gd.Specs {
			vs, ok := sp.(*ast.ValueSpec)
			if !ok || len(vs.Values) == 0 {
				return false
			}
			for _, r := range vs.Values {
				if _, ok := ast.Unparen(r).(*ast.FuncLit); !ok {
					return false
				}
			}
		}
		return true
	}
	return false
}

type kont func(p Path, ctl string) // ctl: "" fallthrough, "ret", "break", "continue", "panic"

// Enumerate lists the paths of body.
func Enumerate(body *ast.BlockStmt, c Config) (paths []Path, overflow bool) {
	if c.MaxPaths == 0 {
		c.MaxPaths = 4000
	}
	if c.MaxInline == 0 {
		c.MaxInline = 3
	}
	e := &enumerator{c: c, roots: []*ast.BlockStmt{body}}
	e.block(body.List, nil, 0, func(p Path, ctl string) {
		if len(e.out) >= c.MaxPaths {
			e.overflow = true
			return
		}
		cp := make(Path, len(p))
		copy(cp, p)
		if ctl != "ret" && ctl != "panic" {
			cp = append(cp, Event{Kind: "END"})
		}
		cp = e.runDeferred(body, cp, ctl)
		e.out = append(e.out, cp)
	})
	return e.out, e.overflow
}

func (e *enumerator) block(list []ast.Stmt, p Path, depth int, k kont) {
	if e.overflow {
		return
	}
	if len(list) == 0 {
		k(p, "")
		return
	}
	e.stmt(list[0], p, depth, func(p2 Path, ctl string) {
		if ctl != "" {
			k(p2, ctl)
			return
		}
		e.block(list[1:], p2, depth, k)
	})
}

func (e *enumerator) events(n ast.Node, p Path, depth int, k func(Path)) {
	// inline same-receiver helper calls found in the node, then classify the node itself
	var calls []*ast.CallExpr
	bodyOf := e.bodyOf
	if depth < e.c.MaxInline {
		ast.Inspect(n, func(m ast.Node) bool {
			if _, ok := m.(*ast.FuncLit); ok {
				return false
			}
			if c, ok := m.(*ast.CallExpr); ok {
				if bodyOf(c) != nil {
					calls = append(calls, c)
				}
			}
			return true
		})
	}
	var run func(i int, p Path)
	run = func(i int, p Path) {
		if i == len(calls) {
			if e.c.Classify != nil {
				p = append(p, e.c.Classify(n)...)
			}
			k(p)
			return
		}
		body := bodyOf(calls[i])
		enterAt := len(p)
		e.roots = append(e.roots, body)
		defer func() { e.roots = e.roots[:len(e.roots)-1] }()
		e.block(body.List, append(p, Event{Kind: "ENTER", Pos: calls[i].Pos(), Node: calls[i]}), depth+1, func(p2 Path, ctl string) {
			if ctl == "panic" {
				return
			}
			p3 := append(p2, Event{Kind: "LEAVE", Pos: calls[i].Pos()})
			// a, b := helper(): what the helper's return says about nil-ness of its results is a fact
			// about a and b in the caller (FLAG events, honoured by Consistent)
			if as, ok := n.(*ast.AssignStmt); ok && len(as.Rhs) == 1 && ast.Unparen(as.Rhs[0]) == ast.Expr(calls[i]) && ctl == "ret" {
				p3 = append(p3, e.resultFacts(as, p2, enterAt)...)
			}
			run(i+1, p3)
		})
	}
	run(0, p)
}

// bodyOf: the body to follow for a call (a helper the rule follows, or a local closure), or nil.
func (e *enumerator) bodyOf(c *ast.CallExpr) *ast.BlockStmt {
	if e.c.Inline != nil {
		if b := e.c.Inline(c); b != nil {
			return b
		}
	}
	return e.closureBody(c)
}

func (e *enumerator) cond(c ast.Expr, p Path, depth int, k func(p Path, val bool)) {
	if c == nil {
		k(p, true)
		return
	}
	// a boolean local whose value this path fixed at its definition (VALUE event)
	{
		x, neg := ast.Unparen(c), false
		for {
			u, ok := x.(*ast.UnaryExpr)
			if !ok || u.Op != token.NOT {
				break
			}
			x, neg = ast.Unparen(u.X), !neg
		}
		if id, ok := x.(*ast.Ident); ok {
			for i := len(p) - 1; i >= 0; i-- {
				if p[i].Kind != "VALUE" {
					continue
				}
				if p[i].Arg == id.Name+"=true" {
					k(p, !neg)
					return
				}
				if p[i].Arg == id.Name+"=false" {
					k(p, neg)
					return
				}
			}
		}
	}
	if e.c.Expand != nil {
		c = e.c.Expand(c)
	}
	if e.c.Info != nil {
		if tv, ok := e.c.Info.Types[ast.Unparen(c)]; ok && tv.Value != nil && tv.Value.Kind() == constant.Bool {
			if _, isIdent := ast.Unparen(c).(*ast.Ident); isIdent {
				// the literals true/false (a predicate helper's `return false`) have one outcome
				k(p, constant.BoolVal(tv.Value))
				return
			}
		}
	}
	if e.c.Fold != nil {
		if known, val := e.c.Fold(c); known {
			k(p, val)
			return
		}
	}
	// short-circuit operators: split so that each atom is recorded
	if be, ok := ast.Unparen(c).(*ast.BinaryExpr); ok && (be.Op == token.LAND || be.Op == token.LOR) {
		e.cond(be.X, p, depth, func(p2 Path, v bool) {
			if (be.Op == token.LAND && !v) || (be.Op == token.LOR && v) {
				k(p2, v)
				return
			}
			e.cond(be.Y, p2, depth, k)
		})
		return
	}
	if ue, ok := ast.Unparen(c).(*ast.UnaryExpr); ok && ue.Op == token.NOT {
		e.cond(ue.X, p, depth, func(p2 Path, v bool) { k(p2, !v) })
		return
	}
	// a followed predicate helper used as the condition: its outcome is what its return statement
	// evaluates to on the path taken through it, not an independent coin
	if call, ok := ast.Unparen(c).(*ast.CallExpr); ok && depth < e.c.MaxInline && e.c.Info != nil {
		if b, isB := e.c.Info.TypeOf(call).(*types.Basic); isB && b.Info()&types.IsBoolean != 0 {
			if body := e.bodyOf(call); body != nil && singleResultReturns(body) {
				e.roots = append(e.roots, body)
				defer func() { e.roots = e.roots[:len(e.roots)-1] }()
				e.block(body.List, append(p, Event{Kind: "ENTER", Pos: call.Pos(), Node: call}), depth+1, func(p2 Path, ctl string) {
					if ctl != "ret" || len(p2) == 0 {
						return
					}
					rs, _ := p2[len(p2)-1].Node.(*ast.ReturnStmt)
					if rs == nil || len(rs.Results) != 1 {
						return
					}
					e.cond(rs.Results[0], p2, depth+1, func(p3 Path, v bool) {
						k(append(p3, Event{Kind: "LEAVE", Pos: call.Pos()}), v)
					})
				})
				return
			}
		}
	}
	e.events(c, p, depth, func(p2 Path) {
		for _, v := range []bool{true, false} {
			q := append(Path{}, p2...)
			if e.c.Cond != nil {
				if ev := e.c.Cond(c, v); ev != nil {
					q = append(q, *ev)
				}
			}
			k(q, v)
		}
	})
}

func (e *enumerator) stmt(s ast.Stmt, p Path, depth int, k kont) {
	if e.overflow {
		return
	}
	switch v := s.(type) {
	case *ast.BlockStmt:
		e.block(v.List, p, depth, k)
	case *ast.IfStmt:
		start := func(p Path) {
			e.cond(v.Cond, p, depth, func(p2 Path, val bool) {
				if val {
					e.block(v.Body.List, p2, depth, k)
				} else if v.Else != nil {
					e.stmt(v.Else, p2, depth, k)
				} else {
					k(p2, "")
				}
			})
		}
		if v.Init != nil {
			e.stmt(v.Init, p, depth, func(p2 Path, ctl string) { start(p2) })
		} else {
			start(p)
		}
	case *ast.SwitchStmt:
		run := func(p Path) {
			idx := -2
			if e.c.SwitchCase != nil {
				idx = e.c.SwitchCase(v)
			}
			clauses := v.Body.List
			takeClause := func(cl *ast.CaseClause, p Path) {
				e.block(cl.Body, p, depth, func(p2 Path, ctl string) {
					if ctl == "break" {
						ctl = ""
					}
					k(p2, ctl)
				})
			}
			if idx >= 0 {
				takeClause(clauses[idx].(*ast.CaseClause), p)
				return
			}
			var def *ast.CaseClause
			for _, c := range clauses {
				cl := c.(*ast.CaseClause)
				if cl.List == nil {
					def = cl
				}
			}
			if idx == -1 {
				if def != nil {
					takeClause(def, p)
				} else {
					k(p, "")
				}
				return
			}
			// unknown: tagless switch = if-chain; tagged = every clause possible
			if v.Tag == nil {
				var chain func(i int, p Path)
				chain = func(i int, p Path) {
					for ; i < len(clauses); i++ {
						cl := clauses[i].(*ast.CaseClause)
						if cl.List == nil {
							continue
						}
						ii := i
						// or of the clause's conditions: treat the list as a single condition sequence
						var or func(j int, p Path)
						or = func(j int, p Path) {
							if j == len(cl.List) {
								chain(ii+1, p)
								return
							}
							e.cond(cl.List[j], p, depth, func(p2 Path, val bool) {
								if val {
									takeClause(cl, p2)
								} else {
									or(j+1, p2)
								}
							})
						}
						or(0, p)
						return
					}
					if def != nil {
						takeClause(def, p)
					} else {
						k(p, "")
					}
				}
				chain(0, p)
				return
			}
			for _, c := range clauses {
				cl := c.(*ast.CaseClause)
				q := append(Path{}, p...)
				if e.c.Cond != nil && cl.List != nil {
					if ev := e.c.Cond(cl.List[0], true); ev != nil {
						q = append(q, *ev)
					}
				}
				takeClause(cl, q)
			}
			if def == nil {
				k(p, "")
			}
		}
		if v.Init != nil {
			e.stmt(v.Init, p, depth, func(p2 Path, ctl string) { run(p2) })
		} else {
			run(p)
		}
	case *ast.ForStmt:
		after := func(p Path) { k(p, "") }
		body := func(p Path, next func(Path)) {
			e.block(v.Body.List, p, depth, func(p2 Path, ctl string) {
				switch ctl {
				case "ret", "panic":
					k(p2, ctl)
				case "break":
					after(append(p2, Event{Kind: "ENDLOOP"}))
				default:
					if v.Post != nil {
						e.events(v.Post, p2, depth, next)
					} else {
						next(p2)
					}
				}
			})
		}
		run := func(p Path) {
			p = append(p, Event{Kind: "LOOP", Pos: v.Pos(), Node: v})
			if v.Cond == nil {
				// `for { ... }` only ends through break/return: falling out after one iteration is where
				// the enumeration stops unrolling, not a real continuation (CUT marks such paths)
				body(p, func(p2 Path) { after(append(append(p2, Event{Kind: "CUT"}), Event{Kind: "ENDLOOP"})) })
				return
			}
			e.cond(v.Cond, p, depth, func(p2 Path, val bool) {
				if !val {
					after(append(p2, Event{Kind: "ENDLOOP"}))
					return
				}
				body(p2, func(p3 Path) {
					// second evaluation of the condition: assumed false (one iteration). It goes through
					// the same expansion as the first (predicate helpers, hoisted tests); a condition
					// that is still a conjunction/disjunction afterwards is recorded as one outcome
					// conjuncts that are boolean locals the loop never assigns (`for !room && size >= cap`)
					// still hold as they did when the loop was entered: the conjunct that ends the loop
					// is among the others
					if conj := flattenAnd(v.Cond); len(conj) > 1 {
						var rest []ast.Expr
						for _, cj := range conj {
							if !e.invariantFlag(cj, v) && !(e.c.Invariant != nil && e.c.Invariant(cj, v)) {
								rest = append(rest, cj)
							}
						}
						if len(rest) == 1 && len(rest) < len(conj) {
							e.cond(rest[0], p3, depth, func(q Path, val bool) {
								if !val {
									after(append(q, Event{Kind: "ENDLOOP"}))
								}
							})
							return
						}
					}
					c2 := v.Cond
					if e.c.Expand != nil {
						c2 = e.c.Expand(c2)
					}
					if be, ok := ast.Unparen(c2).(*ast.BinaryExpr); ok && (be.Op == token.LAND || be.Op == token.LOR) {
						// a conjunct that is a followed predicate helper (`for v == nil && budget.pause()`)
						// has events of its own: the exit is split per conjunct so that they are on the path
						followed := false
						for _, cj := range flattenAnd(c2) {
							if call, ok := ast.Unparen(cj).(*ast.CallExpr); ok && be.Op == token.LAND && depth < e.c.MaxInline && e.c.Info != nil {
								if body := e.bodyOf(call); body != nil && singleResultReturns(body) {
									followed = true
								}
							}
						}
						if followed {
							e.cond(v.Cond, p3, depth, func(q Path, val bool) {
								if !val {
									after(append(q, Event{Kind: "ENDLOOP"}))
								}
							})
							return
						}
						q := p3
						if e.c.Cond != nil {
							if ev := e.c.Cond(v.Cond, false); ev != nil {
								q = append(q, *ev)
							}
						}
						after(append(q, Event{Kind: "ENDLOOP"}))
						return
					}
					if e.c.Info != nil {
						if tv, ok := e.c.Info.Types[ast.Unparen(c2)]; ok && tv.Value != nil && tv.Value.Kind() == constant.Bool && constant.BoolVal(tv.Value) {
							// `for true { ... }` is `for { ... }`: leaving it here is the cut of the unrolling
							after(append(append(p3, Event{Kind: "CUT"}), Event{Kind: "ENDLOOP"}))
							return
						}
					}
					e.cond(v.Cond, p3, depth, func(q Path, val bool) {
						if !val {
							after(append(q, Event{Kind: "ENDLOOP"}))
						}
					})
				})
			})
		}
		if v.Init != nil {
			e.events(v.Init, p, depth, run)
		} else {
			run(p)
		}
	case *ast.RangeStmt:
		// a loop over a fixed list of expressions (Config.Unroll) runs its body once per element, in
		// order, with the value variable replaced by the element
		if e.c.Unroll != nil && v.Value != nil {
			if vid, ok := v.Value.(*ast.Ident); ok && vid.Name != "_" {
				if elems := e.c.Unroll(v); len(elems) > 0 && len(elems) <= 8 {
					if vobj := e.c.Info.ObjectOf(vid); vobj != nil {
						var iter func(i int, p Path)
						iter = func(i int, p Path) {
							if i == len(elems) {
								k(p, "")
								return
							}
							body, _ := Subst(e.c.Info, v.Body, map[types.Object]ast.Expr{vobj: elems[i]}).(*ast.BlockStmt)
							if body == nil {
								body = v.Body
							}
							e.block(body.List, p, depth, func(p2 Path, ctl string) {
								switch ctl {
								case "ret", "panic":
									k(p2, ctl)
								case "break":
									k(p2, "")
								default:
									iter(i+1, p2)
								}
							})
						}
						iter(0, p)
						return
					}
				}
			}
		}
		p = append(p, Event{Kind: "LOOP", Pos: v.Pos(), Node: v})
		// zero iterations
		k(append(append(Path{}, p...), Event{Kind: "ENDLOOP"}), "")
		e.block(v.Body.List, append(Path{}, p...), depth, func(p2 Path, ctl string) {
			switch ctl {
			case "ret", "panic":
				k(p2, ctl)
			default:
				k(append(p2, Event{Kind: "ENDLOOP"}), "")
			}
		})
	case *ast.ReturnStmt:
		e.events(v, p, depth, func(p2 Path) { k(append(p2, Event{Kind: "RET", Pos: v.Pos(), Node: v}), "ret") })
	case *ast.BranchStmt:
		switch v.Tok {
		case token.BREAK:
			k(p, "break")
		case token.CONTINUE:
			k(p, "continue")
		default:
			k(p, "")
		}
	case *ast.ExprStmt:
		if call, ok := v.X.(*ast.CallExpr); ok {
			if id, ok := call.Fun.(*ast.Ident); ok && id.Name == "panic" {
				e.events(v, p, depth, func(p2 Path) { k(append(p2, Event{Kind: "PANIC", Pos: v.Pos()}), "panic") })
				return
			}
		}
		e.events(v, p, depth, func(p2 Path) { k(p2, "") })
	case *ast.LabeledStmt:
		e.stmt(v.Stmt, p, depth, k)
	case *ast.DeferStmt:
		k(append(p, Event{Kind: "DEFER", Pos: v.Pos(), Node: v}), "")
	case *ast.SelectStmt:
		// every communication clause may be the one taken: COMM(<comm text>) then its body
		for _, cs := range v.Body.List {
			cc := cs.(*ast.CommClause)
			arg := "default"
			if cc.Comm != nil {
				arg = nodeText(cc.Comm)
			}
			q := append(append(Path{}, p...), Event{Kind: "COMM", Arg: arg, Pos: cc.Pos(), Node: cc})
			e.block(cc.Body, q, depth, func(p2 Path, ctl string) {
				if ctl == "break" {
					ctl = ""
				}
				k(p2, ctl)
			})
		}
	case *ast.TypeSwitchStmt, *ast.GoStmt:
		k(append(p, Event{Kind: "OPAQUE", Pos: v.Pos(), Node: v}), "")
	default:
		if isClosureDef(s) {
			k(p, "")
			return
		}
		// a boolean local holding a test whose operands are assigned again before the local is tested
		// (opens := x.first == 0; if opens { x.first = t }; switch { case opens: … }): the test is
		// decided here, at its definition, and the local carries that outcome (a VALUE event the later
		// tests of the local read back) instead of being re-read where it is used
		if as, ok := s.(*ast.AssignStmt); ok {
			if flag := e.hazardFlag(as); flag != nil {
				e.events(s, p, depth, func(p2 Path) {
					e.cond(as.Rhs[0], p2, depth, func(p3 Path, val bool) {
						k(append(p3, Event{Kind: "VALUE", Arg: fmt.Sprintf("%s=%v", flag.Name(), val), Pos: as.Pos(), Node: as.Lhs[0]}), "")
					})
				})
				return
			}
		}
		e.events(s, p, depth, func(p2 Path) { k(p2, "") })
	}
}

// hazardFlag: as is `b := <comparison / logical expression without calls>` (or b = …) for a boolean
// local b, and some location the expression reads is assigned, inside the bodies being walked, after
// this statement and before a later use of b. Returns b, else nil.
func (e *enumerator) hazardFlag(as *ast.AssignStmt) *types.Var {
	if e.c.Info == nil || len(as.Lhs) != 1 || len(as.Rhs) != 1 || (as.Tok != token.DEFINE && as.Tok != token.ASSIGN) {
		return nil
	}
	id, ok := as.Lhs[0].(*ast.Ident)
	if !ok {
		return nil
	}
	v, ok := e.c.Info.ObjectOf(id).(*types.Var)
	if !ok || v.IsField() {
		return nil
	}
	if b, ok := v.Type().Underlying().(*types.Basic); !ok || b.Kind() != types.Bool {
		return nil
	}
	rhs := ast.Unparen(as.Rhs[0])
	switch x := rhs.(type) {
	case *ast.BinaryExpr:
		_ = x
	case *ast.UnaryExpr:
		if x.Op != token.NOT {
			return nil
		}
	default:
		return nil
	}
	// what the expression reads: selector texts and local identifiers; no calls
	reads := map[string]bool{}
	pure := true
	ast.Inspect(rhs, func(n ast.Node) bool {
		switch x := n.(type) {
		case *ast.CallExpr:
			if tv, ok := e.c.Info.Types[x.Fun]; !ok || !tv.IsType() {
				if fid, isId := x.Fun.(*ast.Ident); !isId || fid.Name != "len" {
					pure = false
				}
			}
		case *ast.SelectorExpr:
			reads[types.ExprString(x)] = true
			return false
		case *ast.Ident:
			if o, ok := e.c.Info.ObjectOf(x).(*types.Var); ok && !o.IsField() {
				reads[x.Name] = true
			}
		}
		return true
	})
	if !pure || len(reads) == 0 {
		return nil
	}
	hazard := false
	for _, root := range e.roots {
		var lastUse token.Pos
		ast.Inspect(root, func(n ast.Node) bool {
			if uid, ok := n.(*ast.Ident); ok && uid.Pos() > as.End() && e.c.Info.ObjectOf(uid) == types.Object(v) {
				if uid.Pos() > lastUse {
					lastUse = uid.Pos()
				}
			}
			return true
		})
		if !lastUse.IsValid() {
			continue
		}
		ast.Inspect(root, func(n ast.Node) bool {
			switch w := n.(type) {
			case *ast.AssignStmt:
				if w.Pos() > as.End() && w.Pos() < lastUse {
					for _, l := range w.Lhs {
						if reads[types.ExprString(ast.Unparen(l))] {
							hazard = true
						}
					}
				}
			case *ast.IncDecStmt:
				if w.Pos() > as.End() && w.Pos() < lastUse && reads[types.ExprString(ast.Unparen(w.X))] {
					hazard = true
				}
			}
			return true
		})
	}
	if !hazard {
		return nil
	}
	return v
}

// Consistent reports whether the path's recorded condition outcomes do not contradict each other
// (same atom with both outcomes, or X==Y / X!=Y with the same outcome). Infeasible paths produced by
// the path-insensitive enumeration are pruned by rules that call this.
// FlagConsistent is the part of Consistent that only uses FLAG facts: a condition that tests an atom a
// FLAG event fixed must see that value (conditions are not compared with each other, so loops that
// re-test a variable they advance stay feasible).
func (p Path) FlagConsistent() bool {
	seen := map[string]bool{}
	for _, e := range p {
		if e.Kind == "FLAG" {
			if i := lastIndexByte(e.Arg, '='); i > 0 {
				seen[e.Arg[:i]] = e.Arg[i+1:] == "true"
			}
			continue
		}
		if e.Kind != "COND" {
			continue
		}
		i := lastIndexByte(e.Arg, '=')
		if i < 0 {
			continue
		}
		atom, val := e.Arg[:i], e.Arg[i+1:] == "true"
		if j := indexOf(atom, "!="); j >= 0 {
			atom = atom[:j] + "==" + atom[j+2:]
			val = !val
		}
		if prev, ok := seen[atom]; ok && prev != val {
			return false
		}
	}
	return true
}

func (p Path) Consistent() bool {
	seen := map[string]bool{}
	for _, e := range p {
		// FLAG events (a boolean local assigned a constant: Arg "name=true|false") fix what a later test
		// of that local can see; a path that tests the flag with the other outcome is infeasible
		if e.Kind == "FLAG" {
			if i := lastIndexByte(e.Arg, '='); i > 0 {
				seen[e.Arg[:i]] = e.Arg[i+1:] == "true"
				delete(seen, "!"+e.Arg[:i])
			}
			continue
		}
		if e.Kind != "COND" {
			continue
		}
		i := lastIndexByte(e.Arg, '=')
		if i < 0 {
			continue
		}
		atom, val := e.Arg[:i], e.Arg[i+1:] == "true"
		if j := indexOf(atom, "!="); j >= 0 {
			atom = atom[:j] + "==" + atom[j+2:]
			val = !val
		}
		if prev, ok := seen[atom]; ok && prev != val {
			return false
		}
		seen[atom] = val
	}
	return true
}

func lastIndexByte(s string, c byte) int {
	for i := len(s) - 1; i >= 0; i-- {
		if s[i] == c {
			return i
		}
	}
	return -1
}

func indexOf(s, sub string) int {
	for i := 0; i+len(sub) <= len(s); i++ {
		if s[i:i+len(sub)] == sub {
			return i
		}
	}
	return -1
}

func nodeText(n ast.Node) string {
	switch v := n.(type) {
	case *ast.ExprStmt:
		return types.ExprString(v.X)
	case *ast.AssignStmt:
		s := ""
		for _, r := range v.Rhs {
			s += types.ExprString(r)
		}
		return s
	case *ast.SendStmt:
		return types.ExprString(v.Chan) + "<-"
	}
	return ""
}

// resultFacts: for `l1, l2 := helper()` followed through the helper's body on path p (the helper's
// segment starts at index from): FLAG events "l==nil=<bool>" for every identifier l whose result is
// the nil literal, or a variable of the helper that the segment's last nil test decided.
func (e *enumerator) resultFacts(as *ast.AssignStmt, p Path, from int) []Event {
	var ret *ast.ReturnStmt
	for i := len(p) - 1; i >= from; i-- {
		if p[i].Kind == "RET" {
			ret, _ = p[i].Node.(*ast.ReturnStmt)
			break
		}
	}
	if ret == nil || len(ret.Results) != len(as.Lhs) {
		return nil
	}
	var out []Event
	for i, l := range as.Lhs {
		id, ok := l.(*ast.Ident)
		if !ok || id.Name == "_" {
			continue
		}
		known, isNil := false, false
		switch r := ast.Unparen(ret.Results[i]).(type) {
		case *ast.Ident:
			if r.Name == "nil" {
				known, isNil = true, true
				break
			}
			for k := len(p) - 1; k >= from && !known; k-- {
				if p[k].Kind != "COND" {
					continue
				}
				switch p[k].Arg {
				case r.Name + "==nil=true", "nil==" + r.Name + "=true":
					known, isNil = true, true
				case r.Name + "==nil=false", "nil==" + r.Name + "=false":
					known, isNil = true, false
				}
			}
		case *ast.UnaryExpr:
			if r.Op == token.AND {
				known, isNil = true, false
			}
		}
		if known {
			out = append(out, Event{Kind: "FLAG", Arg: fmt.Sprintf("%s==nil=%v", id.Name, isNil), Pos: as.Pos()})
		}
	}
	return out
}

func variadicLit(lit *ast.FuncLit) bool {
	if lit.Type.Params == nil {
		return false
	}
	for _, f := range lit.Type.Params.List {
		if _, ok := f.Type.(*ast.Ellipsis); ok {
			return true
		}
	}
	return false
}

// singleResultReturns: every return statement of the body (outside nested literals) has exactly one
// result, and there is at least one.
func singleResultReturns(body *ast.BlockStmt) bool {
	n, ok := 0, true
	ast.Inspect(body, func(m ast.Node) bool {
		switch v := m.(type) {
		case *ast.FuncLit:
			return false
		case *ast.ReturnStmt:
			n++
			if len(v.Results) != 1 {
				ok = false
			}
		}
		return true
	})
	return ok && n > 0
}

func flattenAnd(e ast.Expr) []ast.Expr {
	if be, ok := ast.Unparen(e).(*ast.BinaryExpr); ok && be.Op == token.LAND {
		return append(flattenAnd(be.X), flattenAnd(be.Y)...)
	}
	return []ast.Expr{e}
}

// invariantFlag: c is a boolean local (possibly negated) that nothing in the loop assigns or takes the
// address of.
func (e *enumerator) invariantFlag(c ast.Expr, loop *ast.ForStmt) bool {
	c = ast.Unparen(c)
	// (a || b), (a && b) of such locals
	if be, ok := c.(*ast.BinaryExpr); ok && (be.Op == token.LOR || be.Op == token.LAND) {
		return e.invariantFlag(be.X, loop) && e.invariantFlag(be.Y, loop)
	}
	for {
		u, ok := c.(*ast.UnaryExpr)
		if !ok || u.Op != token.NOT {
			break
		}
		c = ast.Unparen(u.X)
	}
	id, ok := c.(*ast.Ident)
	if !ok || e.c.Info == nil {
		return false
	}
	v, ok := e.c.Info.ObjectOf(id).(*types.Var)
	if !ok || v.IsField() || v.Pkg() == nil || v.Parent() == v.Pkg().Scope() {
		return false
	}
	if b, ok := v.Type().Underlying().(*types.Basic); !ok || b.Kind() != types.Bool {
		return false
	}
	touched := false
	check := func(n ast.Node) {
		if n == nil {
			return
		}
		ast.Inspect(n, func(m ast.Node) bool {
			switch w := m.(type) {
			case *ast.AssignStmt:
				for _, l := range w.Lhs {
					if lid, ok := ast.Unparen(l).(*ast.Ident); ok && e.c.Info.ObjectOf(lid) == v {
						touched = true
					}
				}
			case *ast.UnaryExpr:
				if w.Op == token.AND {
					if lid, ok := ast.Unparen(w.X).(*ast.Ident); ok && e.c.Info.ObjectOf(lid) == v {
						touched = true
					}
				}
			}
			return true
		})
	}
	check(loop.Body)
	if loop.Post != nil {
		check(loop.Post)
	}
	return !touched
}

// runDeferred: the plain calls deferred by the function under enumeration (defer x.f(args), not a
// deferred closure) run when the function returns, last deferred first, after the results have been
// evaluated. Their events — whatever the rule's classifier makes of the call as a statement — are put
// in front of the closing RET/END of a path that passed the defer statement, so that a rule sees
// `defer c.Broadcast()` at the top like a Broadcast in front of every return.
func (e *enumerator) runDeferred(body *ast.BlockStmt, p Path, ctl string) Path {
	if e.c.Classify == nil || ctl == "panic" || len(p) == 0 {
		return p
	}
	var evs []Event
	for i := len(p) - 1; i >= 0; i-- {
		if p[i].Kind != "DEFER" {
			continue
		}
		ds, ok := p[i].Node.(*ast.DeferStmt)
		if !ok || ds.Call == nil {
			continue
		}
		if _, isLit := ast.Unparen(ds.Call.Fun).(*ast.FuncLit); isLit {
			continue
		}
		// only defers of the function itself (not of a followed helper)
		if ds.Pos() < body.Pos() || ds.End() > body.End() {
			continue
		}
		evs = append(evs, e.c.Classify(&ast.ExprStmt{X: ds.Call})...)
	}
	if len(evs) == 0 {
		return p
	}
	last := p[len(p)-1]
	out := append(Path{}, p[:len(p)-1]...)
	out = append(out, evs...)
	return append(out, last)
}
