// Package bits is engine E2: a bit-provenance abstract interpretation. Every bit of an integer
// expression is an affine form over GF(2): constant XOR a set of input bits (and bits of table
// look-ups, treated as uninterpreted functions of their abstract index). The interpretation is
// exact for the shift/mask/or/carry-free-add code of byte packers, so verdicts are equalities of
// computed vectors with specification vectors. Anything outside the fragment is Top (undecided).
package bits

import (
	"strconv"
	"fmt"
	"go/ast"
	"go/constant"
	"go/token"
	"go/types"
	"sort"
	"strings"

	"golibcheck/internal/core"
)

// Bit: C xor (xor of Terms); Top = unknown.
type Bit struct {
	C     bool
	Terms []string
	Top   bool
}

type Vec []Bit // index 0 = least significant bit

func Zero(n int) Vec { return make(Vec, n) }

func Const(v uint64, n int) Vec {
	out := make(Vec, n)
	for i := 0; i < n && i < 64; i++ {
		out[i].C = v>>uint(i)&1 == 1
	}
	return out
}

func Input(name string, n int) Vec {
	out := make(Vec, n)
	for i := range out {
		out[i].Terms = []string{fmt.Sprintf("%s.%d", name, i)}
	}
	return out
}

func TopVec(n int) Vec {
	out := make(Vec, n)
	for i := range out {
		out[i].Top = true
	}
	return out
}

func (b Bit) IsConst() bool { return !b.Top && len(b.Terms) == 0 }
func (b Bit) IsZero() bool  { return b.IsConst() && !b.C }

func (b Bit) String() string {
	if b.Top {
		return "T"
	}
	s := strings.Join(b.Terms, "^")
	if s == "" {
		if b.C {
			return "1"
		}
		return "0"
	}
	if b.C {
		return "~(" + s + ")"
	}
	return s
}

func (v Vec) String() string {
	parts := make([]string, len(v))
	for i := range v {
		parts[len(v)-1-i] = v[i].String()
	}
	return "[" + strings.Join(parts, " ") + "]"
}

func (v Vec) HasTop() bool {
	for _, b := range v {
		if b.Top {
			return true
		}
	}
	return false
}

func EqualBit(a, b Bit) bool {
	if a.Top || b.Top || a.C != b.C || len(a.Terms) != len(b.Terms) {
		return false
	}
	for i := range a.Terms {
		if a.Terms[i] != b.Terms[i] {
			return false
		}
	}
	return true
}

func Equal(a, b Vec) bool {
	if len(a) != len(b) {
		return false
	}
	for i := range a {
		if !EqualBit(a[i], b[i]) {
			return false
		}
	}
	return true
}

func xorBit(a, b Bit) Bit {
	if a.Top || b.Top {
		return Bit{Top: true}
	}
	out := Bit{C: a.C != b.C}
	i, j := 0, 0
	for i < len(a.Terms) || j < len(b.Terms) {
		switch {
		case j >= len(b.Terms) || (i < len(a.Terms) && a.Terms[i] < b.Terms[j]):
			out.Terms = append(out.Terms, a.Terms[i])
			i++
		case i >= len(a.Terms) || b.Terms[j] < a.Terms[i]:
			out.Terms = append(out.Terms, b.Terms[j])
			j++
		default:
			i++
			j++
		}
	}
	return out
}

func Xor(a, b Vec) Vec {
	out := make(Vec, len(a))
	for i := range a {
		out[i] = xorBit(a[i], b[i])
	}
	return out
}

func andBit(a, b Bit) Bit {
	switch {
	case a.IsConst():
		if a.C {
			return b
		}
		return Bit{}
	case b.IsConst():
		if b.C {
			return a
		}
		return Bit{}
	case EqualBit(a, b):
		return a
	}
	return Bit{Top: true}
}

func And(a, b Vec) Vec {
	out := make(Vec, len(a))
	for i := range a {
		out[i] = andBit(a[i], b[i])
	}
	return out
}

func orBit(a, b Bit) Bit {
	switch {
	case a.IsConst():
		if a.C {
			return Bit{C: true}
		}
		return b
	case b.IsConst():
		if b.C {
			return Bit{C: true}
		}
		return a
	case EqualBit(a, b):
		return a
	}
	return Bit{Top: true}
}

func Or(a, b Vec) Vec {
	out := make(Vec, len(a))
	for i := range a {
		out[i] = orBit(a[i], b[i])
	}
	return out
}

// Add: exact when carry-free (at every position at most one operand can be non-zero).
func Add(a, b Vec) Vec {
	for i := range a {
		if !(a[i].IsZero() || b[i].IsZero()) {
			return TopVec(len(a))
		}
	}
	return Xor(a, b)
}

func Not(a Vec) Vec {
	out := make(Vec, len(a))
	for i := range a {
		out[i] = a[i]
		if !a[i].Top {
			out[i].C = !a[i].C
		}
	}
	return out
}

func Shl(a Vec, k int) Vec {
	out := make(Vec, len(a))
	for i := range out {
		if i-k >= 0 && i-k < len(a) {
			out[i] = a[i-k]
		}
	}
	return out
}

func Shr(a Vec, k int, arithmetic bool) Vec {
	out := make(Vec, len(a))
	for i := range out {
		switch {
		case i+k < len(a):
			out[i] = a[i+k]
		case arithmetic && len(a) > 0:
			out[i] = a[len(a)-1]
		}
	}
	return out
}

// Convert a vector of a source type to a target width.
func Convert(a Vec, srcSigned bool, n int) Vec {
	out := make(Vec, n)
	for i := range out {
		switch {
		case i < len(a):
			out[i] = a[i]
		case srcSigned && len(a) > 0:
			out[i] = a[len(a)-1]
		}
	}
	return out
}

// ---------------------------------------------------------------------------------------------

// Bytes models a byte slice addressed at constant offsets from a symbolic base.
type Bytes struct {
	Name  string
	Cells map[int]Vec // offset -> 8-bit vector (writes); reads of unwritten cells yield inputs
	Len   int         // for literals, else -1
	Input bool
	Shift int // a view b[lo:...] shares Cells with its parent and addresses them at +lo
	NonNil bool // input bytes known to be non-nil (handed out by a modelled read)
}

func (b *Bytes) Get(off int) Vec {
	if v, ok := b.Cells[off+b.Shift]; ok {
		return v
	}
	if b.Input {
		return Input(fmt.Sprintf("%s[%d]", b.Name, off+b.Shift), 8)
	}
	return Zero(8)
}

// Set writes one byte cell.
func (b *Bytes) Set(off int, v Vec) { b.Cells[off+b.Shift] = v }

// Cell returns a written cell (view-relative offset).
func (b *Bytes) Cell(off int) (Vec, bool) {
	v, ok := b.Cells[off+b.Shift]
	return v, ok
}

// Value is an abstract value: an integer vector or a byte slice.
type Value struct {
	V    Vec
	B    *Bytes
	Sign bool
}

// Interp evaluates straight-line functions.
type Interp struct {
	P      *core.Program
	Notes  []string
	Tables map[string]bool
	depth  int
	// Sel resolves a field selection (x.f) to a value; nil result = not modelled. Used to evaluate
	// code for one fixed value of a field (the protocol version of a pack).
	Sel func(sel *ast.SelectorExpr) *Value
	// ConstTables: package-level array/slice/map literals of constants indexed by a constant yield
	// the constant (instead of an uninterpreted table look-up)
	ConstTables bool
	// CallHook intercepts a call before it is resolved (stream methods standing for the wire):
	// handled=true means the returned value (possibly nil after Fail) is the call's value.
	CallHook func(f *Frame, call *ast.CallExpr) (val *Value, handled bool)
	// TableAlias: a package-level table that is a width variant of another one (its entries are the
	// low 32 bits of the base table's, zero- or sign-extended): base name, base element width, and
	// whether the upper bits repeat bit 31. Look-ups in it are look-ups in the base table.
	TableAlias func(obj types.Object) (base string, baseWidth int, signExt bool, ok bool)
}

type frame struct {
	fi   *core.FuncInfo
	info *types.Info
	env  map[types.Object]*Value
	base map[types.Object]bool // int params acting as symbolic offsets (value 0)
	ret  *Value
	why  string
}

func typeWidth(t types.Type) (int, bool, bool) {
	b, ok := t.Underlying().(*types.Basic)
	if !ok {
		return 0, false, false
	}
	switch b.Kind() {
	case types.Bool:
		return 1, false, true
	case types.Int8:
		return 8, true, true
	case types.Uint8:
		return 8, false, true
	case types.Int16:
		return 16, true, true
	case types.Uint16:
		return 16, false, true
	case types.Int32:
		return 32, true, true
	case types.Uint32:
		return 32, false, true
	case types.Int64, types.Int:
		return 64, true, true
	case types.Uint64, types.Uint, types.Uintptr:
		return 64, false, true
	case types.Float32:
		return 32, false, true
	case types.Float64:
		return 64, false, true
	case types.UntypedInt, types.UntypedRune:
		return 64, true, true
	}
	return 0, false, false
}

func isByteArray(t types.Type) bool {
	if t == nil {
		return false
	}
	a, ok := t.Underlying().(*types.Array)
	if !ok {
		return false
	}
	b, ok := a.Elem().Underlying().(*types.Basic)
	return ok && b.Kind() == types.Uint8
}

func isByteSlice(t types.Type) bool {
	s, ok := t.Underlying().(*types.Slice)
	if !ok {
		return false
	}
	b, ok := s.Elem().Underlying().(*types.Basic)
	return ok && b.Kind() == types.Uint8
}

// Call evaluates fi with the given arguments. Offset parameters (int params used only as slice
// index bases) are bound to the symbolic base 0.
func (ip *Interp) Call(fi *core.FuncInfo, args []*Value) (*Value, string) {
	if fi == nil || fi.Decl.Body == nil {
		return nil, "no body"
	}
	if ip.depth > 6 {
		return nil, "call depth"
	}
	ip.depth++
	defer func() { ip.depth-- }()
	fr := &frame{fi: fi, info: fi.Pkg.TypesInfo, env: map[types.Object]*Value{}, base: map[types.Object]bool{}}
	i := 0
	for _, f := range fi.Decl.Type.Params.List {
		for _, n := range f.Names {
			obj := fr.info.Defs[n]
			if i < len(args) && args[i] != nil {
				fr.env[obj] = args[i]
			} else if w, sg, ok := typeWidth(obj.Type()); ok {
				fr.env[obj] = &Value{V: Input(n.Name, w), Sign: sg}
			}
			i++
		}
	}
	ip.block(fr, fi.Decl.Body.List)
	if fr.why != "" {
		return nil, fr.why
	}
	if fr.ret == nil {
		// a procedure (it stores into the byte slice it was handed): nothing to hand back
		if fi.Decl.Type.Results == nil || len(fi.Decl.Type.Results.List) == 0 {
			return &Value{V: Zero(1)}, ""
		}
		return nil, "no return value"
	}
	return fr.ret, ""
}

func (ip *Interp) block(fr *frame, list []ast.Stmt) {
	for _, s := range list {
		if fr.why != "" || fr.ret != nil {
			return
		}
		ip.stmt(fr, s)
	}
}

func (ip *Interp) fail(fr *frame, n ast.Node, format string, a ...interface{}) {
	if fr.why == "" {
		fr.why = fmt.Sprintf("%s: ", ip.P.Pos(n.Pos())) + fmt.Sprintf(format, a...)
	}
}

func (ip *Interp) stmt(fr *frame, s ast.Stmt) {
	switch v := s.(type) {
	case *ast.AssignStmt:
		if len(v.Lhs) != len(v.Rhs) {
			ip.fail(fr, v, "multi-value assignment")
			return
		}
		if (v.Tok == token.DEFINE || v.Tok == token.ASSIGN) && len(v.Lhs) > 1 {
			vals := make([]*Value, len(v.Lhs))
			for i := range v.Lhs {
				vals[i] = ip.expr(fr, v.Rhs[i], fr.info.TypeOf(v.Lhs[i]))
				if vals[i] == nil {
					return
				}
			}
			for i := range v.Lhs {
				ip.store(fr, v.Lhs[i], vals[i])
			}
			return
		}
		for i := range v.Lhs {
			var val *Value
			switch v.Tok {
			case token.DEFINE, token.ASSIGN:
				val = ip.expr(fr, v.Rhs[i], fr.info.TypeOf(v.Lhs[i]))
			case token.SUB_ASSIGN, token.SHL_ASSIGN, token.SHR_ASSIGN, token.MUL_ASSIGN:
				op := map[token.Token]token.Token{token.SUB_ASSIGN: token.SUB, token.SHL_ASSIGN: token.SHL, token.SHR_ASSIGN: token.SHR, token.MUL_ASSIGN: token.MUL}[v.Tok]
				val = ip.binary(fr, v, op, ip.expr(fr, v.Lhs[i], nil), ip.expr(fr, v.Rhs[i], nil), fr.info.TypeOf(v.Lhs[i]))
			case token.ADD_ASSIGN, token.OR_ASSIGN, token.XOR_ASSIGN, token.AND_ASSIGN:
				op := map[token.Token]token.Token{token.ADD_ASSIGN: token.ADD, token.OR_ASSIGN: token.OR, token.XOR_ASSIGN: token.XOR, token.AND_ASSIGN: token.AND}[v.Tok]
				val = ip.binary(fr, v, op, ip.expr(fr, v.Lhs[i], nil), ip.expr(fr, v.Rhs[i], fr.info.TypeOf(v.Lhs[i])), fr.info.TypeOf(v.Lhs[i]))
			default:
				ip.fail(fr, v, "assignment operator %s", v.Tok)
				return
			}
			if val == nil {
				return
			}
			ip.store(fr, v.Lhs[i], val)
		}
	case *ast.DeclStmt:
		gd, ok := v.Decl.(*ast.GenDecl)
		if !ok {
			return
		}
		for _, sp := range gd.Specs {
			vs, ok := sp.(*ast.ValueSpec)
			if !ok {
				continue
			}
			for i, nm := range vs.Names {
				obj := fr.info.Defs[nm]
				if i < len(vs.Values) {
					if val := ip.expr(fr, vs.Values[i], obj.Type()); val != nil {
						fr.env[obj] = val
					}
				} else if w, sg, ok := typeWidth(obj.Type()); ok {
					fr.env[obj] = &Value{V: Zero(w), Sign: sg}
				} else if at, ok := obj.Type().Underlying().(*types.Array); ok && isByteArray(obj.Type()) {
					fr.env[obj] = &Value{B: &Bytes{Name: nm.Name, Cells: map[int]Vec{}, Len: int(at.Len())}}
				}
			}
		}
	case *ast.ReturnStmt:
		if len(v.Results) != 1 {
			ip.fail(fr, v, "return with %d results", len(v.Results))
			return
		}
		var rt types.Type
		if fr.fi.Decl.Type.Results != nil && len(fr.fi.Decl.Type.Results.List) == 1 {
			rt = fr.info.TypeOf(fr.fi.Decl.Type.Results.List[0].Type)
		}
		if rt != nil {
			if _, _, scalar := typeWidth(rt); !scalar && !isByteSlice(rt) {
				// a result that is neither a number nor bytes (the stream itself, for chaining): evaluated
				// for its effects when it is a call, not modelled as a value
				if call, ok := ast.Unparen(v.Results[0]).(*ast.CallExpr); ok {
					ip.expr(fr, call, nil)
				}
				if fr.why == "" {
					fr.ret = &Value{V: Zero(1)}
				}
				return
			}
		}
		fr.ret = ip.expr(fr, v.Results[0], rt)
	case *ast.ExprStmt:
		// calls for effect on byte slices (SetBytesShort(b, 1, x))
		if call, ok := v.X.(*ast.CallExpr); ok {
			ip.expr(fr, call, nil)
			return
		}
		ip.fail(fr, v, "expression statement")
	case *ast.BlockStmt:
		ip.block(fr, v.List)
	case *ast.IncDecStmt:
		x := ip.expr(fr, v.X, nil)
		if x == nil || x.V == nil {
			return
		}
		one := &Value{V: Const(1, len(x.V)), Sign: x.Sign}
		op := token.ADD
		if v.Tok == token.DEC {
			op = token.SUB
		}
		if val := ip.binary(fr, v, op, x, one, fr.info.TypeOf(v.X)); val != nil {
			ip.store(fr, v.X, val)
		}
	case *ast.IfStmt:
		// only conditions that evaluate to a constant (a width parameter known at the call)
		if v.Init != nil {
			ip.stmt(fr, v.Init)
		}
		c := ip.expr(fr, v.Cond, nil)
		if c == nil {
			return
		}
		k, ok := constOf(c.V)
		if !ok {
			ip.fail(fr, v, "branch on a non-constant condition")
			return
		}
		if k != 0 {
			ip.block(fr, v.Body.List)
		} else if v.Else != nil {
			ip.stmt(fr, v.Else)
		}
	case *ast.ForStmt:
		// loops whose trip count is a constant once the arguments are known are unrolled
		if v.Init != nil {
			ip.stmt(fr, v.Init)
		}
		for iter := 0; ; iter++ {
			if fr.why != "" || fr.ret != nil {
				return
			}
			if iter > 256 {
				ip.fail(fr, v, "loop does not terminate within 256 unrolled iterations")
				return
			}
			if v.Cond != nil {
				c := ip.expr(fr, v.Cond, nil)
				if c == nil {
					return
				}
				k, ok := constOf(c.V)
				if !ok {
					ip.fail(fr, v, "loop condition is not a constant after unrolling (statement *ast.ForStmt outside the straight-line fragment)")
					return
				}
				if k == 0 {
					return
				}
			} else {
				ip.fail(fr, v, "for without a condition")
				return
			}
			ip.block(fr, v.Body.List)
			if v.Post != nil && fr.why == "" && fr.ret == nil {
				ip.stmt(fr, v.Post)
			}
		}
	case *ast.RangeStmt:
		// for i := range <constant n> / for i := range <byte slice of known length>
		n := -1
		if tv, ok := fr.info.Types[v.X]; ok && tv.Value != nil {
			if k, ok := constant.Int64Val(constant.ToInt(tv.Value)); ok {
				n = int(k)
			}
		}
		var elems *Bytes
		if n < 0 && (isByteSlice(fr.info.TypeOf(v.X)) || isByteArray(fr.info.TypeOf(v.X))) {
			if bv := ip.expr(fr, v.X, nil); bv != nil && bv.B != nil && bv.B.Len >= 0 {
				n = bv.B.Len
				elems = bv.B
			}
		}
		isBlank := func(e ast.Expr) bool {
			id, ok := e.(*ast.Ident)
			return e == nil || (ok && id.Name == "_")
		}
		if n < 0 || n > 256 || (isBlank(v.Key) && isBlank(v.Value)) || (!isBlank(v.Value) && elems == nil) {
			ip.fail(fr, s, "statement %T outside the straight-line fragment", s)
			return
		}
		for i := 0; i < n && fr.why == "" && fr.ret == nil; i++ {
			if !isBlank(v.Key) {
				ip.store(fr, v.Key, &Value{V: Const(uint64(i), 64), Sign: true})
			}
			if !isBlank(v.Value) {
				ip.store(fr, v.Value, &Value{V: elems.Get(i)})
			}
			ip.block(fr, v.Body.List)
		}
	default:
		ip.fail(fr, s, "statement %T outside the straight-line fragment", s)
	}
}

// index: e = base + const | const | base  → (bytes, offset)
func (ip *Interp) index(fr *frame, ix *ast.IndexExpr) (*Bytes, int, bool) {
	bv := ip.expr(fr, ix.X, nil)
	if bv == nil || bv.B == nil {
		return nil, 0, false
	}
	off, ok := ip.offset(fr, ix.Index)
	if !ok {
		ip.fail(fr, ix, "index is not base+constant")
		return nil, 0, false
	}
	return bv.B, off, true
}

// offset evaluates an index expression to a constant offset from the symbolic base (any int
// parameter of the function counts as the base and contributes 0).
func (ip *Interp) offset(fr *frame, e ast.Expr) (int, bool) {
	e = ast.Unparen(e)
	if tv, ok := fr.info.Types[e]; ok && tv.Value != nil {
		if n, ok := constant.Int64Val(constant.ToInt(tv.Value)); ok {
			return int(n), true
		}
	}
	switch v := e.(type) {
	case *ast.Ident:
		obj := fr.info.ObjectOf(v)
		if val, ok := fr.env[obj]; ok && val.V != nil {
			// symbolic int parameter: base
			if len(val.V) > 0 && len(val.V[0].Terms) == 1 && strings.HasPrefix(val.V[0].Terms[0], v.Name+".") {
				return 0, true
			}
			if n, ok := constOf(val.V); ok {
				return int(n), true
			}
		}
	case *ast.BinaryExpr:
		if v.Op == token.ADD || v.Op == token.SUB {
			a, ok1 := ip.offset(fr, v.X)
			b, ok2 := ip.offset(fr, v.Y)
			if ok1 && ok2 {
				if v.Op == token.SUB {
					return a - b, true
				}
				return a + b, true
			}
		}
	case *ast.CallExpr:
		// len(b) of a byte slice whose length is known
		if id, ok := v.Fun.(*ast.Ident); ok && id.Name == "len" && len(v.Args) == 1 {
			if bv := ip.expr(fr, v.Args[0], nil); bv != nil && bv.B != nil && bv.B.Len > 0 {
				return bv.B.Len, true
			}
		}
	}
	return 0, false
}

func constOf(v Vec) (uint64, bool) {
	var n uint64
	for i, b := range v {
		if !b.IsConst() {
			return 0, false
		}
		if b.C && i < 64 {
			n |= 1 << uint(i)
		}
	}
	return n, true
}

func (ip *Interp) store(fr *frame, lhs ast.Expr, val *Value) {
	switch l := ast.Unparen(lhs).(type) {
	case *ast.Ident:
		if l.Name == "_" {
			return
		}
		fr.env[fr.info.ObjectOf(l)] = val
	case *ast.IndexExpr:
		b, off, ok := ip.index(fr, l)
		if !ok {
			return
		}
		if val.V == nil {
			ip.fail(fr, lhs, "storing a non-integer into a byte")
			return
		}
		b.Set(off, Convert(val.V, val.Sign, 8))
	default:
		ip.fail(fr, lhs, "assignment target %T", lhs)
	}
}

func (ip *Interp) expr(fr *frame, e ast.Expr, want types.Type) *Value {
	if fr.why != "" {
		return nil
	}
	e = ast.Unparen(e)
	t := fr.info.TypeOf(e)
	if tv, ok := fr.info.Types[e]; ok && tv.Value != nil {
		tt := t
		if want != nil {
			if b, ok := tt.Underlying().(*types.Basic); ok && b.Info()&types.IsUntyped != 0 {
				tt = want
			}
		}
		w, sg, ok := typeWidth(tt)
		if !ok {
			ip.fail(fr, e, "constant of type %s", tt)
			return nil
		}
		switch tv.Value.Kind() {
		case constant.Int:
			if n, ok := constant.Uint64Val(tv.Value); ok {
				return &Value{V: Const(n, w), Sign: sg}
			}
			if n, ok := constant.Int64Val(tv.Value); ok {
				return &Value{V: Const(uint64(n), w), Sign: sg}
			}
		case constant.Bool:
			if constant.BoolVal(tv.Value) {
				return &Value{V: Const(1, 1)}
			}
			return &Value{V: Const(0, 1)}
		}
		ip.fail(fr, e, "unsupported constant %s", tv.Value)
		return nil
	}
	switch v := e.(type) {
	case *ast.Ident:
		obj := fr.info.ObjectOf(v)
		if val, ok := fr.env[obj]; ok {
			return val
		}
		if isByteSlice(obj.Type()) {
			b := &Value{B: &Bytes{Name: v.Name, Cells: map[int]Vec{}, Len: -1, Input: true}}
			fr.env[obj] = b
			return b
		}
		ip.fail(fr, e, "unbound identifier %s", v.Name)
		return nil
	case *ast.CompositeLit:
		if isByteSlice(t) {
			b := &Bytes{Name: "lit", Cells: map[int]Vec{}, Len: len(v.Elts)}
			for i, el := range v.Elts {
				ev := ip.expr(fr, el, types.Typ[types.Uint8])
				if ev == nil {
					return nil
				}
				b.Cells[i] = Convert(ev.V, false, 8)
			}
			return &Value{B: b}
		}
	case *ast.SelectorExpr:
		if ip.Sel != nil {
			if val := ip.Sel(v); val != nil {
				return val
			}
		}
	case *ast.IndexExpr:
		if ip.ConstTables {
			if val := ip.constTable(fr, v); val != nil {
				return val
			}
		}
		// table look-up or byte slice
		xt := fr.info.TypeOf(v.X)
		if isByteSlice(xt) {
			b, off, ok := ip.index(fr, v)
			if !ok {
				return nil
			}
			return &Value{V: b.Get(off)}
		}
		if id, ok := ast.Unparen(v.X).(*ast.Ident); ok {
			if obj := fr.info.ObjectOf(id); obj != nil && obj.Parent() == obj.Pkg().Scope() {
				idx := ip.expr(fr, v.Index, nil)
				if idx == nil {
					return nil
				}
				et := fr.info.TypeOf(e)
				w, sg, ok := typeWidth(et)
				if !ok {
					ip.fail(fr, e, "table element type %s", et)
					return nil
				}
				if ip.Tables == nil {
					ip.Tables = map[string]bool{}
				}
				if ip.TableAlias != nil {
					if base, bw, sext, ok := ip.TableAlias(obj); ok {
						ip.Tables[base] = true
						t := Input(fmt.Sprintf("%s{%s}", base, idx.V.String()), bw)
						out := make(Vec, w)
						for k := 0; k < w; k++ {
							switch {
							case k < 32 && k < bw:
								out[k] = t[k]
							case sext && bw > 31:
								out[k] = t[31]
							}
						}
						return &Value{V: out, Sign: sg}
					}
				}
				ip.Tables[obj.Name()] = true
				key := fmt.Sprintf("%s{%s}", obj.Name(), idx.V.String())
				return &Value{V: Input(key, w), Sign: sg}
			}
		}
	case *ast.SliceExpr:
		if isByteSlice(fr.info.TypeOf(v.X)) || isByteArray(fr.info.TypeOf(v.X)) {
			bv := ip.expr(fr, v.X, nil)
			if bv == nil || bv.B == nil {
				return nil
			}
			lo := 0
			if v.Low != nil {
				o, ok := ip.offset(fr, v.Low)
				if !ok {
					ip.fail(fr, e, "slice bound is not base+constant")
					return nil
				}
				lo = o
			}
			ln := -1
			if v.High != nil {
				if hi, ok := ip.offset(fr, v.High); ok {
					ln = hi - lo
				}
			} else if bv.B.Len >= 0 {
				ln = bv.B.Len - lo
			}
			return &Value{B: &Bytes{Name: bv.B.Name, Cells: bv.B.Cells, Len: ln, Input: bv.B.Input, Shift: bv.B.Shift + lo}}
		}
	case *ast.BinaryExpr:
		if v.Op == token.EQL || v.Op == token.NEQ {
			// b != nil on bytes the interpreter itself produced (make, a literal, a modelled read)
			for _, pr := range [][2]ast.Expr{{v.X, v.Y}, {v.Y, v.X}} {
				if id, ok := ast.Unparen(pr[1]).(*ast.Ident); ok && id.Name == "nil" && isByteSlice(fr.info.TypeOf(pr[0])) {
					bv := ip.expr(fr, pr[0], nil)
					if bv == nil {
						return nil
					}
					if bv.B != nil && bv.B.Len >= 0 && (!bv.B.Input || bv.B.NonNil) {
						if v.Op == token.NEQ {
							return &Value{V: Const(1, 1)}
						}
						return &Value{V: Const(0, 1)}
					}
					ip.fail(fr, e, "nil test of bytes of unknown origin")
					return nil
				}
			}
		}
		l := ip.expr(fr, v.X, nil)
		var r *Value
		if v.Op == token.SHL || v.Op == token.SHR {
			r = ip.expr(fr, v.Y, types.Typ[types.Uint])
		} else {
			r = ip.expr(fr, v.Y, fr.info.TypeOf(v.X))
		}
		if l == nil || r == nil {
			return nil
		}
		return ip.binary(fr, v, v.Op, l, r, t)
	case *ast.UnaryExpr:
		x := ip.expr(fr, v.X, want)
		if x == nil {
			return nil
		}
		if v.Op == token.XOR {
			return &Value{V: Not(x.V), Sign: x.Sign}
		}
	case *ast.CallExpr:
		return ip.call(fr, v, want)
	}
	ip.fail(fr, e, "expression %T outside the fragment", e)
	return nil
}

func (ip *Interp) binary(fr *frame, n ast.Node, op token.Token, l, r *Value, t types.Type) *Value {
	if l == nil || r == nil {
		return nil
	}
	if l.V == nil || r.V == nil {
		ip.fail(fr, n, "binary operator on non-integers")
		return nil
	}
	w, sg, ok := typeWidth(t)
	if !ok {
		w, sg = len(l.V), l.Sign
	}
	lv := Convert(l.V, l.Sign, w)
	switch op {
	case token.SHL, token.SHR:
		k, ok := constOf(r.V)
		if !ok {
			ip.fail(fr, n, "shift by a non-constant")
			return nil
		}
		if op == token.SHL {
			return &Value{V: Shl(lv, int(k)), Sign: sg}
		}
		return &Value{V: Shr(lv, int(k), sg), Sign: sg}
	}
	rv := Convert(r.V, r.Sign, w)
	var out Vec
	switch op {
	case token.ADD:
		if a, ok1 := constOf(lv); ok1 {
			if b, ok2 := constOf(rv); ok2 {
				return &Value{V: Const(a+b, w), Sign: sg}
			}
		}
		out = Add(lv, rv)
	case token.OR:
		out = Or(lv, rv)
	case token.AND:
		out = And(lv, rv)
	case token.XOR:
		out = Xor(lv, rv)
	case token.AND_NOT:
		out = And(lv, Not(rv))
	case token.SUB:
		a, ok1 := constOf(lv)
		b, ok2 := constOf(rv)
		if !ok1 || !ok2 {
			ip.fail(fr, n, "operator - on non-constants")
			return nil
		}
		return &Value{V: Const(a-b, w), Sign: sg}
	case token.EQL, token.NEQ, token.LSS, token.LEQ, token.GTR, token.GEQ, token.MUL, token.QUO, token.REM, token.LAND, token.LOR:
		// decided on constants only (loop counters, widths known at the call)
		cw := len(l.V)
		if len(r.V) > cw {
			cw = len(r.V)
		}
		a, ok1 := constOf(Convert(l.V, l.Sign, 64))
		b, ok2 := constOf(Convert(r.V, r.Sign, 64))
		if !ok1 || !ok2 {
			if op == token.MUL {
				// multiplication by a constant power of two is a shift
				for _, pr := range [][2]*Value{{l, r}, {r, l}} {
					if k, ok := constOf(pr[1].V); ok && k != 0 && k&(k-1) == 0 {
						sh := 0
						for k > 1 {
							k >>= 1
							sh++
						}
						return &Value{V: Shl(Convert(pr[0].V, pr[0].Sign, w), sh), Sign: sg}
					}
				}
			}
			ip.fail(fr, n, "operator %s on non-constants", op)
			return nil
		}
		signed := l.Sign || r.Sign
		cmp := func() int {
			if signed {
				switch {
				case int64(a) < int64(b):
					return -1
				case int64(a) > int64(b):
					return 1
				}
				return 0
			}
			switch {
			case a < b:
				return -1
			case a > b:
				return 1
			}
			return 0
		}
		bv := func(x bool) *Value {
			if x {
				return &Value{V: Const(1, 1)}
			}
			return &Value{V: Const(0, 1)}
		}
		switch op {
		case token.EQL:
			return bv(cmp() == 0)
		case token.NEQ:
			return bv(cmp() != 0)
		case token.LSS:
			return bv(cmp() < 0)
		case token.LEQ:
			return bv(cmp() <= 0)
		case token.GTR:
			return bv(cmp() > 0)
		case token.GEQ:
			return bv(cmp() >= 0)
		case token.LAND:
			return bv(a != 0 && b != 0)
		case token.LOR:
			return bv(a != 0 || b != 0)
		case token.MUL:
			return &Value{V: Const(a*b, w), Sign: sg}
		case token.QUO, token.REM:
			if b == 0 {
				ip.fail(fr, n, "division by zero")
				return nil
			}
			if signed {
				if op == token.QUO {
					return &Value{V: Const(uint64(int64(a)/int64(b)), w), Sign: sg}
				}
				return &Value{V: Const(uint64(int64(a)%int64(b)), w), Sign: sg}
			}
			if op == token.QUO {
				return &Value{V: Const(a/b, w), Sign: sg}
			}
			return &Value{V: Const(a%b, w), Sign: sg}
		}
	default:
		ip.fail(fr, n, "operator %s", op)
		return nil
	}
	return &Value{V: out, Sign: sg}
}

var bitIdentity = map[string]bool{"math.Float32bits": true, "math.Float64bits": true, "math.Float32frombits": true, "math.Float64frombits": true}

func (ip *Interp) call(fr *frame, call *ast.CallExpr, want types.Type) *Value {
	// conversion
	if tv, ok := fr.info.Types[call.Fun]; ok && tv.IsType() && len(call.Args) == 1 {
		x := ip.expr(fr, call.Args[0], tv.Type)
		if x == nil {
			return nil
		}
		if x.B != nil {
			return x
		}
		w, sg, ok := typeWidth(tv.Type)
		if !ok {
			ip.fail(fr, call, "conversion to %s", tv.Type)
			return nil
		}
		return &Value{V: Convert(x.V, x.Sign, w), Sign: sg}
	}
	if ip.CallHook != nil {
		if val, handled := ip.CallHook(&Frame{fr}, call); handled {
			return val
		}
	}
	var id *ast.Ident
	switch f := ast.Unparen(call.Fun).(type) {
	case *ast.Ident:
		id = f
	case *ast.SelectorExpr:
		id = f.Sel
	}
	if id == nil {
		ip.fail(fr, call, "call of a function value")
		return nil
	}
	if b, isB := fr.info.Uses[id].(*types.Builtin); isB && b.Name() == "make" && len(call.Args) >= 2 && isByteSlice(fr.info.TypeOf(call)) {
		if n, ok := ip.offset(fr, call.Args[1]); ok {
			return &Value{B: &Bytes{Name: "make", Cells: map[int]Vec{}, Len: n}}
		}
		ip.fail(fr, call, "make with a non-constant length")
		return nil
	}
	if b, isB := fr.info.Uses[id].(*types.Builtin); isB && b.Name() == "len" && len(call.Args) == 1 {
		if isByteSlice(fr.info.TypeOf(call.Args[0])) || isByteArray(fr.info.TypeOf(call.Args[0])) {
			if bv := ip.expr(fr, call.Args[0], nil); bv != nil && bv.B != nil && bv.B.Len >= 0 {
				return &Value{V: Const(uint64(bv.B.Len), 64), Sign: true}
			}
		}
		// the length of an input slice is a fresh 64-bit input named after the slice
		return &Value{V: Input("len("+types.ExprString(call.Args[0])+")", 64), Sign: true}
	}
	fn, _ := fr.info.Uses[id].(*types.Func)
	if fn == nil {
		ip.fail(fr, call, "unresolved callee %s", id.Name)
		return nil
	}
	if fn.Pkg() != nil && bitIdentity[fn.Pkg().Name()+"."+fn.Name()] {
		x := ip.expr(fr, call.Args[0], nil)
		if x == nil {
			return nil
		}
		w, sg, _ := typeWidth(fn.Type().(*types.Signature).Results().At(0).Type())
		ip.Notes = append(ip.Notes, fn.Pkg().Name()+"."+fn.Name()+" is the IEEE-754 bit identity")
		return &Value{V: Convert(x.V, false, w), Sign: sg}
	}
	if fn.Pkg() != nil && fn.Pkg().Path() == "encoding/binary" {
		// binary.BigEndian / binary.LittleEndian: PutUintN(b, v), UintN(b), AppendUintN(b, v)
		sel, _ := ast.Unparen(call.Fun).(*ast.SelectorExpr)
		order := ""
		if sel != nil {
			order = types.ExprString(sel.X)
			if t := fr.info.TypeOf(sel.X); t != nil {
				order = t.String()
			}
		}
		little := strings.Contains(strings.ToLower(order), "little")
		big := strings.Contains(strings.ToLower(order), "big")
		width := map[string]int{"PutUint16": 2, "PutUint32": 4, "PutUint64": 8, "Uint16": 2, "Uint32": 4, "Uint64": 8, "AppendUint16": 2, "AppendUint32": 4, "AppendUint64": 8}[fn.Name()]
		if strings.HasPrefix(fn.Name(), "Append") && width != 0 && little != big && len(call.Args) == 2 {
			// AppendUintN(b, v): the bytes of v behind the len(b) bytes b already holds
			bv := ip.expr(fr, call.Args[0], nil)
			x := ip.expr(fr, call.Args[1], nil)
			if bv == nil || bv.B == nil || x == nil || x.V == nil {
				if bv != nil && bv.B == nil {
					ip.fail(fr, call, "encoding/binary on something other than a byte slice")
				}
				return nil
			}
			nb := &Bytes{Name: bv.B.Name, Cells: map[int]Vec{}, Len: bv.B.Len + width, Shift: bv.B.Shift}
			for k, v := range bv.B.Cells {
				nb.Cells[k] = v
			}
			xv := Convert(x.V, false, 8*width)
			for i := 0; i < width; i++ {
				sh := 8 * i
				if big {
					sh = 8 * (width - 1 - i)
				}
				nb.Set(bv.B.Len+i, Convert(Shr(xv, sh, false), false, 8))
			}
			return &Value{B: nb}
		}
		if width == 0 || little == big {
			ip.fail(fr, call, "encoding/binary.%s is not modelled", fn.Name())
			return nil
		}
		bv := ip.expr(fr, call.Args[0], nil)
		if bv == nil || bv.B == nil {
			if bv != nil {
				ip.fail(fr, call, "encoding/binary on something other than a byte slice")
			}
			return nil
		}
		if strings.HasPrefix(fn.Name(), "Put") {
			x := ip.expr(fr, call.Args[1], nil)
			if x == nil || x.V == nil {
				return nil
			}
			xv := Convert(x.V, false, 8*width)
			for i := 0; i < width; i++ {
				sh := 8 * i
				if big {
					sh = 8 * (width - 1 - i)
				}
				bv.B.Set(i, Convert(Shr(xv, sh, false), false, 8))
			}
			return &Value{V: Zero(1)}
		}
		out := Zero(8 * width)
		for i := 0; i < width; i++ {
			sh := 8 * i
			if big {
				sh = 8 * (width - 1 - i)
			}
			out = Or(out, Shl(Convert(bv.B.Get(i), false, 8*width), sh))
		}
		return &Value{V: out}
	}
	cfi := ip.P.FuncOf(fn)
	if cfi == nil {
		ip.fail(fr, call, "callee %s has no body in the module", fn.FullName())
		return nil
	}
	var args []*Value
	for _, a := range call.Args {
		at := fr.info.TypeOf(a)
		if isByteSlice(at) {
			av := ip.expr(fr, a, nil)
			if av == nil {
				return nil
			}
			args = append(args, av)
			continue
		}
		// int offsets: pass through offset semantics by shifting the callee's base
		if off, ok := ip.offset(fr, a); ok && isIntType(at) {
			args = append(args, &Value{V: Const(uint64(off), 64), Sign: true})
			continue
		}
		av := ip.expr(fr, a, nil)
		if av == nil {
			return nil
		}
		args = append(args, av)
	}
	res, why := ip.Call(cfi, args)
	if why != "" {
		ip.fail(fr, call, "in %s: %s", fn.Name(), why)
		return nil
	}
	return res
}

func isIntType(t types.Type) bool {
	b, ok := t.Underlying().(*types.Basic)
	return ok && b.Kind() == types.Int
}

// SortedCells lists the written offsets of a byte slice.
func (b *Bytes) SortedCells() []int {
	var ks []int
	for k0 := range b.Cells {
		k := k0 - b.Shift
		if k < 0 {
			continue
		}
		ks = append(ks, k)
	}
	sort.Ints(ks)
	return ks
}

// ---------------------------------------------------------------------------------------------
// exported stepping API (for rules that interpret fragments of a function)

// Frame is an evaluation context inside one function.
type Frame struct{ fr *frame }

// NewFrame binds the function's integer parameters to input vectors (and byte-slice params lazily).
func (ip *Interp) NewFrame(fi *core.FuncInfo) *Frame {
	fr := &frame{fi: fi, info: fi.Pkg.TypesInfo, env: map[types.Object]*Value{}, base: map[types.Object]bool{}}
	if fi.Decl.Type.Params != nil {
		for _, f := range fi.Decl.Type.Params.List {
			for _, n := range f.Names {
				obj := fr.info.Defs[n]
				if w, sg, ok := typeWidth(obj.Type()); ok {
					fr.env[obj] = &Value{V: Input(n.Name, w), Sign: sg}
				}
			}
		}
	}
	return &Frame{fr}
}

func (f *Frame) Bind(obj types.Object, v *Value) { f.fr.env[obj] = v }
func (f *Frame) Lookup(obj types.Object) *Value  { return f.fr.env[obj] }
func (f *Frame) Err() string                     { return f.fr.why }

// Fail records why the frame left the modelled fragment (first reason wins).
func (ip *Interp) Fail(f *Frame, n ast.Node, msg string) { ip.fail(f.fr, n, "%s", msg) }

// Info: the type information of the function the frame runs.
func (f *Frame) Info() *types.Info { return f.fr.info }
func (f *Frame) Returned() *Value                { return f.fr.ret }

func (ip *Interp) Exec(f *Frame, s ast.Stmt) { ip.stmt(f.fr, s) }
func (ip *Interp) Eval(f *Frame, e ast.Expr, want types.Type) *Value {
	return ip.expr(f.fr, e, want)
}

// ConstOf exposes constant extraction.
func ConstOf(v Vec) (uint64, bool) { return constOf(v) }

// Assign returns v with the input `name` fixed to the constant val: every term that is exactly bit k of
// that input becomes the constant bit k of val. (Product terms are left as they are.)
func Assign(v Vec, name string, val uint64) Vec {
	out := make(Vec, len(v))
	for i, b := range v {
		nb := Bit{C: b.C, Top: b.Top}
		for _, t := range b.Terms {
			k := -1
			if strings.HasPrefix(t, name+".") {
				if n, err := strconv.Atoi(t[len(name)+1:]); err == nil {
					k = n
				}
			}
			if k < 0 {
				nb.Terms = append(nb.Terms, t)
				continue
			}
			if k < 64 && val>>uint(k)&1 == 1 {
				nb.C = !nb.C
			}
		}
		out[i] = nb
	}
	return out
}

// constTable: T[k] for a package-level variable T initialised by a literal of constants and a constant k.
func (ip *Interp) constTable(fr *frame, ix *ast.IndexExpr) *Value {
	id, ok := ast.Unparen(ix.X).(*ast.Ident)
	if !ok {
		return nil
	}
	tv, _ := fr.info.ObjectOf(id).(*types.Var)
	if tv == nil || tv.Pkg() == nil || tv.Parent() != tv.Pkg().Scope() {
		return nil
	}
	kv := ip.expr(fr, ix.Index, nil)
	if kv == nil || kv.V == nil {
		fr.why = ""
		return nil
	}
	k, ok := constOf(kv.V)
	if !ok {
		return nil
	}
	for _, pk := range ip.P.Pkgs {
		if pk.Types != tv.Pkg() {
			continue
		}
		for _, f := range pk.Syntax {
			for _, d := range f.Decls {
				gd, ok := d.(*ast.GenDecl)
				if !ok || gd.Tok != token.VAR {
					continue
				}
				for _, sp := range gd.Specs {
					vs := sp.(*ast.ValueSpec)
					for i, nm := range vs.Names {
						if pk.TypesInfo.Defs[nm] != types.Object(tv) || i >= len(vs.Values) {
							continue
						}
						cl, ok := ast.Unparen(vs.Values[i]).(*ast.CompositeLit)
						if !ok {
							return nil
						}
						for pos, el := range cl.Elts {
							key := uint64(pos)
							val := el
							if kve, ok := el.(*ast.KeyValueExpr); ok {
								ktv, ok := pk.TypesInfo.Types[kve.Key]
								if !ok || ktv.Value == nil {
									return nil
								}
								kk, _ := constant.Int64Val(constant.ToInt(ktv.Value))
								key, val = uint64(kk), kve.Value
							}
							if key != k {
								continue
							}
							vtv, ok := pk.TypesInfo.Types[val]
							if !ok || vtv.Value == nil {
								return nil
							}
							w, sg, ok := typeWidth(fr.info.TypeOf(ix))
							if !ok {
								return nil
							}
							n, _ := constant.Int64Val(constant.ToInt(vtv.Value))
							return &Value{V: Const(uint64(n), w), Sign: sg}
						}
						return nil
					}
				}
			}
		}
	}
	return nil
}

// EvalConstCond evaluates a boolean/integer expression of function fi to a constant (with Sel and
// ConstTables in force); ok=false when it does not reduce to one.
func (ip *Interp) EvalConst(fi *core.FuncInfo, e ast.Expr) (uint64, bool) {
	fr := &frame{fi: fi, info: fi.Pkg.TypesInfo, env: map[types.Object]*Value{}, base: map[types.Object]bool{}}
	v := ip.expr(fr, e, nil)
	if v == nil || v.V == nil || fr.why != "" {
		return 0, false
	}
	return constOf(v.V)
}
