// Package locks is engine E3: per-type lock analysis on go/cfg control-flow graphs — which mutex
// is held at every field access and same-receiver call, pairing of Lock/Unlock on all paths,
// held-at-entry inference for unexported helpers, and self-deadlock (re-entry) detection.
package locks

import (
	"fmt"
	"go/ast"
	"go/token"
	"go/types"
	"sort"
	"strings"

	"golang.org/x/tools/go/cfg"

	"golibcheck/internal/core"
)

// Held states.
const (
	No  = 0
	Yes = 1
	Top = 2 // differs between paths
)

// Access is one read/write of a field of the receiver.
type Access struct {
	Field    string
	Write    bool
	Held     int
	Pos      token.Pos
	Alias    bool // the access goes through a local that was assigned the (map-typed) field: m := this.m ... m[k]
	Elem     bool // a write to an element (this.m[k] = v) rather than a replacement of the field
	NodeCall bool // ... touched by a method of the node called here
	Shared   bool // made while the lock is held in shared (read) mode
	Node     bool // a field of one of the collection's nodes (list entity, hash entry), reached through any expression
}

// CallSite is one call of a method of the same type on the same receiver.
type CallSite struct {
	Callee *types.Func
	Held   int
	Pos    token.Pos
	Peer   string // non-empty: the call is made on this other instance of the receiver's type
	Shared bool   // made while the lock is held in shared (read) mode
}

// FuncLocks is the result for one method.
type FuncLocks struct {
	FI        *core.FuncInfo
	Name      string
	Exported  bool
	LockSites []token.Pos // Lock() calls on the receiver's mutex
	Accesses  []Access
	Calls     []CallSite
	PeerCalls []CallSite // calls on another instance of the receiver's type
	Unpaired  []string   // problems: exit with lock held, unlock without lock, state differs between paths
	EntryHeld bool
	Waits     []WaitSite
	FuncCalls []FieldCall // calls through function-typed fields (callbacks) with held state
	EnumCtors []EnumCtor
}

type WaitSite struct {
	Pos     token.Pos
	Held    int
	InFor   bool
	ForCond string
}

type FieldCall struct {
	Field string
	Held  int
	Pos   token.Pos
}

type EnumCtor struct {
	Pos  token.Pos
	Held int
}

// TypeLocks is the analysis of one struct type with a mutex.
type TypeLocks struct {
	Type        *types.Named
	LockField   string
	LockPath    []string // LockField, or the path through a monitor struct (mon, cond)
	CondLock    bool     // the mutex is reached through a *sync.Cond field (f.L)
	Funcs       map[*types.Func]*FuncLocks
	Order       []*FuncLocks
	Fields      []string
	Written     map[string]bool // fields written outside constructors
	ElemWritten map[string]bool // fields whose elements are written in place (f[k] = v, delete(f, k))
	PkgLock     types.Object    // when set: the guarding mutex is this package-level variable
}

// FindLockField returns the name of the struct's sync.Mutex/RWMutex/*sync.Cond field.
func FindLockField(t *types.Named) (name string, cond bool) {
	path, cond := FindLockPath(t)
	if len(path) == 0 {
		return "", false
	}
	return path[0], cond
}

// FindLockPath: the field path from the struct to its mutex: one field, or two when the mutex lives in
// a small struct of synchronisation primitives the collection holds (a monitor: q.mon.cond).
func FindLockPath(t *types.Named) (path []string, cond bool) {
	st, ok := t.Underlying().(*types.Struct)
	if !ok {
		return nil, false
	}
	direct := func(st *types.Struct) (string, bool, bool) {
		mutex, mcond := "", ""
		for i := 0; i < st.NumFields(); i++ {
			f := st.Field(i)
			switch f.Type().String() {
			case "sync.Mutex", "sync.RWMutex", "*sync.Mutex", "*sync.RWMutex":
				if mutex == "" {
					mutex = f.Name()
				}
			case "*sync.Cond", "sync.Cond":
				if mcond == "" {
					mcond = f.Name()
				}
			}
		}
		// a mutex beside a condition variable bound to it: the mutex is the lock
		if mutex != "" {
			return mutex, false, true
		}
		if mcond != "" {
			return mcond, true, true
		}
		return "", false, false
	}
	if n, c, ok := direct(st); ok {
		return []string{n}, c
	}
	for i := 0; i < st.NumFields(); i++ {
		f := st.Field(i)
		ft := f.Type()
		if pt, ok := ft.(*types.Pointer); ok {
			ft = pt.Elem()
		}
		nt, ok := ft.(*types.Named)
		if !ok || nt.Obj().Pkg() != t.Obj().Pkg() {
			continue
		}
		ist, ok := nt.Underlying().(*types.Struct)
		if !ok {
			continue
		}
		pure := ist.NumFields() > 0
		for k := 0; k < ist.NumFields(); k++ {
			switch strings.TrimPrefix(ist.Field(k).Type().String(), "*") {
			case "sync.Mutex", "sync.RWMutex", "sync.Cond":
			default:
				pure = false
			}
		}
		if !pure {
			continue
		}
		if n, c, ok := direct(ist); ok {
			return []string{f.Name(), n}, c
		}
	}
	return nil, false
}

type analyzer struct {
	p     *core.Program
	tl    *TypeLocks
	nodes map[*types.TypeName]bool // struct types of the package the collection's fields point to (list nodes, hash entries)
}

// nodeTypesOf: the named struct types of t's own package that t's fields refer to through a pointer
// (first/last *Entity) or a slice of pointers (table []*Entry): the nodes the collection is made of.
func nodeTypesOf(t *types.Named) map[*types.TypeName]bool {
	out := map[*types.TypeName]bool{}
	st, ok := t.Underlying().(*types.Struct)
	if !ok {
		return out
	}
	for i := 0; i < st.NumFields(); i++ {
		ft := st.Field(i).Type()
		if sl, ok := ft.Underlying().(*types.Slice); ok {
			ft = sl.Elem()
		}
		pt, ok := ft.(*types.Pointer)
		if !ok {
			continue
		}
		n, ok := pt.Elem().(*types.Named)
		if !ok || n.Obj().Pkg() != t.Obj().Pkg() || n == t {
			continue
		}
		if _, isStruct := n.Underlying().(*types.Struct); isStruct {
			out[n.Obj()] = true
		}
	}
	return out
}

// Analyze runs the per-method dataflow for all methods of t (iterating held-at-entry to a fixpoint).
func Analyze(p *core.Program, t *types.Named) *TypeLocks {
	return AnalyzeWith(p, t, nil)
}

// AnalyzeWith is Analyze with a package-level mutex variable as the guarding lock.
func AnalyzeWith(p *core.Program, t *types.Named, pkgLock types.Object) *TypeLocks {
	lpath, cond := FindLockPath(t)
	lf := ""
	if len(lpath) > 0 {
		lf = lpath[0]
	}
	tl := &TypeLocks{Type: t, LockField: lf, LockPath: lpath, CondLock: cond, Funcs: map[*types.Func]*FuncLocks{}, Written: map[string]bool{}, ElemWritten: map[string]bool{}, PkgLock: pkgLock}
	if pkgLock != nil {
		tl.LockField, tl.CondLock = "", false
	}
	if st, ok := t.Underlying().(*types.Struct); ok {
		for i := 0; i < st.NumFields(); i++ {
			tl.Fields = append(tl.Fields, st.Field(i).Name())
		}
	}
	a := &analyzer{p: p, tl: tl, nodes: nodeTypesOf(t)}
	methods := p.MethodsOf(t)
	sort.Slice(methods, func(i, j int) bool { return methods[i].Decl.Pos() < methods[j].Decl.Pos() })
	entry := map[*types.Func]bool{}
	for iter := 0; iter < 6; iter++ {
		tl.Funcs = map[*types.Func]*FuncLocks{}
		tl.Order = nil
		for _, fi := range methods {
			if fi.Decl.Body == nil {
				continue
			}
			fl := a.analyzeFunc(fi, entry[fi.Obj])
			tl.Funcs[fi.Obj] = fl
			tl.Order = append(tl.Order, fl)
		}
		// recompute held-at-entry for unexported methods: all same-receiver call sites hold the lock
		sites := map[*types.Func][]int{}
		for _, fl := range tl.Order {
			for _, c := range fl.Calls {
				sites[c.Callee] = append(sites[c.Callee], c.Held)
			}
		}
		changed := false
		for _, fl := range tl.Order {
			if fl.Exported {
				continue
			}
			hs := sites[fl.FI.Obj]
			all := len(hs) > 0
			for _, h := range hs {
				if h != Yes {
					all = false
				}
			}
			if all != entry[fl.FI.Obj] {
				entry[fl.FI.Obj] = all
				changed = true
			}
		}
		if !changed {
			break
		}
	}
	for _, fl := range tl.Order {
		for _, ac := range fl.Accesses {
			if ac.Write {
				tl.Written[ac.Field] = true
			}
			if ac.Elem {
				tl.ElemWritten[ac.Field] = true
			}
		}
	}
	return tl
}

type state struct {
	held     int
	deferred bool
	shared   bool // the lock held was taken with RLock: other readers run beside this one
}

func join(a, b state) state {
	out := a
	if a.held != b.held {
		out.held = Top
	}
	out.deferred = a.deferred || b.deferred
	out.shared = a.shared || b.shared
	return out
}

func (a *analyzer) recvObj(fi *core.FuncInfo) types.Object {
	if fi.Decl.Recv == nil || len(fi.Decl.Recv.List) == 0 || len(fi.Decl.Recv.List[0].Names) == 0 {
		return nil
	}
	return fi.Pkg.TypesInfo.Defs[fi.Decl.Recv.List[0].Names[0]]
}

// lockOp classifies a call as Lock/Unlock/RLock/RUnlock on the receiver's mutex.
func (a *analyzer) lockOp(info *types.Info, recv types.Object, call *ast.CallExpr) string {
	sel, ok := call.Fun.(*ast.SelectorExpr)
	if !ok {
		return ""
	}
	op := sel.Sel.Name
	if op != "Lock" && op != "Unlock" && op != "RLock" && op != "RUnlock" {
		return ""
	}
	x := ast.Unparen(sel.X)
	if a.tl.PkgLock != nil {
		id, ok := x.(*ast.Ident)
		if ok && info.ObjectOf(id) == a.tl.PkgLock {
			return op
		}
		return ""
	}
	if a.tl.CondLock {
		// recv.f.L.Lock()
		l, ok := x.(*ast.SelectorExpr)
		if !ok || l.Sel.Name != "L" {
			return ""
		}
		x = ast.Unparen(l.X)
	}
	path := a.tl.LockPath
	if len(path) == 0 {
		path = []string{a.tl.LockField}
	}
	for i := len(path) - 1; i >= 0; i-- {
		f, ok := x.(*ast.SelectorExpr)
		if !ok || f.Sel.Name != path[i] {
			return ""
		}
		x = ast.Unparen(f.X)
	}
	id, ok := x.(*ast.Ident)
	if !ok || info.ObjectOf(id) != recv {
		return ""
	}
	return op
}

func (a *analyzer) analyzeFunc(fi *core.FuncInfo, entryHeld bool) *FuncLocks {
	info := fi.Pkg.TypesInfo
	recv := a.recvObj(fi)
	fl := &FuncLocks{FI: fi, Name: core.FuncName(fi.Obj), Exported: fi.Obj.Exported(), EntryHeld: entryHeld}
	g := cfg.New(fi.Decl.Body, func(*ast.CallExpr) bool { return true })
	in := make([]state, len(g.Blocks))
	seen := make([]bool, len(g.Blocks))
	start := state{held: No}
	if entryHeld {
		start.held = Yes
	}
	// parents of for statements for Wait sites
	forOf := map[ast.Node]*ast.ForStmt{}
	var stack []ast.Node
	ast.Inspect(fi.Decl.Body, func(n ast.Node) bool {
		if n == nil {
			stack = stack[:len(stack)-1]
			return true
		}
		for i := len(stack) - 1; i >= 0; i-- {
			if f, ok := stack[i].(*ast.ForStmt); ok {
				forOf[n] = f
				break
			}
			if _, ok := stack[i].(*ast.FuncLit); ok {
				break
			}
		}
		stack = append(stack, n)
		return true
	})
	// locals aliasing a map-typed field of the receiver (m := this.m): a use of the local touches the
	// same map, whatever the lock state was when the alias was taken
	aliasOf := map[types.Object]string{}
	aliasDef := map[*ast.Ident]bool{}
	ast.Inspect(fi.Decl.Body, func(n ast.Node) bool {
		as, ok := n.(*ast.AssignStmt)
		if !ok || len(as.Lhs) != len(as.Rhs) {
			return true
		}
		for i, l := range as.Lhs {
			id, ok := l.(*ast.Ident)
			if !ok || id.Name == "_" {
				continue
			}
			sel, ok := ast.Unparen(as.Rhs[i]).(*ast.SelectorExpr)
			if !ok {
				continue
			}
			if rid, ok := ast.Unparen(sel.X).(*ast.Ident); !ok || info.ObjectOf(rid) != recv || recv == nil {
				continue
			}
			fv, ok := info.Uses[sel.Sel].(*types.Var)
			if !ok || !fv.IsField() {
				continue
			}
			if _, isMap := fv.Type().Underlying().(*types.Map); !isMap {
				continue
			}
			if o := info.ObjectOf(id); o != nil {
				aliasOf[o] = fv.Name()
				aliasDef[id] = true
			}
		}
		return true
	})
	type rec struct {
		accesses []Access
		calls    []CallSite
		peers    []CallSite
		waits    []WaitSite
		fcalls   []FieldCall
		locks    []token.Pos
		problems []string
		enums    []EnumCtor
	}
	recs := make([]rec, len(g.Blocks))
	transfer := func(b *cfg.Block, st state) (state, rec) {
		var r rec
		for _, n := range b.Nodes {
			// deferred unlocks
			if d, ok := n.(*ast.DeferStmt); ok {
				if op := a.lockOp(info, recv, d.Call); op == "Unlock" || op == "RUnlock" {
					st.deferred = true
					continue
				}
				if lit, ok := d.Call.Fun.(*ast.FuncLit); ok {
					ast.Inspect(lit.Body, func(m ast.Node) bool {
						if c, ok := m.(*ast.CallExpr); ok {
							if op := a.lockOp(info, recv, c); op == "Unlock" || op == "RUnlock" {
								st.deferred = true
							}
						}
						return true
					})
				}
				continue
			}
			writes := map[*ast.SelectorExpr]bool{}
			elemWrites := map[*ast.SelectorExpr]bool{}
			markWrite := func(e ast.Expr) {
				elem := false
				for {
					switch v := ast.Unparen(e).(type) {
					case *ast.SelectorExpr:
						writes[v] = true
						if elem {
							elemWrites[v] = true
						}
						e = v.X
						continue
					case *ast.IndexExpr:
						elem = true
						e = v.X
						continue
					case *ast.StarExpr:
						e = v.X
						continue
					}
					return
				}
			}
			// &x.f handed to a helper (removeEnd(&o.first)) takes the field's address, it does not read the
			// field: the access happens where the pointer is dereferenced
			addrOnly := map[*ast.SelectorExpr]bool{}
			ast.Inspect(n, func(m ast.Node) bool {
				if u, ok := m.(*ast.UnaryExpr); ok && u.Op == token.AND {
					if sel, ok := ast.Unparen(u.X).(*ast.SelectorExpr); ok {
						addrOnly[sel] = true
					}
				}
				return true
			})
			ast.Inspect(n, func(m ast.Node) bool {
				switch v := m.(type) {
				case *ast.AssignStmt:
					for _, l := range v.Lhs {
						markWrite(l)
					}
				case *ast.IncDecStmt:
					markWrite(v.X)
				case *ast.CallExpr:
					if id, ok := v.Fun.(*ast.Ident); ok && (id.Name == "delete" || id.Name == "clear") && len(v.Args) > 0 {
						markWrite(&ast.IndexExpr{X: v.Args[0]})
					}
				case *ast.FuncLit:
					return false
				}
				return true
			})
			ast.Inspect(n, func(m ast.Node) bool {
				switch v := m.(type) {
				case *ast.FuncLit:
					return false
				case *ast.CallExpr:
					if op := a.lockOp(info, recv, v); op != "" {
						switch op {
						case "Lock", "RLock":
							if st.held == Yes {
								r.problems = append(r.problems, fmt.Sprintf("%s: Lock() while the same mutex is already held on this path (self-deadlock)", a.p.Pos(v.Pos())))
							}
							st.held = Yes
							st.shared = op == "RLock"
							r.locks = append(r.locks, v.Pos())
						case "Unlock", "RUnlock":
							if st.held == No {
								r.problems = append(r.problems, fmt.Sprintf("%s: Unlock() of a mutex not held on this path", a.p.Pos(v.Pos())))
							}
							st.held = No
							st.shared = false
						}
						return false
					}
					if sel, ok := v.Fun.(*ast.SelectorExpr); ok {
						// cond.Wait()
						if sel.Sel.Name == "Wait" {
							if tv, ok := info.Types[sel.X]; ok && strings.HasSuffix(tv.Type.String(), "sync.Cond") {
								ws := WaitSite{Pos: v.Pos(), Held: st.held}
								if f := forOf[v]; f != nil {
									ws.InFor = true
									if f.Cond != nil {
										ws.ForCond = types.ExprString(f.Cond)
									} else if c := condExit(f); c != nil {
										// for { if ready { break }; Wait() }: the loop leaves only through a test
										ws.ForCond = "!(" + types.ExprString(c) + ")"
									}
								}
								r.waits = append(r.waits, ws)
							}
						}
						// a method of one of the collection's nodes (x.ToString()): it touches the node's
						// fields on the caller's behalf
						if fn, ok := info.Uses[sel.Sel].(*types.Func); ok && len(a.nodes) > 0 {
							if tv, ok := info.Types[sel.X]; ok {
								xt := tv.Type
								if pt, ok := xt.(*types.Pointer); ok {
									xt = pt.Elem()
								}
								if n, ok := xt.(*types.Named); ok && a.nodes[n.Obj()] {
									if mfi := a.p.FuncOf(fn); mfi != nil && mfi.Decl.Body != nil && mfi.Decl.Recv != nil && len(mfi.Decl.Recv.List) > 0 && len(mfi.Decl.Recv.List[0].Names) > 0 {
										mrecv := mfi.Pkg.TypesInfo.Defs[mfi.Decl.Recv.List[0].Names[0]]
										touched := map[string]bool{}
										ast.Inspect(mfi.Decl.Body, func(k ast.Node) bool {
											if ms, ok := k.(*ast.SelectorExpr); ok {
												if mid, ok := ast.Unparen(ms.X).(*ast.Ident); ok && mfi.Pkg.TypesInfo.ObjectOf(mid) == mrecv {
													if fv, ok := mfi.Pkg.TypesInfo.Uses[ms.Sel].(*types.Var); ok && fv.IsField() {
														touched[fv.Name()] = true
													}
												}
											}
											return true
										})
										for f := range touched {
											r.accesses = append(r.accesses, Access{Field: "node:" + n.Obj().Name() + "." + f, Held: st.held, Pos: v.Pos(), Node: true, NodeCall: true})
										}
									}
								}
							}
						}
						// same-receiver method call
						// a method of ANOTHER instance of the receiver's type (other.Entries() inside
						// this.PutAll(other)): with this instance's mutex held it deadlocks when the two are
						// the same object, and two such calls crosswise can lock each other out
						if id, ok := ast.Unparen(sel.X).(*ast.Ident); ok && info.ObjectOf(id) != recv && recv != nil {
							if o := info.ObjectOf(id); o != nil && types.Identical(o.Type(), recv.Type()) {
								if fn, ok := info.Uses[sel.Sel].(*types.Func); ok {
									r.peers = append(r.peers, CallSite{Callee: fn, Held: st.held, Pos: v.Pos(), Peer: id.Name})
								}
							}
						}
						if id, ok := ast.Unparen(sel.X).(*ast.Ident); ok && info.ObjectOf(id) == recv {
							if fn, ok := info.Uses[sel.Sel].(*types.Func); ok {
								r.calls = append(r.calls, CallSite{Callee: fn, Held: st.held, Pos: v.Pos(), Shared: st.shared && st.held == Yes})
							} else if fv, ok := info.Uses[sel.Sel].(*types.Var); ok && fv.IsField() {
								if _, isFn := fv.Type().Underlying().(*types.Signature); isFn {
									r.fcalls = append(r.fcalls, FieldCall{Field: fv.Name(), Held: st.held, Pos: v.Pos()})
								}
							}
						}
					}
				case *ast.SelectorExpr:
					if id, ok := ast.Unparen(v.X).(*ast.Ident); ok && info.ObjectOf(id) == recv {
						if fv, ok := info.Uses[v.Sel].(*types.Var); ok && fv.IsField() && fv.Name() != a.tl.LockField && !addrOnly[v] {
							r.accesses = append(r.accesses, Access{Field: fv.Name(), Write: writes[v], Held: st.held, Pos: v.Pos(), Elem: elemWrites[v], Shared: st.shared && st.held == Yes})
						}
					} else if fv, ok := info.Uses[v.Sel].(*types.Var); ok && fv.IsField() && len(a.nodes) > 0 {
						// a field of one of the collection's nodes (x.Value, e.next): the nodes are shared
						// state of the collection just like its own fields
						if tv, ok := info.Types[v.X]; ok {
							xt := tv.Type
							if pt, ok := xt.(*types.Pointer); ok {
								xt = pt.Elem()
							}
							if n, ok := xt.(*types.Named); ok && a.nodes[n.Obj()] {
								r.accesses = append(r.accesses, Access{Field: "node:" + n.Obj().Name() + "." + fv.Name(), Write: writes[v], Held: st.held, Pos: v.Pos(), Node: true, Shared: st.shared && st.held == Yes})
							}
						}
					}
				case *ast.Ident:
					if f, ok := aliasOf[info.ObjectOf(v)]; ok && !aliasDef[v] {
						r.accesses = append(r.accesses, Access{Field: f, Held: st.held, Pos: v.Pos(), Alias: true})
					}
				}
				return true
			})
		}
		return st, r
	}
	// worklist
	work := []*cfg.Block{}
	if len(g.Blocks) > 0 {
		in[0] = start
		seen[0] = true
		work = append(work, g.Blocks[0])
	}
	outs := make([]state, len(g.Blocks))
	for len(work) > 0 {
		b := work[len(work)-1]
		work = work[:len(work)-1]
		st, r := transfer(b, in[b.Index])
		recs[b.Index] = r
		outs[b.Index] = st
		for _, s := range b.Succs {
			ns := st
			if seen[s.Index] {
				ns = join(in[s.Index], st)
				if ns == in[s.Index] {
					continue
				}
			}
			in[s.Index] = ns
			seen[s.Index] = true
			work = append(work, s)
		}
	}
	probs := map[string]bool{}
	for _, b := range g.Blocks {
		if !seen[b.Index] || !b.Live {
			continue
		}
		r := recs[b.Index]
		fl.Accesses = append(fl.Accesses, r.accesses...)
		fl.Calls = append(fl.Calls, r.calls...)
		fl.PeerCalls = append(fl.PeerCalls, r.peers...)
		fl.Waits = append(fl.Waits, r.waits...)
		fl.FuncCalls = append(fl.FuncCalls, r.fcalls...)
		fl.LockSites = append(fl.LockSites, r.locks...)
		for _, pr := range r.problems {
			probs[pr] = true
		}
		if len(b.Succs) == 0 {
			st := outs[b.Index]
			// exit block: lock must be released (or release deferred); panicking exits are exempt only with defer
			if st.held == Yes && !st.deferred && !entryHeld {
				probs[fmt.Sprintf("%s: function can return with the mutex still held", exitPos(a.p, b, fi))] = true
			}
			if st.held == Top && !st.deferred {
				probs[fmt.Sprintf("%s: lock state differs between paths reaching this exit", exitPos(a.p, b, fi))] = true
			}
		}
	}
	for pr := range probs {
		fl.Unpaired = append(fl.Unpaired, pr)
	}
	sort.Strings(fl.Unpaired)
	sort.Slice(fl.Accesses, func(i, j int) bool { return fl.Accesses[i].Pos < fl.Accesses[j].Pos })
	sort.Slice(fl.Calls, func(i, j int) bool { return fl.Calls[i].Pos < fl.Calls[j].Pos })
	return fl
}

func exitPos(p *core.Program, b *cfg.Block, fi *core.FuncInfo) string {
	if len(b.Nodes) > 0 {
		return p.Pos(b.Nodes[len(b.Nodes)-1].Pos())
	}
	return p.Pos(fi.Decl.End())
}

// MayLock: methods that can reach a Lock() of the receiver's mutex through same-receiver calls while
// not already holding it (i.e. calling them with the lock held deadlocks). Returns for each such
// method a witness path.
func (tl *TypeLocks) MayLock() map[*types.Func][]string {
	out := map[*types.Func][]string{}
	for _, fl := range tl.Order {
		if len(fl.LockSites) > 0 && !fl.EntryHeld {
			out[fl.FI.Obj] = []string{fl.Name}
		}
	}
	for changed := true; changed; {
		changed = false
		for _, fl := range tl.Order {
			if _, ok := out[fl.FI.Obj]; ok {
				continue
			}
			for _, c := range fl.Calls {
				if path, ok := out[c.Callee]; ok && c.Held != Yes {
					out[fl.FI.Obj] = append([]string{fl.Name}, path...)
					changed = true
					break
				}
			}
		}
	}
	return out
}

// ShortName trims the package path from a FuncName.
func ShortName(n string) string {
	if i := strings.LastIndex(n, "/"); i >= 0 {
		return n[i+1:]
	}
	return n
}

// condExit: for a `for { ... }` without a header condition, the condition of the conditional exit
// (if c { break | return }) at the top level of its body, provided the body has no unconditional
// exit at its top level. nil when the loop has no such single tested way out.
func condExit(f *ast.ForStmt) ast.Expr {
	var cond ast.Expr
	for _, st := range f.Body.List {
		switch v := st.(type) {
		case *ast.IfStmt:
			if v.Else != nil || len(v.Body.List) == 0 {
				continue
			}
			switch l := v.Body.List[len(v.Body.List)-1].(type) {
			case *ast.BranchStmt:
				if l.Tok == token.BREAK && l.Label == nil && cond == nil {
					cond = v.Cond
				}
			case *ast.ReturnStmt:
				if cond == nil {
					cond = v.Cond
				}
			}
		case *ast.BranchStmt:
			if v.Tok == token.BREAK || v.Tok == token.GOTO {
				return nil
			}
		case *ast.ReturnStmt:
			return nil
		}
	}
	return cond
}
