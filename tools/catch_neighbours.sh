#!/bin/bash
# usage: tools/catch_neighbours.sh <seeded-dir> <out.tsv> [ids...]
# Like catch_matrix.sh, but each change is run against the checks of the properties whose anchored
# packages contain a file the change touches (a check reads only its anchored packages, so the other
# checks cannot change their verdict). ~8 minutes for the whole seeded set instead of ~3 hours.
export GOFLAGS=-mod=mod GOPROXY=off GOSUMDB=off GOTOOLCHAIN=local
unset GOWORK
src=$1; out=$2; shift 2
ids="$@"; [ -z "$ids" ] && ids=$(ls "$src" | grep '^C[0-9][0-9]-')
props_of() {
  python3 - "$1" <<'PY'
import re,sys
M=[('io/',"C01 C04 C05 C06"),('lang/value/',"C02 C20 C04 C03"),('lang/pack/udp/',"C07"),('lang/pack/',"C03 C04 C05 C16 C13 C08"),
('lang/step/',"C08 C04"),('lang/service/',"C08 C04"),('net/',"C05 C06"),('util/hmap/',"C02 C09 C10 C12 C17"),('util/list/',"C10 C11 C13"),
('util/queue/',"C06 C10 C11 C16"),('util/hll/',"C14"),('util/hash/',"C15 C05 C03"),('util/hexa32/',"C15"),('util/bitutil/',"C15"),('util/iputil/',"C15"),
('util/compressutil/',"C16 C03"),('logsink/',"C16"),('logger/',"C17"),('config/',"C18"),('util/dateutil/',"C17 C19"),('util/stringutil/',"C07 C15"),('util/paramtext/',"C07"),('util/compare/',"C20")]
ps=set()
for l in open(sys.argv[1]):
    m=re.match(r'\+\+\+ b/(.*)',l)
    if m:
        f=m.group(1)
        for pre,pp in M:
            if f.startswith(pre):
                ps.update(pp.split()); break
print(' '.join(sorted(ps)))
PY
}
export -f props_of
one() {
  id=$1; src=$2
  d=$src/$id
  patch=$d/patch.diff
  own=${id%%-*}
  props="$(props_of $patch) $own"
  props=$(echo $props | tr ' ' '\n' | sort -u | tr '\n' ' ')
  wt=$(mktemp -d /tmp/cn.XXXXXX)
  git -C /repo worktree add -q --detach "$wt" HEAD || { echo "$id	ERROR	worktree"; return; }
  if ! git -C "$wt" apply "$patch" 2>/dev/null; then echo "$id	ERROR	patch does not apply"; git -C /repo worktree remove --force "$wt"; rm -rf "$wt"; return; fi
  ev=$(mktemp -d /tmp/cnev.XXXXXX)
  echo "$id	RAN	$props"
  for p in $props; do
    o=$(GOLIBCHECK_EVIDENCE_DIR=$ev ${GOLIBCHECK_BIN:-/verif/bin/golibcheck} -prop $p -repo "$wt" 2>&1)
    rc=$?
    rules=$(echo "$o" | grep -o "^  \(VIOLATION\|UNDECIDED\) rule=[A-Za-z0-9.-]*" | sed 's/^  //; s/ rule=/:/' | sort | uniq -c | awk '{printf "%s(x%s) ", $2, $1}')
    [ $rc -ne 0 ] && echo "$id	$p	exit=$rc	$rules"
    echo "$o" | grep -q "CHECKER-ERROR" && echo "$id	$p	CHECKER-ERROR	$(echo "$o" | grep CHECKER-ERROR | head -1 | cut -c1-200)"
  done
  git -C /repo worktree remove --force "$wt" 2>/dev/null; rm -rf "$wt" "$ev"
}
export -f one
echo $ids | tr ' ' '\n' | xargs -P ${CM_PAR:-12} -I{} bash -c "one {} $src" > "$out.part"
sort "$out.part" > "$out"; rm -f "$out.part"
