#!/bin/bash
# usage: tools/try.sh <seeded-id> [prop...] : apply one seeded change in a scratch worktree under /tmp, run the
# check(s) (default: the change's own property) with -repo, print the failing obligations, remove the worktree.
id=$1; shift
props="$@"; [ -z "$props" ] && props=${id%%-*}
wt=$(mktemp -d /tmp/try.XXXXXX); ev=$(mktemp -d /tmp/tryev.XXXXXX)
git -C /repo worktree add -q --detach "$wt" HEAD || exit 2
git -C "$wt" apply /verif/seeded/$id/patch.diff || echo "PATCH-CONFLICT"
for p in $props; do GOLIBCHECK_EVIDENCE_DIR=$ev ${GOLIBCHECK_BIN:-/verif/bin/golibcheck} -prop $p -repo "$wt" 2>&1 | grep "^  VIOLATION\|^  UNDECIDED\|CHECKER\|^property" | cut -c1-${CUT:-1500}; done
git -C /repo worktree remove --force "$wt"; rm -rf "$wt" "$ev"
