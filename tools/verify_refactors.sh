#!/bin/bash
# usage: tools/verify_refactors.sh <srcdir> [ids...] : behaviour-preserving refactors (<id> = Cxx-rN):
# patch applies to /repo HEAD, builds, and the pinned suite passes with it (scratch worktree, removed afterwards).
export GOFLAGS=-mod=mod GOPROXY=off GOSUMDB=off GOTOOLCHAIN=local
unset GOWORK
src=$1; shift
ids="$@"; [ -z "$ids" ] && ids=$(ls "$src" | grep -- '-r[0-9]*$')
wt=$(mktemp -d /tmp/vref.XXXXXX)
git -C /repo worktree add -q --detach "$wt" HEAD || exit 2
trap 'git -C /repo worktree remove --force "$wt" 2>/dev/null; rm -rf "$wt"' EXIT
cd "$wt" || exit 2
for id in $ids; do
  git reset -q --hard HEAD; git clean -fdq
  if git apply "$src/$id/patch.diff" 2>/dev/null; then apply=ok; else echo "$id apply=CONFLICT"; continue; fi
  if go build ./... >/dev/null 2>&1 && go test -vet=off -count=1 -run '^$' ./... >/dev/null 2>&1; then build=ok; else build=FAIL; fi
  fails=$(go test -vet=off -count=1 -timeout 25m ./... 2>&1 | grep "^--- FAIL" | grep -v "TestMultiConnect\|TestSingleConnect" | tr '\n' ' ')
  if [ -z "$fails" ]; then suite=pass; else suite="FAIL($fails)"; fi
  echo "$id apply=$apply build=$build suite=$suite"
done
