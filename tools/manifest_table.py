# property table for gen_manifest.py: claim(id, technique, level text, level note, design ref) / na(id, reason)
WIRE = "static wire-grammar extraction (go/types AST) + writer/reader lock-step agreement over all joint paths; registry/table rules"

claim("C03", WIRE,
      "Decides, for every writer/reader pair of lang/pack (registered packs, SM packs, records, both header forms), that on every joint path the reader consumes exactly the primitives the writer emits (kind, order, counts, nested blobs), that each written field is stored into the same field (no swap/drop/conditional omission of a non-default value), that CreatePack and GetPackType agree, containers stamp identity, zip status is set/tested consistently and err polarity is right. Necessary conditions of the round-trip property, exhaustive over branch outcomes; value equality itself is not executed.",
      "Trusts go/types, the io primitive widths (proved in C01) and the codec pairs consumed at call sites (each is its own obligation). Lossy numeric conversions, gzip and byte-identity of re-encoding are not decided.",
      "DESIGN.md §3 C03")

claim("C02", WIRE,
      "Decides that CreateValue's tag table and every type's GetValueType() agree (unknown tag panics), that Write~Read of all 20 value types agree on the layout on every joint path (containers = count-prefixed repetitions of tagged values, closed co-inductively through WriteValue~ReadValue), that field labels and counts correspond, and that map/list containers are rebuilt in written order. Necessary conditions of the round trip, for every shape; content equality is not executed.",
      "Trusts go/types; primitive byte layouts are C01's obligations; behaviour of the backing linked maps is C09's.",
      "DESIGN.md §3 C02")
claim("C07", WIRE + "; interval splitting of the version variable at every gate constant; field-coverage of Clear(); must-pass masking rule",
      "Decides writer/reader layout and field agreement of all UDP pack types for EVERY protocol version (the version interval is split at each gate constant on either side, so all guard truth assignments are enumerated), the CreatePack/ClosePack/GetPackType/pool table, that Clear() resets every field of every pooled type, that Process() masks the password key for both separators on the Go and PHP branches on every path with a non-empty connection string, and that text-carried integers use matching format/parse helpers.",
      "Trusts go/types and sync.Pool; what ParamKV does to a given string is not analysed (only that both masking passes are applied and their result stored).",
      "DESIGN.md §3 C07")
claim("C08", WIRE,
      "Decides registry agreement for steps and services, Write~Read layout/field/count agreement of every step, service and transaction-record codec on every joint path (every version switch; every optional section must be announced by a flag the reader branches on, and a presence condition must imply the omitted field is default), self-delimitation (no read-until-end on the shared stream), and that TxRecord.Read alters decoded fields only by the sanctioned error-level defaulting.",
      "Trusts go/types; primitive layouts (C01) and the value codec (C02) are separate obligations.",
      "DESIGN.md §3 C08")

claim("C01", "bit-provenance abstract interpretation (GF(2)-affine bit vectors) of the byte packers + constant/table rules + wire-grammar agreement of the helper pairs",
      "Decides, for all 2^64 values at once, that every packer/unpacker of package io is exactly the big-endian two's-complement layout of its width (byte-reversed for the Little helpers, IEEE bit patterns via Float32bits/Float64bits), that each stream method uses the packer of its own width, that WriteDecimal selects the seven nested length classes in ascending order and emits tag k + k big-endian bytes while both decimal readers map tag k to the k-byte signed reader, that blob thresholds/markers agree, that helper pairs agree, that every append is counted in Size() and that the reader's buffer is reached only through ReadBytes. These are exact equalities between computed and specification vectors / tables, not samples.",
      "Trusts Go's integer conversion semantics as modelled by the interpreter, math.Float*bits as bit identities and bytes.Buffer. Mixed-operation programs are covered compositionally (per-operation exactness + counter + choke point), not enumerated.",
      "DESIGN.md §3 C01")

claim("C05", "reference decoders written from the protocol layout, analysed as an in-memory overlay and compared with the real writers by the lock-step wire-grammar walk; structural frame rule; bit-level CRC step + regenerated table",
      "Decides that the common header and the bodies of the tag-count, log-sink, text, parameter, event, zip, hit-map and counter packs, as emitted by the real writers, are exactly the layout of an independent hand-written reference decoder on every joint path (order, widths, version bytes, flags, counts, nested blob, field labels); that makeData emits Short(type)+body and prepends the header (10, 0, pack pcode, Hash64Str of the per-send license if non-empty else the client's) from a fresh option struct; that WriteHeader lays out Byte Byte Long Long IntBytes(prev); and that Hash64 is bit-for-bit the table-driven CRC variant over the regenerated IEEE table. A change made consistently to the Go writer and the Go reader passes C03 but fails here.",
      "The reference is frozen from the reviewed writers and Java field comments (it cannot be validated against a real collector here). CounterPack1's meter sub-sections (except caller-POID) are delegated to the library's own readers. Byte equality for concrete values follows from layout + C01 and is not executed.",
      "DESIGN.md §3 C05")

claim("C10", "lock-region dataflow on go/cfg per method, held-at-entry fixpoint for helpers, same-receiver re-entry search, guarded-by table inferred from writers",
      "Decides, for every method of every mutex-carrying collection in util/hmap, util/list and util/queue: no path calls, with the instance mutex held, a same-receiver method that can acquire it (self-deadlock freedom for every public method, exact for same-receiver calls since sync.Mutex is not re-entrant); every Lock is released on every path; the point operations touch the structure's mutable fields only under the mutex; lock-requiring helpers are never called without it; point operations use one critical section; Cond.Wait is in a re-testing for-loop under the mutex. Necessary conditions of race/deadlock freedom; linearizability itself is not decided.",
      "Receivers are assumed not aliased within a method; callbacks are assumed not to re-enter the queue; races on stored interface values and across two instances (m.PutAll(m)) are out of scope. Unsynchronised Size()/GetFirst/GetLast are genuine data races recorded as known findings.",
      "DESIGN.md §3 C10")

claim("C09", "bounded path enumeration over the AST (events abstracted from statements, mode switches folded, loops 0/1) + predicates over all paths; sibling types checked by one rule table",
      "Decides the structural invariants of the ported algorithm uniformly over the 13 linked collections and every PUT_MODE: new-key paths insert once in front of the current bucket head, link once at the mode's end and count once; with a maximum they evict from the opposite end in a count>=max loop before inserting and never on an update; growth is tested before inserting and table/index are recomputed after rehash; updates never change size; removal unlinks once; rehash re-buckets every old bucket with the lookup hash (or the hash cached from it at insertion); whole-table walks cover 0..len-1; enumerators carry the discriminator that their NextElement tests; Sort re-inserts at the tail; bucket indices are non-negative. Each is a necessary condition whose violation changes observable behaviour.",
      "Equivalence with a reference dictionary over histories is NOT decided; chain/unchain surgery is checked only through its call shape; comparators passed to Sort are the caller's.",
      "DESIGN.md §3 C09")
claim("C11", "bounded path enumeration over the AST (events abstracted from statements, mode switches folded, loops 0/1) + predicates over all paths; sibling types checked by one rule table",
      "Decides for both request queues, over every path of every method: put adds only with room and otherwise refuses (callback nil-guarded, false, content unchanged); forced put evicts the oldest in a loop while size>=capacity, hands each evicted element to the nil-guarded overflow callback, then adds; every add is followed by a wake-up; blocking get waits in a loop on emptiness and removes the head afterwards; get-no-wait never waits; tail insertion / head removal only; the double queue serves queue 1 first; timed get gives up only when deadline-now <= 0.",
      "Exactly-once delivery under concurrency, absence of lost wake-ups as a liveness fact and timing accuracy are not decided; the mutex discipline is C10's, the list shapes C13's.",
      "DESIGN.md §3 C11")
claim("C12", "bounded path enumeration over the AST (events abstracted from statements, mode switches folded, loops 0/1) + predicates over all paths; sibling types checked by one rule table; wire-grammar agreement for the serialised form",
      "Decides for IntIntMap, IntKeyMap, IntSet and StringSet the same structural invariants as C09 without the order list (insert/update/growth/remove/rehash/walk coverage/non-negative bucket index), that table enumerators start at len(table) and advance with decrement-before-use down to bucket 0, and that IntIntMap.ToBytes~ToObject agree on the layout.",
      "Equivalence with the mathematical map/set over histories is not decided.",
      "DESIGN.md §3 C12")

for pid in ["C04","C06","C13","C14","C15","C16","C17","C18","C19","C20"]:
    na(pid, "checker not built yet in this round (planned static clauses in DESIGN.md §3); not claimed until the rule is armed and tested")
