# property table for gen_manifest.py: claim(id, technique, level text, level note, design ref) / na(id, reason)
WIRE = "static wire-grammar extraction (go/types AST) + writer/reader lock-step agreement over all joint paths; registry/table rules"

claim("C03", WIRE,
      "Decides, for every writer/reader pair of lang/pack (registered packs, SM packs, records, both header forms), that on every joint path the reader consumes exactly the primitives the writer emits (kind, order, counts, nested blobs), that each written field is stored into the same field (no swap/drop/conditional omission of a non-default value), that CreatePack and GetPackType agree, containers stamp identity, zip status is set/tested consistently and err polarity is right. Necessary conditions of the round-trip property, exhaustive over branch outcomes; value equality itself is not executed.",
      "Trusts go/types, the io primitive widths (proved in C01) and the codec pairs consumed at call sites (each is its own obligation). Lossy numeric conversions, gzip and byte-identity of re-encoding are not decided.",
      "DESIGN.md §3 C03")

for pid in ["C01","C02","C04","C05","C06","C07","C08","C09","C10","C11","C12","C13","C14","C15","C16","C17","C18","C19","C20"]:
    na(pid, "checker not built yet in this round (planned static clauses in DESIGN.md §3); not claimed until the rule is armed and tested")
