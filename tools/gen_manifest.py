#!/usr/bin/env python3
"""Generates /verif/MANIFEST.json from the table below (development helper; not run by any check)."""
import json, subprocess, sys

BASE_OFF = ("cd /repo && export GOFLAGS=-mod=mod GOPROXY=off GOSUMDB=off GOTOOLCHAIN=local && "
            "go test -json -vet=off -count=1 -timeout 25m ./...")

# id -> (technique, level text, level note, design ref)
CLAIMED = {}
NA = {}

def claim(pid, technique, text, note, ref):
    CLAIMED[pid] = (technique, text, note, ref)

def na(pid, reason):
    NA[pid] = reason

exec(open('/verif/tools/manifest_table.py').read())

checks = []
for pid in sorted(CLAIMED):
    technique, text, note, ref = CLAIMED[pid]
    checks.append({
        "property_id": pid,
        "quick_cmd": f"bin/golibcheck -prop {pid} -tier quick",
        "thorough_cmd": f"bin/golibcheck -prop {pid} -tier thorough",
        "evidence_file": f"/verif/evidence/{pid}.json",
        "replay_cmd_template": "bin/golibcheck -explain {path}",
        "engine": "golibcheck",
        "level_claimed": {"category": "other", "text": text, "design_ref": ref},
        "level_note": note,
        "technique": technique,
    })

m = {
    "version": 1,
    "setup_cmd": "cd /verif/checker && GOFLAGS=-mod=mod GOPROXY=off GOSUMDB=off GOTOOLCHAIN=local GOWORK=off go build -o ../bin/golibcheck ./cmd/golibcheck",
    "hooks": {
        "guard": "verif",
        "enable": "no hooks: the checks analyse /repo's source (go/packages, go/types) and never build or run it; build tag 'verif' is reserved and unused",
        "baseline_off_cmd": BASE_OFF,
        "source_commits": [],
        "add_only": True,
    },
    "engines": [
        {"name": "golibcheck", "path": "/verif/checker", "serves_properties": sorted(CLAIMED),
         "kind_free_text": "repository-specific static analyser (go/packages + go/types + go/ast; go/cfg and go/ssa for path/value rules): wire-grammar extraction and writer/reader lock-step agreement, registry tables, lock regions and re-entry, path pairing rules, bit-provenance abstract interpretation, finite-domain evaluation of comparators. Nothing in /repo is executed."}
    ],
    "checks": checks,
    "not_applicable": [{"property_id": k, "reason": v} for k, v in sorted(NA.items())],
    "notes": "All claimed checks are static analyses of /repo's current working tree at level 'other': each decides named structural clauses that are necessary conditions of the property (listed in DESIGN.md §3 and in each evidence file's coverage.rules / not_decided). Genuine defects found are either repaired by 'fix:' commits in /repo or listed in /verif/known_findings.json (matched on property+rule+construct). Exit 2 + CHECKER-ERROR = machinery failure (tree does not type-check, canary not firing).",
}
json.dump(m, open('/verif/MANIFEST.json', 'w'), indent=1)
print("claimed", sorted(CLAIMED), "na", sorted(NA))
