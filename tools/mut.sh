#!/bin/bash
# usage: tools/mut.sh <patch> <prop>... : apply a seeded patch to /repo (3-way if needed), run checks, restore.
p=$1; shift
cd /repo || exit 2
if ! git apply "$p" 2>/dev/null; then
  if ! git apply --3way "$p" >/dev/null 2>&1; then echo "PATCH-CONFLICT $p"; git checkout -q -- . 2>/dev/null; git reset -q --hard HEAD; exit 3; fi
fi
export GOLIBCHECK_EVIDENCE_DIR=$(mktemp -d /tmp/mutev.XXXXXX)
for pr in "$@"; do /verif/bin/golibcheck -prop $pr 2>&1 | grep "VIOLATION rule\|UNDECIDED\|CHECKER" | cut -c1-1200; done
rm -rf "$GOLIBCHECK_EVIDENCE_DIR"
git reset -q --hard HEAD; git clean -fdq -e logger/logfile/logs
