#!/bin/bash
# usage: tools/catch_matrix.sh <seeded-dir> <out.tsv> [ids...]
# For every seeded change: scratch worktree of /repo HEAD under /tmp (removed afterwards), apply the patch,
# run all 20 quick checks against that worktree (-repo), record which rules fire. Evidence of these runs goes
# to a scratch directory, never to /verif/evidence. Up to 4 changes in parallel, one process per check.
export GOFLAGS=-mod=mod GOPROXY=off GOSUMDB=off GOTOOLCHAIN=local
unset GOWORK
src=$1; out=$2; shift 2
ids="$@"; [ -z "$ids" ] && ids=$(ls "$src" | grep '^C[0-9][0-9]-')
one() {
  id=$1; src=$2
  d=$src/$id
  patch=$d/patch.diff; [ -f $d/patch.ported.diff ] && patch=$d/patch.ported.diff
  wt=$(mktemp -d /tmp/cm.XXXXXX)
  git -C /repo worktree add -q --detach "$wt" HEAD || { echo "$id	ERROR	worktree"; return; }
  if ! git -C "$wt" apply "$patch" 2>/dev/null; then echo "$id	ERROR	patch does not apply"; git -C /repo worktree remove --force "$wt"; rm -rf "$wt"; return; fi
  ev=$(mktemp -d /tmp/cmev.XXXXXX)
  for p in $(seq -f "C%02g" 1 20); do
    o=$(GOLIBCHECK_EVIDENCE_DIR=$ev ${GOLIBCHECK_BIN:-/verif/bin/golibcheck} -prop $p -repo "$wt" 2>&1)
    rc=$?
    rules=$(echo "$o" | grep -o "^  \(VIOLATION\|UNDECIDED\) rule=[A-Za-z0-9.-]*" | sed 's/^  //; s/ rule=/:/' | sort | uniq -c | awk '{printf "%s(x%s) ", $2, $1}')
    [ $rc -ne 0 ] && echo "$id	$p	exit=$rc	$rules"
    echo "$o" | grep -q "CHECKER-ERROR" && echo "$id	$p	CHECKER-ERROR	$(echo "$o" | grep CHECKER-ERROR | head -1 | cut -c1-200)"
  done
  git -C /repo worktree remove --force "$wt" 2>/dev/null; rm -rf "$wt" "$ev"
}
export -f one
echo $ids | tr ' ' '\n' | xargs -P ${CM_PAR:-8} -I{} bash -c "one {} $src" | sort > "$out"
cat "$out"
