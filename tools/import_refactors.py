#!/usr/bin/env python3
"""usage: tools/import_refactors.py <srcdir> <verify_refactors.log>: copy confirmed behaviour-preserving refactors into /verif/seeded/<id>/"""
import json, os, re, shutil, subprocess, sys
src, log = sys.argv[1], sys.argv[2]
head = subprocess.check_output(['git','-C','/repo','rev-parse','--short','HEAD']).decode().strip()
ok = {}
for l in open(log):
    m = re.match(r'(\S+) apply=(\S+) build=(\S+) suite=(\S+)', l)
    if m: ok[m.group(1)] = m.groups()[1:] == ('ok','ok','pass')
for d in sorted(os.listdir(src)):
    if '-r' not in d: continue
    if not ok.get(d):
        print('SKIP', d); continue
    out = f'/verif/seeded/{d}'
    os.makedirs(out, exist_ok=True)
    shutil.copy(f'{src}/{d}/patch.diff', f'{out}/patch.diff')
    m = json.load(open(f'{src}/{d}/meta.json'))
    m['kind'] = 'refactor'
    m['expectation'] = 'behaviour-preserving: every check must exit 0 with this patch applied'
    m['confirmed_here'] = {'against_repo_head': head, 'how': 'tools/verify_refactors.sh in a scratch worktree under /tmp (removed afterwards); diff read by hand',
                           'patch_applies': True, 'builds': True, 'pinned_suite_passes_with_change': 'yes (only the two offline-dropped net/oneway tests fail, as on the unchanged tree)'}
    json.dump(m, open(f'{out}/meta.json','w'), indent=1, ensure_ascii=False)
    print('ok', d)
