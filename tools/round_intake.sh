#!/bin/bash
# usage: tools/round_intake.sh <round-dir> <Cxx> : verify one property's seeded changes of a round
# (<round-dir>/out/Cxx-N, Cxx-rN) in scratch worktrees, import the confirmed ones into /verif/seeded at once
# (so that nothing of a round lives only under /tmp) and print the verification lines.
rd=$1; p=$2
cd /verif || exit 2
mkdir -p $rd/logs $rd/stage/$p
rm -rf $rd/stage/$p/*
for d in $rd/out/$p-[0-9]* $rd/out/$p-r[0-9]*; do [ -f $d/patch.diff ] && [ -f $d/meta.json ] && cp -r $d $rd/stage/$p/; done
bugs=$(ls $rd/stage/$p | grep -v -- '-r' | tr '\n' ' ')
refs=$(ls $rd/stage/$p | grep -- '-r' | tr '\n' ' ')
[ -n "$bugs" ] && tools/verify_seeded.sh $rd/stage/$p $bugs > $rd/logs/$p.bugs.log 2>&1
[ -n "$refs" ] && tools/verify_refactors.sh $rd/stage/$p $refs > $rd/logs/$p.refs.log 2>&1
cat $rd/logs/$p.bugs.log $rd/logs/$p.refs.log 2>/dev/null
[ -n "$bugs" ] && python3 tools/import_seeded.py $rd/stage/$p $rd/logs/$p.bugs.log
[ -n "$refs" ] && python3 tools/import_refactors.py $rd/stage/$p $rd/logs/$p.refs.log
