#!/bin/bash
# usage: tools/regress.sh <dir> [ids...] : own-property regression over seeded changes.
#   <id> = Cxx-<n>  (breaking change)  -> the Cxx check must exit 1
#   <id> = Cxx-r<n> (behaviour-preserving refactor) -> the Cxx check must exit 0
# Each change is applied in its own scratch worktree under /tmp (removed afterwards); 8 in parallel.
export GOFLAGS=-mod=mod GOPROXY=off GOSUMDB=off GOTOOLCHAIN=local
unset GOWORK
src=$1; shift
ids="$@"; [ -z "$ids" ] && ids=$(ls "$src" | grep '^C[0-9][0-9]-')
one() {
  id=$1; src=$2; p=${id%%-*}
  d=$src/$id
  patch=$d/patch.diff; [ -f $d/patch.ported.diff ] && patch=$d/patch.ported.diff
  wt=$(mktemp -d /tmp/rg.XXXXXX)
  git -C /repo worktree add -q --detach "$wt" HEAD || { echo "$id ERROR worktree"; return; }
  if ! git -C "$wt" apply "$patch" 2>/dev/null; then echo "$id ERROR patch-does-not-apply"; git -C /repo worktree remove --force "$wt"; rm -rf "$wt"; return; fi
  ev=$(mktemp -d /tmp/rgev.XXXXXX)
  o=$(GOLIBCHECK_EVIDENCE_DIR=$ev ${GOLIBCHECK_BIN:-/verif/bin/golibcheck} -prop $p -repo "$wt" 2>&1); rc=$?
  rules=$(echo "$o" | grep -o "^  \(VIOLATION\|UNDECIDED\) rule=[A-Za-z0-9.-]*" | sed 's/^  //; s/ rule=/:/' | sort | uniq -c | awk '{printf "%s(x%s) ", $2, $1}')
  case $id in
    *-r*) want=0;;
    *) want=1;;
  esac
  if [ $rc -eq $want ]; then v=ok; else v=WRONG; fi
  echo "$id want=$want got=$rc $v $rules"
  git -C /repo worktree remove --force "$wt" 2>/dev/null; rm -rf "$wt" "$ev"
}
export -f one
echo $ids | tr ' ' '\n' | xargs -P 8 -I{} bash -c "one {} $src" | sort
