#!/usr/bin/env python3
"""usage: tools/gen_seed_prompts.py <round-dir> <first-refactor-no> <n-refactors> <first-bug-no>
Writes <round-dir>/Cxx.prompt.txt for every property: the property's JSON record (nothing from /verif's
machinery), what earlier rounds already tried (titles + files from seeded/*/meta.json), and the task."""
import json, os, sys
rd, r0, nr, b0 = sys.argv[1], int(sys.argv[2]), int(sys.argv[3]), int(sys.argv[4])
props = [json.loads(l) for l in open('/verif/properties.jsonl')]
def tried(pid, refactor):
    out = []
    for d in sorted(os.listdir('/verif/seeded')):
        if not d.startswith(pid + '-'): continue
        if ('-r' in d) != refactor: continue
        try: m = json.load(open(f'/verif/seeded/{d}/meta.json'))
        except Exception: continue
        out.append(f"  - {m.get('title','')[:160]} (files: {', '.join(m.get('files_changed', []))[:120]})")
    return '\n'.join(out)
for p in props:
    pid = p['id']
    wt = f'{rd}/{pid}'
    rn = [f'r{r0+i}' for i in range(nr)]
    bn = [b0, b0 + 1]
    txt = f"""You are helping evaluate a verification effort for the Go library whatap/golib (a WhaTap APM agent common library: binary pack/value codecs, Java-ported linked hash maps and lists, HyperLogLog, UDP/TCP clients, file logger, file config). You have your own scratch git worktree of the library at {wt} (work ONLY there and under {rd}/out; never touch /repo or /verif, never read /verif). The sandbox has no network. For every shell call first run:
  export GOFLAGS=-mod=mod GOPROXY=off GOSUMDB=off GOTOOLCHAIN=local
The existing test suite is run with:  cd {wt} && go test -vet=off -count=1 ./...   (the two tests TestSingleConnect and TestMultiConnect in net/oneway fail offline on the unchanged tree too; ignore those two, everything else passes). NEVER use `git stash`; to reset use `git checkout -- . && git clean -fd` inside your worktree only.

Here is a semantic property that the library is supposed to satisfy (JSON record):

{json.dumps(p, indent=1, ensure_ascii=False)}

FIRST TASK: produce {nr} behaviour-PRESERVING refactors of code this property is anchored in, named {', '.join(rn)} — the kind of change a senior engineer makes in a clean-up sprint and a reviewer accepts because nothing observable changes. Each is 15-100 changed lines and each is of a DIFFERENT one of these kinds:
  (a) a change of control-flow style across one or more functions (loops rewritten with different induction, nested ifs flattened into guard clauses or a switch, a state flag replaced by early returns, recursion/iteration swapped, defer introduced or removed where it does not matter);
  (b) a change of internal data representation or of the way a constant/mapping is expressed (switch <-> table or map, parallel fields <-> small struct, slice <-> fixed array, magic numbers <-> named constants with arithmetic, bit tricks <-> arithmetic, hand-written loop <-> standard-library call with identical semantics);
  (c) an internal reorganisation (logic moved into a new unexported type, function or file of the same package; near-duplicates merged behind one helper with parameters or a small callback; a helper's signature changed; methods turned into functions or the reverse).
They must NOT change observable behaviour for any input/schedule with respect to the property, must compile (go build ./... and the test binaries), and the existing suite must still pass. Before you save a refactor, convince yourself with a throw-away differential test (old vs new on many inputs; delete it afterwards). Choose {nr} DIFFERENT functions/files among the property's anchors (read the anchor list carefully, including the less obvious files), preferring sites NOT in the list below.
Already tried for this property (pick other sites/kinds):
{tried(pid, True)}
Deliver each in {rd}/out/{pid}-rK/ (K = {', '.join(str(r0+i) for i in range(nr))}): patch.diff (git diff, applicable with `git apply` at the repo root; include new files) and meta.json {{"property":"{pid}","kind":"refactor","title":...,"files_changed":[...],"what_kind":<which kind of refactor>,"why_behaviour_preserved":<argument>,"verified":{{"builds":true/false,"suite_passes_with_change":true/false}}}}. After each: `git checkout -- . && git clean -fd`.

SECOND TASK: produce TWO independent, realistic source changes ("seeded bugs"), named {bn[0]} and {bn[1]}, each of which BREAKS this property while the library still compiles and the existing test suite still passes exactly as before. This time they should look like the by-product of FEATURE WORK or an OPTIMISATION rather than of a tidy-up: a new fast path or cache, a new option or limit, an early return added for a special case, a changed default, a concurrency tweak (lock narrowed, work moved to a goroutine), an error now handled differently, a standard-library function swapped for a near-equivalent, an off-by-one in new bounds logic (1-30 changed lines). Use sites and clauses DIFFERENT from these earlier ones (prefer clauses of the property statement that none of them attacks):
{tried(pid, False)}
IMPORTANT: the library already contains some genuine bugs; your change must break behaviour that currently WORKS: your demonstration must PASS on the unchanged tree and FAIL with your change.
For each k in {{{bn[0]},{bn[1]}}} deliver in {rd}/out/{pid}-k/: patch.diff (library change only), a demonstration test file demo_{pid}_k_test.go (say in meta.json which package directory it belongs in) whose test functions are named TestDemo{pid}_k..., that fails (or panics / hangs past its own timeout) WITH the change and passes WITHOUT it (deterministic if at all possible; if it needs -race or repetitions say so and give the exact command), and meta.json {{"property":"{pid}","title":...,"files_changed":[...],"what_breaks":...,"needs_to_manifest":...,"demo_pkg_dir":...,"demo_cmd":...,"verified":{{"builds":..,"suite_passes_with_change":..,"demo_passes_without_change":..,"demo_fails_with_change":..}}}}.
Procedure for each bug: write the demo first and confirm it passes on the unchanged worktree; apply the change, confirm go build ./... succeeds, the full suite still passes (except the two known offline failures) and the demo fails; save patch.diff (demo excluded); then `git checkout -- . && git clean -fd`.

If, while reading the code, you notice a GENUINE pre-existing bug relevant to this property (something that is wrong on the unchanged tree), mention it in one or two lines at the end of your report (file, function, failing input) — do not fix it.

At the end leave the worktree clean (git status shows nothing). Do not commit anything. Report briefly what you produced (ids + one line each) — no long explanations.
"""
    open(f'{rd}/{pid}.prompt.txt', 'w').write(txt)
print('prompts written to', rd)
