#!/usr/bin/env python3
"""usage: tools/gen_catch_md.py <matrix.tsv> : writes /verif/seeded/CATCH.md and copies the raw matrix
(development helper; the matrix comes from tools/catch_matrix.sh)."""
import json, os, sys, collections, shutil
tsv = sys.argv[1]
fired = collections.defaultdict(dict)   # id -> prop -> rules text
ran = {}      # id -> the checks that were run for it (neighbour matrix); absent = all 20
errors = {}
for l in open(tsv):
    f = l.rstrip('\n').split('\t')
    if len(f) < 3: continue
    if f[1] == 'RAN':
        ran[f[0]] = f[2].split()
        fired.setdefault(f[0], {})
        continue
    if f[1] == 'ERROR':
        errors[f[0]] = f[2]
        continue
    fired[f[0]][f[1]] = (f[3] if len(f) > 3 else '').strip() or f[2]
ids = sorted(d for d in os.listdir('/verif/seeded') if os.path.isdir(f'/verif/seeded/{d}'))
out = ["# Catch matrix", "",
       "One line per seeded change: which rules fire when the change is applied to a scratch worktree of /repo HEAD and the quick checks are run. `own` = the property the change was written against. The matrix of this file was produced by `tools/catch_neighbours.sh`: each change is run against its own property and every property whose anchored packages contain a file the change touches (a check reads its anchored packages only; the full 20-check matrix of `tools/catch_matrix.sh` takes about three hours for the whole set).", ""]
for kind, title in (('mutant', '## Breaking changes (the own property must report them)'), ('refactor', '## Behaviour-preserving refactors (every check must stay silent)')):
    out += [title, "", "| id | what | own property | other properties |", "|---|---|---|---|"]
    n = caught = silent = 0
    for d in ids:
        isref = '-r' in d
        if (kind == 'refactor') != isref: continue
        m = json.load(open(f'/verif/seeded/{d}/meta.json'))
        own = d.split('-')[0]
        o = fired.get(d, {})
        ownr = o.get(own, '')
        oth = '; '.join(f"{p}: {r}" for p, r in sorted(o.items()) if p != own)
        n += 1
        if ownr: caught += 1
        if not o and d not in errors: silent += 1
        t = (m.get('title') or '').replace('|', '/')
        out.append(f"| {d} | {t} | {ownr or ('—' if isref else '**not caught** (see DESIGN.md §7)')} | {oth or '—'} |")
    out.append("")
    out.append(f"{n} changes; " + (f"{caught} reported by their own property." if kind == 'mutant' else f"{silent} silent on every check run for them."))
    out.append("")
open('/verif/seeded/CATCH.md', 'w').write('\n'.join(out))
shutil.copy(tsv, '/verif/seeded/catch_matrix.tsv')
print('written')
