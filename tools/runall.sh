#!/bin/bash
# usage: tools/runall.sh [quick|thorough] : run every property's check on /repo, 4 at a time; summary lines only.
tier=${1:-quick}
cd /verif || exit 2
seq -f "C%02g" 1 20 | xargs -P 4 -I{} sh -c './bin/golibcheck -prop {} -tier '$tier' > /tmp/runall.{}.out 2>&1; echo "{} exit=$? $(grep -c "^KNOWN-FINDING" /tmp/runall.{}.out) known; $(grep "^property=" /tmp/runall.{}.out | tail -1)"; grep "^VIOLATION\|CHECKER-ERROR" /tmp/runall.{}.out; rm -f /tmp/runall.{}.out' | sort
