#!/usr/bin/env python3
# usage: tools/import_seeded.py <srcdir> <verify_seeded.log> : copy confirmed seeded changes into /verif/seeded/<id>/
# (patch.diff that applies to the current /repo HEAD, the demonstration, meta.json extended with what was re-run here).
import json, os, shutil, sys, subprocess, re
src, log = sys.argv[1], sys.argv[2]
head = subprocess.check_output(['git','-C','/repo','rev-parse','--short','HEAD']).decode().strip()
res = {}
for l in open(log):
    m = re.match(r'(\S+) demo0=(\S+) apply=(\S+) build=(\S+) suite=(\S+) demo1=(\S+)', l)
    if m: res[m.group(1)] = m.groups()[1:]
for d in sorted(os.listdir(src)):
    if d not in res: continue
    demo0, apply_, build, suite, demo1 = res[d]
    ok = demo0 == 'pass' and apply_ == 'ok' and build == 'ok' and suite == 'pass' and demo1.startswith('fails')
    if not ok:
        print('SKIP', d, res[d]); continue
    out = f'/verif/seeded/{d}'
    os.makedirs(out, exist_ok=True)
    p = f'{src}/{d}/patch.ported.diff'
    ported = os.path.exists(p)
    if not ported: p = f'{src}/{d}/patch.diff'
    shutil.copy(p, f'{out}/patch.diff')
    for f in os.listdir(f'{src}/{d}'):
        if f.startswith('demo_'): shutil.copy(f'{src}/{d}/{f}', f'{out}/{f}')
    m = json.load(open(f'{src}/{d}/meta.json'))
    names = []
    for f in os.listdir(f'{src}/{d}'):
        if f.startswith('demo_'):
            names += re.findall(r'^func (Test[A-Za-z0-9_]*)', open(f'{src}/{d}/{f}').read(), re.M)
    tn = "'^(" + '|'.join(names) + ")$'"
    m['demo_cmd'] = f"cp /verif/seeded/{d}/demo_*_test.go {m['demo_pkg_dir']}/ && go test -vet=off -count=1 -run {tn} ./{m['demo_pkg_dir']}/   (from the root of a scratch worktree; GOFLAGS=-mod=mod GOPROXY=off GOSUMDB=off GOTOOLCHAIN=local)"
    m['confirmed_here'] = {
        'against_repo_head': head,
        'how': 'tools/verify_seeded.sh in a scratch worktree under /tmp (removed afterwards)',
        'demo_passes_on_unchanged_tree': True, 'patch_applies': True, 'builds': True,
        'pinned_suite_passes_with_change': 'yes (only the two offline-dropped net/oneway tests fail, as on the unchanged tree)',
        'demo_fails_with_change': True,
        'patch_ported_to_current_head': ported,
    }
    json.dump(m, open(f'{out}/meta.json', 'w'), indent=1, ensure_ascii=False)
    print('ok', d)
