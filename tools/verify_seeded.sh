#!/bin/bash
# usage: tools/verify_seeded.sh <srcdir> [ids...]
# Re-verifies seeded changes (<srcdir>/<id>/{patch.diff|patch.ported.diff,demo_*_test.go,meta.json}) in a
# scratch worktree of /repo HEAD (outside /repo and /verif; removed at the end):
#   1. demo passes on the unchanged tree   2. patch applies and builds   3. pinned suite passes with it
#   4. demo fails with it.          Prints one line per id: "<id> demo0=.. apply=.. build=.. suite=.. demo1=.."
export GOFLAGS=-mod=mod GOPROXY=off GOSUMDB=off GOTOOLCHAIN=local
unset GOWORK
src=$1; shift
ids="$@"; [ -z "$ids" ] && ids=$(ls "$src")
wt=$(mktemp -d /tmp/vseed.XXXXXX)
git -C /repo worktree add -q --detach "$wt" HEAD || exit 2
trap 'git -C /repo worktree remove --force "$wt" 2>/dev/null; rm -rf "$wt"' EXIT
cd "$wt" || exit 2
for id in $ids; do
  d=$src/$id
  pkg=$(python3 -c "import json,sys;print(json.load(open('$d/meta.json'))['demo_pkg_dir'])")
  demo=$(ls $d/demo_*_test.go | head -1)
  tn="^($(grep -o "^func Test[A-Za-z0-9_]*" $demo | sed 's/func //' | tr '\n' '|' | sed 's/|$//'))\$"
  patch=$d/patch.diff; [ -f $d/patch.ported.diff ] && patch=$d/patch.ported.diff
  git reset -q --hard HEAD; git clean -fdq
  cp $demo $pkg/
  if go test -vet=off -count=1 -run "$tn" ./$pkg/ >/tmp/vseed.$$.d0 2>&1 && grep -q "^ok" /tmp/vseed.$$.d0 && ! grep -q "no tests to run" /tmp/vseed.$$.d0; then demo0=pass; else demo0=FAIL; fi
  rm -f $pkg/$(basename $demo)
  if git apply "$patch" 2>/dev/null; then apply=ok; else apply=CONFLICT; fi
  build=-; suite=-; demo1=-
  if [ $apply = ok ]; then
    if go build ./... >/dev/null 2>&1 && go test -vet=off -count=1 -run '^$' ./... >/dev/null 2>&1; then build=ok; else build=FAIL; fi
    fails=$(go test -vet=off -count=1 -timeout 25m ./... 2>&1 | grep "^--- FAIL" | grep -v "TestMultiConnect\|TestSingleConnect" | tr '\n' ' ')
    if [ -z "$fails" ]; then suite=pass; else suite="FAIL($fails)"; fi
    cp $demo $pkg/
    if go test -vet=off -count=1 -run "$tn" ./$pkg/ >/tmp/vseed.$$.d1 2>&1; then demo1=PASSES; else
      if grep -q "^--- FAIL\|^panic\|FAIL" /tmp/vseed.$$.d1; then demo1=fails; else demo1=ERR; fi; fi
    grep -q "build failed\|cannot\|undefined" /tmp/vseed.$$.d1 && demo1="$demo1(build?)"
  fi
  echo "$id demo0=$demo0 apply=$apply build=$build suite=$suite demo1=$demo1"
done
rm -f /tmp/vseed.$$.d0 /tmp/vseed.$$.d1
