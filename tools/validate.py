#!/usr/bin/env python3-vt
import json,jsonschema,glob,sys
jsonschema.validate(json.load(open('/verif/MANIFEST.json')),json.load(open('/root/.vp/MANIFEST.schema.json')))
bad=False
es=json.load(open('/root/.vp/EVIDENCE.schema.json'))
m=json.load(open('/verif/MANIFEST.json'))
for c in m['checks']:
    try:
        jsonschema.validate(json.load(open(c['evidence_file'])),es)
    except Exception as e:
        print("BAD",c['property_id'],str(e)[:200]); bad=True; continue
sys.exit(1) if bad else None
print("manifest ok; evidence checked for",[c['property_id'] for c in m['checks']])
