#!/usr/bin/env python3
"""Development helper (never run by a check): add the current violations of a property, filtered by a
substring of the construct, to known_findings.json with an explanation.
usage: addknown.py C03 '<construct substring>' '<what>' ['<input or schedule>']"""
import json,sys
prop,sub,what=sys.argv[1],sys.argv[2],sys.argv[3]
inp=sys.argv[4] if len(sys.argv)>4 else ""
kf='/verif/known_findings.json'
try: k=json.load(open(kf))
except FileNotFoundError: k={"findings":[],"fixed":[]}
vs=json.load(open(f'/verif/evidence/{prop}.violations.json'))
have={(f['property'],f['rule'],f['construct']) for f in k['findings']}
n=0
for v in vs:
    if v['verdict']!='violation' or sub not in v['construct']: continue
    key=(prop,v['rule'],v['construct'])
    if key in have: continue
    have.add(key)
    e={"property":prop,"rule":v['rule'],"construct":v['construct'],"what":what}
    if inp: e["input_or_schedule"]=inp
    k['findings'].append(e); n+=1
json.dump(k,open(kf,'w'),indent=1)
print("added",n)
