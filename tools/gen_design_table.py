#!/usr/bin/env python3
"""Rewrites the rule/obligation table of DESIGN.md §3 from the evidence files of the latest run (development helper)."""
import json, re
rows = ["| Id | Rules (instances) | Obligations | Known | quick |", "|---|---|---|---|---|"]
for i in range(1, 21):
    pid = 'C%02d' % i
    e = json.load(open(f'/verif/evidence/{pid}.json'))
    c = e['coverage']
    rules = ', '.join(f"{r['id'].split('.',1)[1]} {r['instances']}" for r in c['rules'])
    rows.append(f"| {pid} | {rules} | {c['obligations']} | {c.get('known_findings', 0)} | {e['wall_s']:.1f} s |")
p = '/verif/DESIGN.md'
s = open(p).read()
m = re.search(r'\| Id \| Rules \(instances\).*?\n\n', s, re.S)
s = s[:m.start()] + '\n'.join(rows) + '\n\n' + s[m.end():]
open(p, 'w').write(s)
print('table rewritten')
